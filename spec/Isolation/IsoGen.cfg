SPECIFICATION Spec
CONSTANTS
  NInst = 3
  NSeg = 2
  Reps = 2
INVARIANT Emit
CHECK_DEADLOCK FALSE
