------------------------------ MODULE Isolation ------------------------------
(***************************************************************************)
(* E8/C46 (and the determinism clause of C31): instances (a simulation =   *)
(* model + integrator + options; a random number generator) are SEQUENTIAL *)
(* programs of K segments (construct+initialise, step, step, ...).  Inside *)
(* one process any instance with remaining segments may run its next one:  *)
(* the only freedom is the SCHEDULE.  By specification the digest of the   *)
(* whole observable state of instance i after its k-th segment is a        *)
(* function of (i, k) alone -- in particular the same as when the instance *)
(* runs alone.  An instance may also be REPEATED on the same objects: after *)
(* its K-th segment, segment K+1 re-initialises them with the same initial *)
(* state and options, and the digests repeat -- the digest after segment k *)
(* is a function of (i, ((k-1) mod K) + 1).                                *)
(* TLC enumerates every schedule; a recorded execution is                  *)
(* accepted iff every segment's digest equals the reference table          *)
(* recorded from solo runs.                                                *)
(***************************************************************************)
EXTENDS Integers, Sequences, TLC, Json, IOUtils
CONSTANTS NInst, NSeg, Reps
VARIABLES done, sched
Init == done = [i \in 1..NInst |-> 0] /\ sched = <<>>
Run(i) == done[i] < NSeg * Reps /\ done' = [done EXCEPT ![i] = @ + 1] /\ sched' = Append(sched, i)
Next == \E i \in 1..NInst : Run(i)
Spec == Init /\ [][Next]_<<done, sched>>
Emit == (\A i \in 1..NInst : done[i] = NSeg * Reps) => PrintT("SCHED " \o ToJson(sched))

=============================================================================
