--------------------------- MODULE IsolationTrace ---------------------------
(* Validation of a recorded execution against Isolation.tla's claim: the digest after segment k of *)
(* instance i is a function of (i, k).  Lines Ref(i,k,h) come from solo runs, Seg(i,k,h) from the   *)
(* interleaved executions (one Reset line, carrying the number of segments, before each schedule).                                    *)
EXTENDS Integers, Sequences, TLC, Json, IOUtils
Log == ndJsonDeserialize(IOEnv.TRACE)
VARIABLES l, ref, cnt, nseg
TInit == l = 1 /\ ref = [i \in 1..9 |-> [k \in 1..9 |-> <<>>]] /\ cnt = [i \in 1..9 |-> 0] /\ nseg = 1
TNext == /\ l <= Len(Log) /\ l' = l + 1
         /\ LET e == Log[l] IN
            CASE e.e = "Ref"   -> ref' = [ref EXCEPT ![e.i][e.k] = e.h] /\ UNCHANGED <<cnt, nseg>>
              [] e.e = "Reset" -> cnt' = [i \in 1..9 |-> 0] /\ nseg' = e.k /\ UNCHANGED ref      \* k carries the number of segments
              [] e.e = "Seg"   -> /\ e.k = cnt[e.i] + 1                          \* segments of one instance in order
                                  /\ e.h = ref[e.i][((e.k - 1) % nseg) + 1]      \* digest as in the solo run, also when repeated
                                  /\ cnt' = [cnt EXCEPT ![e.i] = e.k] /\ UNCHANGED <<ref, nseg>>
TSpec == TInit /\ [][TNext]_<<l, ref, cnt, nseg>>
ASSUME TLCSet(42, 0)
TrackL == IF l > TLCGet(42) THEN TLCSet(42, l) ELSE TRUE
Accepted == PrintT(<<"MAXL", TLCGet(42), Len(Log)>>)
=============================================================================
