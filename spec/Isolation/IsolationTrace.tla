--------------------------- MODULE IsolationTrace ---------------------------
(* Validation of a recorded execution against Isolation.tla's claim: the digest after segment k of *)
(* instance i is a function of (i, k).  Lines Ref(i,k,h) come from solo runs, Seg(i,k,h) from the   *)
(* interleaved executions (one Reset line before each schedule).                                    *)
EXTENDS Integers, Sequences, TLC, Json, IOUtils
Log == ndJsonDeserialize(IOEnv.TRACE)
VARIABLES l, ref, cnt
TInit == l = 1 /\ ref = [i \in 1..9 |-> [k \in 1..9 |-> <<>>]] /\ cnt = [i \in 1..9 |-> 0]
TNext == /\ l <= Len(Log) /\ l' = l + 1
         /\ LET e == Log[l] IN
            CASE e.e = "Ref"   -> ref' = [ref EXCEPT ![e.i][e.k] = e.h] /\ UNCHANGED cnt
              [] e.e = "Reset" -> cnt' = [i \in 1..9 |-> 0] /\ UNCHANGED ref
              [] e.e = "Seg"   -> /\ e.k = cnt[e.i] + 1              \* segments of one instance in order
                                  /\ e.h = ref[e.i][e.k]             \* digest as in the solo run
                                  /\ cnt' = [cnt EXCEPT ![e.i] = e.k] /\ UNCHANGED ref
TSpec == TInit /\ [][TNext]_<<l, ref, cnt>>
ASSUME TLCSet(42, 0)
TrackL == IF l > TLCGet(42) THEN TLCSet(42, l) ELSE TRUE
Accepted == PrintT(<<"MAXL", TLCGet(42), Len(Log)>>)
=============================================================================
