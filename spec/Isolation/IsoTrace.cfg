SPECIFICATION TSpec
INVARIANT TrackL
POSTCONDITION Accepted
CHECK_DEADLOCK FALSE
