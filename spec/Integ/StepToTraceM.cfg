SPECIFICATION MachineSpec
CONSTANTS
  TMax = 4000
  Options <- NoOptions
  MaxCalls = 0
  Cand <- TraceCand
  WinCand <- TraceWin
  DEV <- NoDev
  VirtualTimes = TRUE
INVARIANTS TrackL ContractAtReturn
POSTCONDITION Accepted
CHECK_DEADLOCK FALSE
