----------------------------- MODULE StepToTrace -----------------------------
(***************************************************************************)
(* Trace validation for C19.  A trace recorded by harness/record_integ     *)
(* (times replaced by their ranks among the times occurring in that        *)
(* execution: even numbers; odd numbers stand for unrecorded times in the  *)
(* gaps) is checked in two ways:                                           *)
(*   MachineSpec  -- the trace must be a behaviour of the step             *)
(*     communication machine of StepTo.tla: every Call / Return / Reinit   *)
(*     line is matched, hidden internal steps are inferred by TLC;         *)
(*   ContractSpec -- the observed values are loaded into the variables     *)
(*     and only the contract invariants are evaluated (used for CPodes,    *)
(*     whose stepTo is a different machine, and as a second opinion for    *)
(*     all the others).                                                    *)
(***************************************************************************)
EXTENDS StepTo, Json, IOUtils, Sequences

Log == ndJsonDeserialize(IOEnv.TRACE)
VARIABLE l
tvars == <<vars, l>>
Ev == Log[l]

Status(n) == CASE n = 1 -> "ReachedReportTime" [] n = 2 -> "ReachedEventTrigger"
               [] n = 3 -> "ReachedScheduledEvent" [] n = 4 -> "TimeHasAdvanced"
               [] n = 5 -> "ReachedStepLimit" [] n = 6 -> "EndOfSimulation"
               [] n = 7 -> "StartOfContinuousInterval" [] OTHER -> "Refused"

\* candidates for the end of a hidden or final internal step: the advanced time the next Return
\* line reports, and every odd (unrecorded) time up to it
NextRet == IF l <= Len(Log) /\ Log[l].e = "Ret" THEN Log[l] ELSE [tadv |-> 0, n |-> 0]
TraceCand(t) == {NextRet.tadv} \cup {r \in t..NextRet.tadv : r % 2 = 1}
\* the only window an internal step can have found is the next one this execution reports
\* (recorded on every line by the trace preparation as wlo, whi; -1 if none)
TraceWin(t) == IF l <= Len(Log) /\ Log[l].whi >= 0 THEN {<<Log[l].wlo, Log[l].whi>>} ELSE {}

ResetVars(o) ==
  /\ opt' = o /\ mode' = "idle" /\ cs' = CompNoEv /\ soci' = TRUE /\ tAdv' = 0 /\ tSt' = 0 /\ interp' = FALSE
  /\ lo' = -1 /\ hi' = -1 /\ rep' = 0 /\ sch' = 0 /\ steps' = 0 /\ ret' = "Init" /\ ncalls' = 0 /\ prevSt' = 0
  /\ repW' = 0

TReset == Ev.e = "Reset" /\ l' = l + 1
          /\ ResetVars([final |-> Ev.final, allowInterp |-> Ev.allowInterp, everyStep |-> Ev.everyStep,
                        stepLimit |-> Ev.stepLimit])

\* ---- machine level
TCall == Ev.e = "Call" /\ Call(Ev.rep, Ev.sch) /\ l' = l + 1
TLoop == mode = "loop" /\ Ev.e = "Ret" /\ Loop /\ steps' <= Ev.n /\ l' = l
TRet  == /\ Ev.e = "Ret" /\ mode = "idle" /\ ret \notin {"None", "Init", "Reinit"}
         /\ ret = Status(Ev.st) /\ tSt = Ev.t /\ tAdv = Ev.tadv /\ interp = (Ev.interp = 1)
         /\ steps = Ev.n /\ (cs = FinalRet) = (Ev.over = 1)
         /\ (Ev.st = 2 => lo = Ev.lo /\ hi = Ev.hi)
         /\ l' = l + 1 /\ ret' = "None" /\ UNCHANGED <<opt, mode, cs, soci, tAdv, tSt, interp, lo, hi, rep, sch, steps, ncalls, prevSt, repW>>
TReinit == Ev.e = "Reinit" /\ l' = l + 1 /\ ret' = "Reinit"
           /\ (IF Ev.mod = 1 THEN (soci' = TRUE /\ tSt' = tAdv /\ interp' = FALSE) ELSE UNCHANGED <<soci, tSt, interp>>)
           /\ UNCHANGED <<opt, mode, cs, tAdv, lo, hi, rep, sch, steps, ncalls, prevSt, repW>>
MachineNext == l <= Len(Log) /\ (TReset \/ TCall \/ TLoop \/ TRet \/ TReinit)
MachineSpec == (InitWith([final |-> TMax + 5, allowInterp |-> TRUE, everyStep |-> FALSE, stepLimit |-> 0]) /\ l = 1)
               /\ [][MachineNext]_tvars
\* TRet hides the status from the Contract invariants (ret = "None"); evaluate them on the state
\* in which the return is matched instead
ContractAtReturn == (l <= Len(Log) /\ Log[l].e = "Ret" /\ mode = "idle" /\ ret \notin {"None", "Init", "Reinit"}) => Contract

\* ---- contract level: load what was observed
CCall == Ev.e = "Call" /\ l' = l + 1
         /\ rep' = Ev.rep /\ sch' = Ev.sch /\ prevSt' = tSt /\ ncalls' = ncalls + 1 /\ ret' = "None" /\ mode' = "loop"
         /\ UNCHANGED <<opt, cs, soci, tAdv, tSt, interp, lo, hi, steps, repW>>
CRet  == Ev.e = "Ret" /\ l' = l + 1
         /\ ret' = Status(Ev.st) /\ tSt' = Ev.t /\ tAdv' = Ev.tadv /\ interp' = (Ev.interp = 1) /\ steps' = Ev.n
         /\ cs' = (IF Ev.over = 1 THEN FinalRet ELSE RetNoEv)
         /\ mode' = "idle"
         /\ (IF Ev.st = 2 THEN (lo' = Ev.lo /\ hi' = Ev.hi /\ repW' = (IF Ev.n > 0 THEN rep ELSE repW))
             ELSE UNCHANGED <<lo, hi, repW>>)
         /\ UNCHANGED <<opt, soci, rep, sch, ncalls, prevSt>>
CReinit == Ev.e = "Reinit" /\ l' = l + 1 /\ ret' = "Reinit"
           /\ (IF Ev.mod = 1 THEN (tSt' = tAdv /\ interp' = FALSE) ELSE UNCHANGED <<tSt, interp>>)
           /\ UNCHANGED <<opt, mode, cs, soci, tAdv, lo, hi, rep, sch, steps, ncalls, prevSt, repW>>
ContractNext == l <= Len(Log) /\ (TReset \/ CCall \/ CRet \/ CReinit)
ContractSpec == (InitWith([final |-> TMax + 5, allowInterp |-> TRUE, everyStep |-> FALSE, stepLimit |-> 0]) /\ l = 1)
                /\ [][ContractNext]_tvars

\* acceptance: the highest line reached
ASSUME TLCSet(42, 0)
TrackL == IF l > TLCGet(42) THEN TLCSet(42, l) ELSE TRUE
Accepted == PrintT(<<"MAXL", TLCGet(42), Len(Log)>>)
NoOptions == {}
=============================================================================
