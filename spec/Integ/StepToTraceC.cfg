SPECIFICATION ContractSpec
CONSTANTS
  TMax = 4000
  Options <- NoOptions
  MaxCalls = 0
  Cand <- TraceCand
  WinCand <- TraceWin
  DEV <- NoDev
  VirtualTimes = TRUE
INVARIANTS TrackL Contract
POSTCONDITION Accepted
CHECK_DEADLOCK FALSE
