SPECIFICATION GenSpec
CONSTANTS
  TMax = 6
  Handlers = {"h0", "h1"}
  Reporters = {"r0", "r1"}
  SubOf <- MCSubOf
  TimeSets <- GenTimeSets
  AccumBug = FALSE
  Depth = 25
INVARIANT Emit
CHECK_DEADLOCK FALSE
