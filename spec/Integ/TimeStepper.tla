----------------------------- MODULE TimeStepper -----------------------------
(***************************************************************************)
(* E4: TimeStepperRep::stepTo -- dispatch of scheduled event handlers and  *)
(* reporters (C22, handler clause).                                        *)
(*                                                                         *)
(* Time is 0..TMax.  Scheduled handlers and reporters live in subsystems   *)
(* (in subsystem-index order); each has a set of times.  One iteration of  *)
(* the loop computes the next scheduled event / report as                  *)
(* System::Guts::calcTimeOfNextScheduledEventImpl does (scan of the        *)
(* subsystems accumulating ids), asks the integrator to step to            *)
(* min(report, target) / min(event, target) and dispatches by the returned *)
(* status.  The integrator is abstracted by its contract (StepTo.tla):     *)
(* it returns at the earlier of the two times, a report first when they    *)
(* coincide, immediately when one of them is the current time.             *)
(* A handler may modify the state (-> reinitialize: the next stepTo        *)
(* returns StartOfContinuousInterval) or terminate the simulation.         *)
(***************************************************************************)
EXTENDS Integers, Sequences, FiniteSets, TLC

CONSTANTS TMax,
          Handlers,     \* set of handler ids (scheduled event handlers)
          Reporters,    \* set of reporter ids
          SubOf,        \* [Handlers \cup Reporters -> 0..1]: subsystem index
          TimeSets,     \* candidate sets of times for one handler
          AccumBug      \* TRUE = the id accumulation of the pinned commit (tNextEvent assigned
                        \* before the "strictly earlier" test, so ids are never cleared)

Inf == TMax + 1
Time == 0..TMax
All == Handlers \cup Reporters

VARIABLES times,      \* [All -> SUBSET Time]: when each handler / reporter is scheduled
          modifies,   \* [Handlers -> BOOLEAN]: handler changes the state
          t,          \* current time
          lastEv, lastRep,
          soci,       \* integrator will return StartOfContinuousInterval next
          fired,      \* set of <<id, time>>: invocations so far
          target,     \* argument of the TimeStepper::stepTo in progress, or -1
          over
vars == <<times, modifies, t, lastEv, lastRep, soci, fired, target, over>>

Init == /\ times \in [All -> TimeSets] /\ modifies \in [Handlers -> BOOLEAN]
        /\ t = 0 /\ lastEv = -1 /\ lastRep = -1 /\ soci = TRUE /\ fired = {} /\ target = -1 /\ over = FALSE

\* ScheduledEventHandler::getNextEventTime as the harness's handlers implement it
NextOf(h, incl) == LET S == {x \in times[h] : x > t \/ (incl /\ x = t)} IN
                   IF S = {} THEN Inf ELSE CHOOSE x \in S : \A y \in S : x <= y
\* one subsystem: earliest time over its handlers and the ids scheduled then
SubNext(H, sx, incl) ==
  LET mine == {h \in H : SubOf[h] = sx}
      tm == IF mine = {} THEN Inf
            ELSE LET ts == {NextOf(h, incl) : h \in mine} IN CHOOSE x \in ts : \A y \in ts : x <= y
  IN [time |-> tm, ids |-> IF tm = Inf THEN {} ELSE {h \in mine : NextOf(h, incl) = tm}]
\* System::Guts::calcTimeOfNextScheduled{Event,Report}Impl: scan subsystems 0, 1
SysNext(H, incl) ==
  LET a == SubNext(H, 0, incl)  b == SubNext(H, 1, incl) IN
  \* after subsystem 0: tNext = a.time, ids = a.ids (Inf <= Inf holds, ids empty)
  IF b.time <= a.time
  THEN [time |-> b.time,
        ids  |-> IF b.time < a.time /\ ~AccumBug THEN b.ids ELSE a.ids \cup b.ids]
  ELSE a

Fire(ids) == fired' = fired \cup {<<h, t'>> : h \in ids}

\* user calls TimeStepper::stepTo(x)
Call == /\ target = -1 /\ ~over
        /\ \E x \in Time : x >= t /\ target' = x
        /\ UNCHANGED <<times, modifies, t, lastEv, lastRep, soci, fired, over>>

\* one iteration of the while loop
Iter ==
  /\ target # -1 /\ ~over
  /\ LET ne == SysNext(Handlers, lastEv # t)
         nr == SysNext(Reporters, lastRep # t)
         rep == IF nr.time < target THEN nr.time ELSE target
         ev  == IF ne.time < target THEN ne.time ELSE target
     IN
     IF soci THEN \* integrator returns StartOfContinuousInterval at once
          /\ soci' = FALSE /\ UNCHANGED <<times, modifies, t, lastEv, lastRep, fired, target, over>>
     ELSE IF rep <= ev THEN   \* ReachedReportTime at rep (also when rep = t)
          /\ t' = rep
          /\ IF rep >= nr.time THEN Fire(nr.ids) /\ lastRep' = rep ELSE UNCHANGED <<fired, lastRep>>
          /\ target' = IF rep >= target THEN -1 ELSE target
          /\ UNCHANGED <<times, modifies, lastEv, soci, over>>
     ELSE                     \* ReachedScheduledEvent at ev < rep
          /\ t' = ev /\ Fire(ne.ids) /\ lastEv' = ev
          /\ soci' = (\E h \in ne.ids : modifies[h])
          /\ UNCHANGED <<times, modifies, lastRep, target, over>>

Next == Call \/ Iter
Spec == Init /\ [][Next]_vars

-----------------------------------------------------------------------------
\* every handler and reporter is invoked only at its scheduled times ...
OnlyWhenScheduled == \A f \in fired : f[2] \in times[f[1]]
\* ... and at every one of them that time has passed (a handler scheduled exactly at the time a
\* stepTo call returns is invoked by the next call)
NoneMissed == \A h \in All : \A x \in times[h] : x < t => <<h, x>> \in fired
\* when the caller gets control back, everything before the returned time has been handled
DoneAtReturn == target = -1 => \A h \in All : \A x \in times[h] : x < t => <<h, x>> \in fired
TypeOK == t \in Time /\ target \in Time \cup {-1}

MCSubOf == [h \in All |-> IF h \in {"h0", "r0"} THEN 0 ELSE 1]
MCTimeSets == {{}, {1}, {3}, {1, 2}, {2, 3}, {0, 2}}
=============================================================================
