------------------------------ MODULE StepToGen ------------------------------
(* Generator of request programs: random walks of the StepTo machine; the sequence of calls   *)
(* (report and scheduled-event ticks), reinitialisations and the options are printed.  Where   *)
(* internal steps end and which events occur is decided by the real integrators at replay.     *)
EXTENDS StepTo, Json, Sequences
VARIABLE hist
GenInit == Init /\ hist = <<>>
Rec == IF mode' = "loop" \/ (mode = "idle" /\ ncalls' = ncalls + 1)
       THEN <<[a |-> "Call", rep |-> rep', sch |-> sch']>>
       ELSE IF ret' = "Reinit" /\ ret # "Reinit" THEN <<[a |-> "Reinit", mod |-> soci']>>
       ELSE <<>>
GenNext == Next /\ hist' = hist \o (IF ncalls' # ncalls THEN <<[a |-> "Call", rep |-> rep', sch |-> sch']>>
                                     ELSE IF ret' = "Reinit" /\ ret # "Reinit" THEN <<[a |-> "Reinit", mod |-> soci']>>
                                     ELSE <<>>)
GenSpec == GenInit /\ [][GenNext]_<<vars, hist>>
CONSTANT Depth
Emit == TLCGet("level") = Depth => PrintT("PROG " \o ToJson([opt |-> opt, prog |-> hist]))
GenOptions == [final : {3, 5, TMax + 5}, allowInterp : BOOLEAN, everyStep : BOOLEAN, stepLimit : {0, 1}]
=============================================================================
