SPECIFICATION GenSpec
CONSTANTS
  TMax = 6
  Options <- GenOptions
  MaxCalls = 99
  Cand <- MCCand
  WinCand <- MCWin
  DEV <- NoDev
  VirtualTimes = FALSE
  Depth = 30
INVARIANT Emit
CHECK_DEADLOCK FALSE
