---------------------------- MODULE ManifoldTrace ----------------------------
(***************************************************************************)
(* Trace validation for C21: every state an integrator returns for a       *)
(* constrained model is on the constraint manifold.  The harness computes, *)
(* for every returned state, whether the position-constraint norm, the     *)
(* velocity-constraint norm and the quaternion normalisation error are     *)
(* within the constraint tolerance in use and whether prescribed motion is *)
(* honoured (flags; TLC cannot do the arithmetic).  The specification says *)
(* which returns must have which flags: all of them, except that an        *)
(* interpolated state (report before the advanced time, event before-      *)
(* state) need not satisfy the constraints when projection of interpolated *)
(* states has been switched off -- prescribed motion is applied even then. *)
(***************************************************************************)
EXTENDS Integers, Sequences, TLC, Json, IOUtils
Log == ndJsonDeserialize(IOEnv.TRACE)
VARIABLES l, projInterp, last
vars == <<l, projInterp, last>>
Ev == Log[l]
NoRet == [st |-> 0, interp |-> 0, q |-> 1, u |-> 1, quat |-> 1, pres |-> 1]
TReset == Ev.e = "Reset" /\ l' = l + 1 /\ projInterp' = (Ev.projInterp = 1) /\ last' = NoRet
TRet == Ev.e = "Ret" /\ l' = l + 1 /\ UNCHANGED projInterp
        /\ last' = [st |-> Ev.st, interp |-> Ev.interp, q |-> Ev.q, u |-> Ev.u, quat |-> Ev.quat, pres |-> Ev.pres]
Next == l <= Len(Log) /\ (TReset \/ TRet)
Spec == (l = 1 /\ projInterp = TRUE /\ last = NoRet) /\ [][Next]_vars

Exempt == last.interp = 1 /\ ~projInterp
OnManifold == /\ last.pres = 1
              /\ (Exempt \/ (last.q = 1 /\ last.u = 1 /\ last.quat = 1))
ASSUME TLCSet(42, 0)
TrackL == IF l > TLCGet(42) THEN TLCSet(42, l) ELSE TRUE
Accepted == PrintT(<<"MAXL", TLCGet(42), Len(Log)>>)
=============================================================================
