SPECIFICATION Spec
INVARIANTS TrackL OnManifold
POSTCONDITION Accepted
CHECK_DEADLOCK FALSE
