SPECIFICATION Spec
CONSTANTS
  TMax = 4
  Options <- AllOptions
  MaxCalls = 4
  Cand <- MCCand
  WinCand <- MCWin
  DEV <- NoDev
  VirtualTimes = FALSE
CONSTRAINT Bound
INVARIANTS TypeOK Contract
CHECK_DEADLOCK FALSE
