-------------------------------- MODULE StepTo --------------------------------
(***************************************************************************)
(* E4: the stepTo contract (C19) and the step-communication state machine  *)
(* of AbstractIntegratorRep::stepTo as coded.                              *)
(*                                                                         *)
(* Times are points of a totally ordered finite set 0..TMax (ticks in the  *)
(* design check; ranks of the real times in a validated trace -- the       *)
(* machine and the contract only COMPARE times, so rank encoding is        *)
(* exact).                                                                 *)
(*                                                                         *)
(* One call of stepTo(rep, sch) is: Call, then Loop iterations (each one   *)
(* pass through the switch on the step communication status, possibly      *)
(* followed by one internal step), then a Return.  The internal step       *)
(* (takeOneStep) is the environment: it ends at any time in (tAdv, tMax]   *)
(* and may report an event window (lo, hi] with tAdv <= lo < hi, never     *)
(* with the report time strictly inside (the localisation loop bisects at  *)
(* the report time).                                                       *)
(***************************************************************************)
EXTENDS Integers, FiniteSets, TLC

CONSTANTS TMax,          \* times are 0..TMax
          Options,       \* set of option records [final, allowInterp, everyStep, stepLimit]
                         \*   final: final time, or any value > TMax for none; stepLimit: 0 = none
          MaxCalls,      \* bound for the design check
          Cand(_),       \* times at which an internal step starting at the argument may end
          WinCand(_),    \* event windows <<lo, hi>> an internal step starting at the argument may report
          DEV,           \* deviations (known-wrong variants of one rule) for vacuity control
          VirtualTimes   \* BOOLEAN: odd times stand for "somewhere strictly between two recorded
                         \* times" (trace validation: hidden internal steps); two hidden step ends
                         \* in the same gap are then represented by the same odd number

Inf == TMax + 1
Time == 0..TMax
Min2(a, b) == IF a < b THEN a ELSE b
Later(a, b) == a > b \/ (VirtualTimes /\ a = b /\ a % 2 = 1)

\* step communication status
RetNoEv == "RetNoEv"  RetEv == "RetEv"  CompNoEv == "CompNoEv"  CompEv == "CompEv"  FinalRet == "FinalRet"

VARIABLES opt,      \* the options in force (fixed between initialisations)
          mode,     \* "idle" | "loop"
          cs,       \* step communication status
          soci,     \* startOfContinuousInterval
          tAdv,     \* advanced time
          tSt,      \* time of the state the caller sees (getState().getTime())
          interp,   \* useInterpolatedState
          lo, hi,   \* event window of the last internal step that found an event (-1: none)
          rep, sch, \* arguments of the call in progress / last call
          steps,    \* internal steps taken during this call
          ret,      \* status returned by the last call
          ncalls,
          prevSt,   \* state time at the previous return (for monotonicity)
          repW      \* the report time in force when the event window was localised
vars == <<opt, mode, cs, soci, tAdv, tSt, interp, lo, hi, rep, sch, steps, ret, ncalls, prevSt, repW>>

Fin == IF opt.final > TMax THEN Inf ELSE opt.final
AllowInterp == opt.allowInterp
EveryStep == opt.everyStep
StepLimit == opt.stepLimit

InitWith(o) ==
        /\ opt = o /\ mode = "idle" /\ cs = CompNoEv /\ soci = TRUE /\ tAdv = 0 /\ tSt = 0 /\ interp = FALSE
        /\ lo = -1 /\ hi = -1 /\ rep = 0 /\ sch = 0 /\ steps = 0 /\ ret = "Init" /\ ncalls = 0 /\ prevSt = 0
        /\ repW = 0
Init == \E o \in Options : InitWith(o)

\* ---- environment assumptions on the arguments of a call (what a caller such as TimeStepper
\* guarantees): not in the past of the visible state; a scheduled-event time is not earlier than
\* the time the integrator has already advanced to (it cannot refuse to pass a time it was not told)
CallOK(r, s) == r \in Time \cup {Inf} /\ s \in Time \cup {Inf} /\ r >= tSt /\ s >= tSt /\ s >= tAdv

Call(r, s) ==
  /\ mode = "idle" /\ CallOK(r, s)
  /\ rep' = r /\ sch' = s /\ steps' = 0 /\ ncalls' = ncalls + 1 /\ prevSt' = tSt /\ UNCHANGED opt
  /\ IF soci
     THEN /\ soci' = FALSE /\ cs' = RetNoEv /\ ret' = "StartOfContinuousInterval" /\ mode' = "idle"
          /\ UNCHANGED <<tAdv, tSt, interp, lo, hi, repW>>
     ELSE /\ mode' = "loop" /\ ret' = "None"
          /\ UNCHANGED <<cs, soci, tAdv, tSt, interp, lo, hi, repW>>

TMaxOf == LET m0 == IF "TMaxIgnoresFinal" \in DEV THEN sch ELSE Min2(sch, Fin)
              tRet == Min2(rep, m0)
          IN IF AllowInterp /\ "InterpIgnored" \notin DEV THEN m0 ELSE tRet

Return(status, newcs, st, ip) ==
  /\ mode' = "idle" /\ ret' = status /\ cs' = newcs /\ tSt' = st /\ interp' = ip
  /\ UNCHANGED <<opt, soci, tAdv, lo, hi, rep, sch, steps, ncalls, prevSt, repW>>

\* the internal step: environment chooses where it ends and whether an event was localised
TakeOneStep ==
  \E t1 \in Cand(tAdv) :
    /\ Later(t1, tAdv) /\ t1 <= TMaxOf
    /\ \/ /\ tAdv' = t1 /\ cs' = CompNoEv /\ UNCHANGED <<lo, hi, repW>>
       \/ \E w \in WinCand(tAdv) : LET l == w[1]  h == w[2] IN
            /\ tAdv <= l /\ l < h /\ h <= t1
            /\ ("WindowIgnoresReport" \in DEV \/ ~(l < rep /\ rep < h))
            /\ tAdv' = h /\ lo' = l /\ hi' = h /\ cs' = CompEv /\ repW' = rep
    /\ steps' = steps + 1
    /\ tSt' = tAdv' /\ interp' = FALSE      \* the advanced state is now the visible one
    /\ UNCHANGED <<opt, mode, soci, rep, sch, ret, ncalls, prevSt>>

\* after the switch: return at once if a report or scheduled event is due at the current time
\* (the time of the state the caller sees), else take a step
Advance(ip) ==
  LET now == IF ip THEN tSt ELSE tAdv IN
  IF now = rep THEN Return("ReachedReportTime", cs, now, ip)
  ELSE IF now = sch THEN Return("ReachedScheduledEvent", cs, now, ip)
  ELSE TakeOneStep

Loop ==
  /\ mode = "loop"
  /\ CASE cs = FinalRet -> Return("Refused", FinalRet, tSt, interp)
       [] cs = RetNoEv  -> IF tAdv >= Fin THEN Return("EndOfSimulation", FinalRet, tAdv, FALSE)
                           ELSE Advance(interp)
       [] cs = CompEv   -> IF rep <= lo /\ "EventBeforeReport" \notin DEV
                           THEN (IF rep < tAdv THEN Return("ReachedReportTime", CompEv, rep, TRUE)
                                 ELSE Return("ReachedReportTime", CompEv, tAdv, FALSE))
                           ELSE Return("ReachedEventTrigger", RetEv, lo, TRUE)
       [] cs \in {RetEv, CompNoEv} ->
            IF rep <= tAdv
            THEN (IF rep < tAdv THEN Return("ReachedReportTime", cs, rep, TRUE)
                  ELSE Return("ReachedReportTime", RetNoEv, tAdv, FALSE))
            ELSE IF tAdv >= sch THEN Return("ReachedScheduledEvent", RetNoEv, tAdv, FALSE)
            ELSE IF EveryStep THEN Return("TimeHasAdvanced", RetNoEv, tAdv, FALSE)
            ELSE IF tAdv >= Fin THEN Return("ReachedReportTime", RetNoEv, tAdv, FALSE)
            ELSE IF StepLimit > 0 /\ steps >= StepLimit THEN Return("ReachedStepLimit", RetNoEv, tAdv, FALSE)
            ELSE Advance(FALSE)   \* no return required; the interpolated state is no longer in use

\* after an event trigger was returned a caller (TimeStepper) lets handlers change the state and
\* calls reinitialize(): a new continuous interval starts at the advanced time (t_high)
Reinitialize(modified, terminate) ==
  /\ mode = "idle"
  /\ ret \in {"ReachedEventTrigger", "ReachedScheduledEvent", "TimeHasAdvanced", "EndOfSimulation"}
  /\ IF modified THEN soci' = TRUE /\ tSt' = tAdv /\ interp' = FALSE
     ELSE UNCHANGED <<soci, tSt, interp>>
  /\ cs' = IF terminate THEN FinalRet ELSE cs
  /\ ret' = "Reinit"
  /\ UNCHANGED <<opt, mode, tAdv, lo, hi, rep, sch, steps, ncalls, prevSt, repW>>

Next == \/ \E r, s \in Time \cup {Inf} : Call(r, s)
        \/ Loop
        \/ \E m, t \in BOOLEAN : Reinitialize(m, t)
Spec == Init /\ [][Next]_vars
Bound == ncalls <= MaxCalls

-----------------------------------------------------------------------------
\* The contract (C19), stated on the state right after a return
Returned == mode = "idle" /\ ncalls > 0 /\ ret \notin {"Init", "None", "Reinit"}
Earliest == Min2(rep, Min2(sch, Fin))

\* each returned state lies no later than the earliest pending report / scheduled / final time
NotLater == Returned /\ ret \notin {"Refused", "StartOfContinuousInterval"} => tSt <= Earliest
\* time never decreases
Monotone == Returned => tSt >= prevSt
\* the advanced state never passes a scheduled event or the final time
AdvBounded == tAdv <= Min2(sch, Fin) \/ ncalls = 0
\* a report / scheduled / final stop returns exactly at that time
ExactStop == Returned =>
   /\ (ret = "ReachedReportTime" => (tSt = rep \/ tSt = Fin))
   /\ (ret = "ReachedScheduledEvent" => tSt = sch)
   /\ (ret = "EndOfSimulation" => tSt = Fin)
\* end of simulation is final
RefusedAfterEnd == (cs = FinalRet /\ Returned) => ret \in {"EndOfSimulation", "Refused"}
\* no report, scheduled or final time strictly inside a reported event window.  The report time
\* is the one in force when the window was localised: a LATER call may name any time not in the
\* past, including one inside a window that already exists, and the integrator cannot re-localise.
WindowClean == (Returned /\ ret = "ReachedEventTrigger") =>
   /\ lo < hi /\ tSt = lo /\ tAdv = hi
   /\ \A x \in {repW, sch, Fin} : ~(lo < x /\ x < hi)
\* the visible state is the interpolated one only when it is earlier than the advanced time
InterpMeaning == Returned => (interp => tSt < tAdv) /\ (~interp /\ ret # "Refused" => tSt = tAdv)
TypeOK == mode \in {"idle", "loop"} /\ tAdv \in Time /\ tSt \in Time
NoDev == {}
Dev_TMaxIgnoresFinal == {"TMaxIgnoresFinal"}
Dev_EventBeforeReport == {"EventBeforeReport"}
Dev_WindowIgnoresReport == {"WindowIgnoresReport"}
MCCand(t) == Time
MCWin(t) == {w \in Time \X Time : w[1] < w[2]}
AllOptions == [final : {2, 3, TMax + 5}, allowInterp : BOOLEAN, everyStep : BOOLEAN, stepLimit : {0, 1}]

Contract == NotLater /\ Monotone /\ AdvBounded /\ ExactStop /\ RefusedAfterEnd /\ WindowClean /\ InterpMeaning
=============================================================================
