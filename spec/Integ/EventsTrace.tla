----------------------------- MODULE EventsTrace -----------------------------
(***************************************************************************)
(* Trace validation for C22.  Two kinds of executions, both recorded by    *)
(* harness/record_integ with times rank-encoded per execution:             *)
(*                                                                         *)
(*  ts   -- a TimeStepper run.  The Reset line carries, per handler or      *)
(*          reporter, the set of times at which it is due (scheduled,      *)
(*          periodic, second-subsystem handlers: their schedule; triggered *)
(*          handlers: the analytically known crossing times of their       *)
(*          witness in a monitored direction, one entry per crossing).     *)
(*          Every invocation line H(id, t, k) must be the k-th due time of *)
(*          that handler, each due time is served exactly once, in time    *)
(*          order, none is missing when stepTo returns, and nothing runs   *)
(*          after a terminating handler.                                   *)
(*  integ -- a raw integrator run (no handlers invoked).  Every            *)
(*          ReachedEventTrigger return must list exactly witnesses with a  *)
(*          due crossing inside the reported window, the window must be    *)
(*          narrow (flag computed by the harness from the localisation     *)
(*          requirement), the returned state is the before-state (t = lo), *)
(*          crossings are reported in time order and none that persists is *)
(*          skipped.                                                       *)
(* A "due time" d matches a recorded time t when the trace preparation     *)
(* found t within the tolerance of d (handlers: equality up to rounding;   *)
(* triggers: d in (lo, hi]); it then records the index k of d.             *)
(***************************************************************************)
EXTENDS Integers, Sequences, FiniteSets, TLC, Json, IOUtils

Log == ndJsonDeserialize(IOEnv.TRACE)
VARIABLES l, due, served, tcur, over, lastT
vars == <<l, due, served, tcur, over, lastT>>
Ev == Log[l]

\* due: sequence (indexed by handler id + 1) of sequences of due times (ranks, ascending)
\* served: set of <<id, k>>
Ids == 1..Len(due)
Before(x) == UNION {{<<i, k>> : k \in {j \in 1..Len(due[i]) : due[i][j] < x}} : i \in Ids}

TReset == /\ Ev.e = "Reset" /\ l' = l + 1
          /\ due' = Ev.due /\ served' = {} /\ tcur' = 0 /\ over' = FALSE /\ lastT' = 0

\* a handler / reporter invocation (ts) or a witness listed in an event-trigger return (integ)
TServe == /\ Ev.e = "H" /\ l' = l + 1 /\ ~over
          /\ LET i == Ev.id + 1  k == Ev.k IN
             /\ i \in Ids /\ k >= 1 /\ k <= Len(due[i])        \* it was due ...
             /\ <<i, k>> \notin served                          \* ... and not served before
             /\ \A p \in Before(due[i][k]) : p \in served       \* time order: nothing earlier is pending
             /\ Ev.t >= lastT
             /\ Ev.ok = 1                                       \* harness-computed numeric flags (window width, bracket, q)
             /\ served' = served \cup {<<i, k>>}
             /\ lastT' = Ev.t
          /\ over' = (Ev.term = 1)
          /\ UNCHANGED <<due, tcur>>

\* control returns to the caller at time t
TRet == /\ Ev.e = "Ret" /\ l' = l + 1
        /\ Ev.t >= tcur /\ Ev.ok = 1
        /\ \A p \in Before(Ev.t) : p \in served                 \* nothing due strictly before t is missing
        /\ tcur' = Ev.t /\ over' = (over \/ Ev.over = 1)
        /\ UNCHANGED <<due, served, lastT>>

Next == l <= Len(Log) /\ (TReset \/ TServe \/ TRet)
Spec == (l = 1 /\ due = <<>> /\ served = {} /\ tcur = 0 /\ over = FALSE /\ lastT = 0) /\ [][Next]_vars

ASSUME TLCSet(42, 0)
TrackL == IF l > TLCGet(42) THEN TLCSet(42, l) ELSE TRUE
Accepted == PrintT(<<"MAXL", TLCGet(42), Len(Log)>>)
=============================================================================
