--------------------------- MODULE TimeStepperGen ---------------------------
(* Generator: handler schedules (chosen in Init) and sequences of stepTo targets. *)
EXTENDS TimeStepper, Json
VARIABLE hist
GenInit == Init /\ hist = <<>>
GenNext == Next /\ hist' = IF target = -1 /\ target' # -1 THEN Append(hist, target') ELSE hist
GenSpec == GenInit /\ [][GenNext]_<<vars, hist>>
CONSTANT Depth
Emit == TLCGet("level") = Depth => PrintT("PROG " \o ToJson([times |-> times, modifies |-> modifies, targets |-> hist]))
GenTimeSets == {{}, {1}, {3}, {1, 2}, {2, 3}, {0, 2}, {2, 4, 5}, {5}, {1, 3, 5}}
=============================================================================
