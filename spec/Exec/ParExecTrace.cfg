SPECIFICATION TraceSpec
CONSTANTS
  Configs <- NoCfg
  DEV <- NoDevT
INVARIANTS ExactlyOnce ReturnOnlyAfterAll FinishUnderMutex InitBeforeExec OneFinishPerWorker MutexOK NoRace
INVARIANT TrackL
POSTCONDITION Accepted
CHECK_DEADLOCK FALSE
