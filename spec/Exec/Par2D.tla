-------------------------------- MODULE Par2D --------------------------------
(***************************************************************************)
(* E2: function transcription of Parallel2DExecutorImpl::init /            *)
(* addTriangle / addSquare / binStart and of the Triangle- and SquareTask  *)
(* index ranges.  One TLC state per (gridSize, numProcessors); the         *)
(* invariants say that for each range type the passes execute exactly the  *)
(* requested (i,j) set, each pair once, and that within one pass no two    *)
(* tasks touch a common index (so no two invocations sharing an index can  *)
(* run concurrently; passes are separated by ParallelExecutor::execute,    *)
(* which ParExec shows to be a full barrier).                              *)
(***************************************************************************)
EXTENDS Integers, FiniteSets, Sequences, TLC, Json

CONSTANTS MaxGrid, MaxProc,
          SharedSet,  \* {FALSE}: own executor (procs = min(procs, grid/2)); TRUE: constructed on an
                      \* existing executor, where init() uses the machine's processor count as is
          SerialRule  \* how execute() chooses the serial loop: "bins" = when init() made a single bin
                      \* (the code after the fix recorded in known_findings.txt); "executor" = only
                      \* when no executor exists, i.e. never for an executor supplied by the caller
                      \* (the code before the fix: on a one-processor machine nothing is executed)
VARIABLES g, p, shared
vars == <<g, p, shared>>

Pow2(n) == IF n = 0 THEN 1 ELSE IF n = 1 THEN 2 ELSE IF n = 2 THEN 4 ELSE IF n = 3 THEN 8
           ELSE IF n = 4 THEN 16 ELSE IF n = 5 THEN 32 ELSE IF n = 6 THEN 64 ELSE 128
MinI(a, b) == IF a < b THEN a ELSE b
NP == IF shared THEN p ELSE MinI(p, g \div 2)  \* numProcessors = min(numProcessors, gridSize/2)
SmallInit == NP < 2                       \* init(): bins = 1, no squares
Serial == IF SerialRule = "executor" THEN (~shared /\ SmallInit) ELSE SmallInit
\* levels: 1; while (1<<levels < np) levels++; levels++
Lv0 == CHOOSE k \in 1..7 : Pow2(k) >= NP /\ \A j \in 1..(k - 1) : Pow2(j) < NP
Levels == Lv0 + 1
Bins == IF SmallInit THEN 1 ELSE Pow2(Levels)
BinStart(i) == IF i = Bins THEN g ELSE (2 * i * g + Bins) \div (2 * Bins)   \* floor(0.5 + i*g/bins)

RECURSIVE AddSquare(_, _, _, _), AddTriangle(_, _, _, _)
AddSquare(x, y, pass, level) ==   \* set of <<pass, x, y>>; squares[pass-1].push_back((x, y))
  IF level = 0 THEN {<<pass, x, y>>}
  ELSE AddSquare(2*x, 2*y + 1, 2*pass + 1, level - 1) \cup AddSquare(2*x + 1, 2*y + 2, 2*pass + 1, level - 1)
       \cup AddSquare(2*x, 2*y + 2, 2*pass + 2, level - 1) \cup AddSquare(2*x + 1, 2*y + 1, 2*pass + 2, level - 1)
AddTriangle(x, y, pass, level) ==
  IF level > 1
  THEN AddSquare(2*x, 2*y, 2*pass, level - 1) \cup AddTriangle(2*x, 2*y, 2*pass, level - 1)
       \cup AddTriangle(2*x + 1, 2*y + 1, 2*pass, level - 1)
  ELSE {}
Squares == IF SmallInit THEN {} ELSE AddTriangle(0, 0, 0, Levels)
NPass == IF Serial \/ SmallInit THEN 1 ELSE Bins   \* pass 0 = triangles, passes 1..bins-1 = squares

Range(a, b) == a..(b - 1)
\* pairs executed by one task, per range type ("full", "half", "halfdiag")
TriPairs(k, w, rt) ==
  LET s == BinStart(w * k)  e == BinStart(w * (k + 1)) IN
  CASE rt = "full"     -> {<<i, j>> : i \in Range(s, e), j \in Range(s, e)}
    [] rt = "half"     -> {<<i, j>> \in Range(s, e) \X Range(s, e) : j < i}
    [] rt = "halfdiag" -> {<<i, j>> \in Range(s, e) \X Range(s, e) : j <= i}
SqPairsHalf(x, y) == Range(BinStart(y + 1), BinStart(y + 2)) \X Range(BinStart(x), BinStart(x + 1))
SqPairs(x, y, rt) ==
  IF rt = "full" THEN SqPairsHalf(x, y) \cup {<<q[2], q[1]>> : q \in SqPairsHalf(x, y)}
  ELSE SqPairsHalf(x, y)
\* indices touched by a task
TriTouch(k, w) == Range(BinStart(w * k), BinStart(w * (k + 1)))
SqTouch(x, y) == Range(BinStart(y + 1), BinStart(y + 2)) \cup Range(BinStart(x), BinStart(x + 1))

Tasks(pass) ==      \* tasks of a pass as records
  IF Serial THEN {[kind |-> "tri", k |-> 0, w |-> 1]}
  ELSE IF pass = 0 THEN {[kind |-> "tri", k |-> k, w |-> 2] : k \in 0..(Bins \div 2 - 1)}
  ELSE {[kind |-> "sq", x |-> s[2], y |-> s[3]] : s \in {t \in Squares : t[1] = pass}}
Pairs(t, rt) == IF t.kind = "tri" THEN TriPairs(t.k, t.w, rt) ELSE SqPairs(t.x, t.y, rt)
Touch(t) == IF t.kind = "tri" THEN TriTouch(t.k, t.w) ELSE SqTouch(t.x, t.y)

Expected(rt) == CASE rt = "full" -> (0..(g-1)) \X (0..(g-1))
                  [] rt = "half" -> {<<i, j>> \in (0..(g-1)) \X (0..(g-1)) : j < i}
                  [] rt = "halfdiag" -> {<<i, j>> \in (0..(g-1)) \X (0..(g-1)) : j <= i}
AllTasks == {<<ps, t>> : ps \in 0..(NPass - 1), t \in UNION {Tasks(q) : q \in 0..(NPass - 1)}}
TaskList == UNION {{<<ps, t>> : t \in Tasks(ps)} : ps \in 0..(NPass - 1)}
RT == {"full", "half", "halfdiag"}

\* every requested pair is executed, nothing else
Covers == \A rt \in RT : UNION {Pairs(pt[2], rt) : pt \in TaskList} = Expected(rt)
\* ... exactly once: the tasks' pair sets are pairwise disjoint (and each task's own loop visits
\* a pair once; for "full" squares (i,j) and (j,i) are distinct because the i and j bins differ)
\* (each task's pair set and touch set is built once per state, not once per comparison)
Once == \A rt \in RT : LET TL == TaskList
                           PR == TLCEval([pt \in TL |-> Pairs(pt[2], rt)])
                       IN \A a, b \in TL : a # b => PR[a] \cap PR[b] = {}
SquareOffDiagonal == \A pt \in TaskList : pt[2].kind = "sq" =>
   Range(BinStart(pt[2].y + 1), BinStart(pt[2].y + 2)) \cap Range(BinStart(pt[2].x), BinStart(pt[2].x + 1)) = {}
\* within one pass no two tasks share an index
ConflictFree == \A ps \in 0..(NPass - 1) : LET TS == Tasks(ps)
                                                  TC == TLCEval([t \in TS |-> Touch(t)])
                                              IN \A a, b \in TS : a # b => TC[a] \cap TC[b] = {}
BinsMonotone == \A i \in 0..(Bins - 1) : BinStart(i) <= BinStart(i + 1) /\ BinStart(0) = 0
PassCount == ~Serial => Cardinality({s[1] : s \in Squares}) <= Bins - 1 /\ \A s \in Squares : s[1] \in 1..(Bins - 1)

\* what the conformance check compares with the real executor: per pass, the multiset of task
\* pair sets (for range type "half", from which the others follow by the same ranges)
Emit == PrintT("P2D " \o ToJson([g |-> g, p |-> p, shared |-> shared, serial |-> Serial, bins |-> Bins,
          counts |-> [ps \in 0..(NPass - 1) |-> Cardinality(Tasks(ps))],
          touch |-> [ps \in 0..(NPass - 1) |-> {Touch(t) : t \in Tasks(ps)}]]))

Init == g \in 0..MaxGrid /\ p \in 1..MaxProc /\ shared \in SharedSet
BothShared == {FALSE, TRUE}
OwnOnly == {FALSE}
Next == UNCHANGED vars
Spec == Init /\ [][Next]_vars
=============================================================================
