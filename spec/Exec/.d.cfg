SPECIFICATION Spec
CONSTANTS
  Configs <- CfgSmall
  DEV <- Dev_Unlocked
INVARIANTS ExactlyOnce AllAddedWhenDone FlushMeansDone QueueBounded PendingOK MutexOK NoRace
