--------------------------- MODULE WorkQueueTrace ---------------------------
(* Trace validation for ParallelWorkQueue; same scheme as ParExecTrace. *)
EXTENDS WorkQueue, Json, IOUtils, SequencesExt

TraceLog == ndJsonDeserialize(IOEnv.TRACE)
VARIABLE l
tvars == <<vars, T, QS, Ops, l>>
Ev == TraceLog[l]
Th == Ev.th

ResetTo(c) ==
  /\ T' = c.t /\ QS' = c.qs /\ Ops' = c.ops
  /\ pcP' = "idle" /\ op' = 1 /\ nextId' = 0 /\ mutex' = Free /\ queue' = <<>> /\ pending' = 0
  /\ finished' = FALSE /\ taskWait' = {} /\ fullWait' = FALSE
  /\ pcW' = [w \in 1..c.t |-> "loophead"] /\ dec' = [w \in 1..c.t |-> FALSE] /\ cur' = [w \in 1..c.t |-> -1]
  /\ executed' = [i \in {} |-> 0] /\ deleted' = [i \in {} |-> 0] /\ flushSeen' = <<>>

Keep == UNCHANGED <<T, QS, Ops>>
OwnPre == (Ev.own = 1) = (mutex = Th)
B(x) == IF x THEN 1 ELSE 0

EvStep ==
  CASE Ev.e = "Reset"      -> ResetTo([t |-> Ev.t, qs |-> Ev.qs, ops |-> Ev.ops])
    [] Ev.e = "Q.addCall"   -> Th = 0 /\ PBegin /\ pcP' = "addlock" /\ Ev.a = nextId /\ Keep
    [] Ev.e = "Q.flushCall" -> Th = 0 /\ PBegin /\ pcP' = "flushlock" /\ Keep
    [] Ev.e = "Q.dtorCall"  -> Th = 0 /\ PBegin /\ pcP' = "shutlock" /\ Keep
    [] Ev.e = "WQ.add"      -> /\ Th = 0 /\ (PAdd \/ \E w \in Worker : PAddNotify(w)) /\ OwnPre /\ Keep
                               /\ Ev.a = pending + 1 /\ Ev.b = Len(queue) + 1 /\ Ev.c = QS
    [] Ev.e = "WQ.flushed"  -> Th = 0 /\ PFlushed /\ Ev.a = 0 /\ OwnPre /\ Keep
    [] Ev.e = "WQ.shut"     -> Th = 0 /\ PShut /\ OwnPre /\ Keep
    [] Ev.e = "WQ.joined"   -> Th = 0 /\ PJoin /\ Keep
    [] Ev.e = "WQ.cond"     -> /\ WCond(Th) /\ OwnPre /\ Keep
                               /\ Ev.a = B(~finished \/ queue # <<>>) /\ Ev.b = Len(queue) /\ Ev.c = B(finished)
    [] Ev.e = "WQ.loop"     -> pcW[Th] = "lock" /\ OwnPre /\ UNCHANGED vars /\ Keep
    [] Ev.e = "WQ.completed" -> WCompleted(Th) /\ Ev.a = pending - 1 /\ OwnPre /\ Keep
    [] Ev.e = "WQ.take"     -> /\ WTake(Th) /\ OwnPre /\ Keep
                               /\ Ev.a = B(queue # <<>>) /\ Ev.b = Len(queue') /\ Ev.c = B(finished)
    [] Ev.e = "TQ.exec"     -> WExec(Th) /\ Ev.a = cur[Th] /\ Keep
    [] Ev.e = "TQ.delete"   -> WDelete(Th) /\ Ev.a = cur[Th] /\ Keep
    [] Ev.e = "WQ.exit"     -> pcW[Th] = "exited" /\ UNCHANGED vars /\ Keep
    [] OTHER -> FALSE

SilentP == PLock \/ PWaitFull \/ PWake \/ PSpurious
SilentW(w) == \/ WLock(w) \/ WSkipCompleted(w) \/ WWaitTask(w) \/ WWake(w) \/ WSpurious(w)
              \/ WLoopHead(w)
Silent ==
  /\ Ev.e # "Reset"
  /\ \/ SilentP
     \/ \E w \in Worker : (w = Th \/ mutex = w) /\ SilentW(w)
  /\ Keep

TraceNext ==
  /\ l <= Len(TraceLog)
  /\ \/ EvStep /\ l' = l + 1
     \/ Silent /\ l' = l

TraceInit == l = 1 /\ InitFor([t |-> 1, qs |-> 1, ops |-> <<>>])
TraceSpec == TraceInit /\ [][TraceNext]_tvars

ASSUME TLCSet(42, 0)
TrackL == IF l > TLCGet(42) THEN TLCSet(42, l) ELSE TRUE
Accepted == /\ PrintT(<<"MAXL", TLCGet(42), Len(TraceLog)>>)
            /\ TLCGet(42) = Len(TraceLog) + 1
NoCfg == {}
NoDevT == {}
=============================================================================
