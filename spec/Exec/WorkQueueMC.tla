----------------------------- MODULE WorkQueueMC -----------------------------
EXTENDS WorkQueue
A == "add"
F == "flush"
CfgSmall == {[t |-> 2, qs |-> 1, ops |-> <<A, A, F, A>>], [t |-> 2, qs |-> 2, ops |-> <<A, A, A, F>>],
             [t |-> 1, qs |-> 1, ops |-> <<A, F, A, A>>], [t |-> 2, qs |-> 1, ops |-> <<F, A, A, A>>]}
CfgT3 == {[t |-> 3, qs |-> 2, ops |-> <<A, A, A, F, A>>]}
NoDev == {}
Dev_Unlocked == {"UnlockedLoopHead"}
=============================================================================
