SPECIFICATION Spec
CONSTANTS
  MaxGrid = 16
  MaxProc = 16
  SharedSet <- BothShared
  SerialRule = "bins"
INVARIANTS Covers Once SquareOffDiagonal ConflictFree BinsMonotone PassCount Emit
CHECK_DEADLOCK FALSE
