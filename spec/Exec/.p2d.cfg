SPECIFICATION Spec
CONSTANTS
  MaxGrid = 24
  MaxProc = 32
  SharedSet <- BothShared
  SerialRule = "bins"
INVARIANTS Covers Once SquareOffDiagonal ConflictFree BinsMonotone PassCount Emit
CHECK_DEADLOCK FALSE
