SPECIFICATION Spec
CONSTANTS
  MaxGrid = 10
  MaxProc = 8
  SharedSet <- BothShared
  SerialRule = "bins"
INVARIANTS Covers Once SquareOffDiagonal ConflictFree BinsMonotone PassCount Emit
CHECK_DEADLOCK FALSE
