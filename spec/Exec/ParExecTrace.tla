---------------------------- MODULE ParExecTrace ----------------------------
(***************************************************************************)
(* Trace validation for ParallelExecutor: hook events recorded inside the  *)
(* real library (label, thread, lock ownership read from the mutex itself, *)
(* counters) must be a behaviour of ParExec.  Steps the hooks do not see   *)
(* (lock acquisition, entering / leaving a condition wait, the end-of-loop *)
(* test of the index loop) are silent ParExec actions; only the thread of  *)
(* the next event, the main thread, or the current mutex holder may take   *)
(* them, which keeps the search linear.                                    *)
(* The worker's loop-head read of `finished` happens without the mutex (it *)
(* is an atomic since the F7 repair; the event reports the declaration),   *)
(* so the event PE.loop only says "the worker read FALSE at some earlier   *)
(* moment": it is bound to the control flow, not to the current value.     *)
(***************************************************************************)
EXTENDS ParExec, Json, IOUtils, SequencesExt

TraceLog == ndJsonDeserialize(IOEnv.TRACE)
VARIABLE l
tvars == <<vars, T, Counts, l>>
Ev == TraceLog[l]
Th == Ev.th

ResetTo(c) ==
  /\ T' = c.t /\ Counts' = c.counts
  /\ pcM' = "idle" /\ round' = 1 /\ spawned' = FALSE /\ mutex' = Free /\ finished' = FALSE
  /\ running' = [w \in 1..c.t |-> FALSE] /\ curTask' = 0 /\ curCount' = 0 /\ waiting' = 0
  /\ pcW' = [w \in 1..c.t |-> "unborn"] /\ idx' = [w \in 1..c.t |-> 0]
  /\ cnt' = [w \in 1..c.t |-> 0] /\ tsk' = [w \in 1..c.t |-> 0]
  /\ runWait' = {} /\ mainWait' = FALSE
  /\ done' = [r \in 1..Len(c.counts) |-> [i \in 0..(c.counts[r] - 1) |-> 0]]
  /\ inited' = [r \in 1..Len(c.counts) |-> {}]
  /\ finishCalls' = [r \in 1..Len(c.counts) |-> 0]
  /\ retWaiting' = [r \in 1..Len(c.counts) |-> -1]

Keep == UNCHANGED <<T, Counts>>
OwnPre  == (Ev.own = 1) = (mutex = Th)
OwnPost == (Ev.own = 1) = (mutex' = Th)

RelaxedLoop(w) ==
  /\ pcW[w] = "loophead" /\ Wpc(w, "lock")
  /\ UNCHANGED <<pcM, round, spawned, mutex, finished, running, curTask, curCount, waiting, idx, cnt, tsk,
                 runWait, mainWait, done, inited, finishCalls, retWaiting>>
\* the destructor's hook is logged after finished has been written (both inside the critical
\* section), so a worker may already have read TRUE when main is in "shut" but PE.shut is not logged
RelaxedExit(w) ==
  /\ pcW[w] = "loophead" /\ (finished \/ pcM = "shut") /\ Wpc(w, "exited")
  /\ UNCHANGED <<pcM, round, spawned, mutex, finished, running, curTask, curCount, waiting, idx, cnt, tsk,
                 runWait, mainWait, done, inited, finishCalls, retWaiting>>
Stutter == UNCHANGED vars

EvStep ==
  CASE Ev.e = "Reset"       -> ResetTo([t |-> Ev.t, counts |-> Ev.counts])
    [] Ev.e = "PE.publish"  -> Th = 0 /\ MPublish /\ Ev.a = Counts[round] /\ Ev.b = T /\ OwnPre /\ Keep
    [] Ev.e = "PE.return"   -> Th = 0 /\ MAwait /\ waiting = T /\ Ev.a = T /\ OwnPre /\ Keep
    [] Ev.e = "PE.shut"     -> Th = 0 /\ MShut /\ OwnPre /\ Keep
    [] Ev.e = "PE.joined"   -> Th = 0 /\ MJoin /\ Keep
    [] Ev.e = "PE.inline"   -> Th = 0 /\ T < 2 /\ pcM = "idle" /\ Ev.a = Counts[round] /\ Stutter /\ Keep
    [] Ev.e = "PE.inlineDone" -> Th = 0 /\ MInline /\ Keep
    [] Ev.e = "PE.loop"     -> RelaxedLoop(Th) /\ OwnPre /\ Ev.c = 1 /\ Keep   \* c = 1: the flag is atomic
    [] Ev.e = "PE.exit"     -> RelaxedExit(Th) /\ OwnPre /\ Ev.c = 1 /\ Keep
    [] Ev.e = "PE.woken"    -> WPred(Th) /\ running[Th] /\ OwnPre /\ Keep
    [] Ev.e = "PE.init"     -> WInit(Th) /\ Ev.b = curCount /\ Ev.c = T /\ OwnPre /\ Keep
    [] Ev.e = "PE.exec"     -> WExec(Th) /\ idx[Th] < cnt[Th] /\ Ev.b = idx[Th] /\ OwnPre /\ Keep
    [] Ev.e = "PE.clr"      -> WClr(Th) /\ OwnPre /\ Keep
    [] Ev.e = "PE.finish"   -> WIncrLock(Th) /\ OwnPost /\ Ev.a = waiting /\ Keep
    [] Ev.e = "PE.incr"     -> WIncr(Th) /\ Ev.a = waiting + 1 /\ OwnPre /\ Keep
    [] OTHER -> FALSE

SilentM == MStart \/ MLock \/ (MAwait /\ waiting # T) \/ MWake \/ MSpurious \/ MShutLock
SilentW(w) == \/ WLock(w) \/ (WPred(w) /\ ~running[w]) \/ WWake(w) \/ WSpurious(w) \/ WChk(w)
              \/ (WExec(w) /\ idx[w] >= cnt[w])
Silent ==
  /\ Ev.e # "Reset"
  /\ \/ SilentM
     \/ \E w \in Worker : (w = Th \/ mutex = w) /\ SilentW(w)
  /\ Keep

TraceNext ==
  /\ l <= Len(TraceLog)
  /\ \/ EvStep /\ l' = l + 1
     \/ Silent /\ l' = l

TraceInit == l = 1 /\ InitFor([t |-> 2, counts |-> <<>>])
TraceSpec == TraceInit /\ [][TraceNext]_tvars

\* acceptance: some behaviour consumed the whole log (register 42 = furthest position reached)
ASSUME TLCSet(42, 0)
TrackL == IF l > TLCGet(42) THEN TLCSet(42, l) ELSE TRUE
Accepted == /\ PrintT(<<"MAXL", TLCGet(42), Len(TraceLog)>>)
            /\ TLCGet(42) = Len(TraceLog) + 1
NoCfg == {}
NoDevT == {}
=============================================================================
