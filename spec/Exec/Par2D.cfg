SPECIFICATION Spec
CONSTANTS
  MaxGrid = 12
  MaxProc = 8
INVARIANTS Covers Once SquareOffDiagonal ConflictFree BinsMonotone PassCount
CHECK_DEADLOCK FALSE
