SPECIFICATION TraceSpec
CONSTANTS
  Configs <- NoCfg
  DEV <- NoDevT
INVARIANTS ExactlyOnce FlushMeansDone QueueBounded PendingOK MutexOK NoRace AllAddedWhenDone
INVARIANT TrackL
POSTCONDITION Accepted
CHECK_DEADLOCK FALSE
