------------------------------ MODULE WorkQueue ------------------------------
(***************************************************************************)
(* E2: SimTK::ParallelWorkQueue (ParallelWorkQueue.cpp) with ONE producer  *)
(* (the thread that owns the queue: addTask*, flush, destructor) and T     *)
(* workers, one action per critical section / unlocked access as coded:    *)
(*   worker: while (lock; !finished || !queue.empty(); unlock) {           *)
(*             lock; if (dec) {--pending; notify_one(full); dec=false}     *)
(*             wait(task, !queue.empty() || finished);                     *)
(*             if (!queue.empty()) pop; notify_one(full); unlock;          *)
(*             if (task) { execute; delete; dec = true } }                 *)
(*           if (dec) { lock; --pending; notify_one(full) }                *)
(*   addTask: lock; wait(full, size < queueSize); push; ++pending;         *)
(*            notify_one(task); unlock                                     *)
(*   flush:   lock; wait(full, pending == 0); unlock                       *)
(*   dtor:    lock; finished = true; notify_all(task); unlock; join        *)
(***************************************************************************)
EXTENDS Integers, FiniteSets, Sequences, TLC

CONSTANTS Configs,   \* set of [t |-> workers, qs |-> queueSize, ops |-> sequence of "add" / "flush"]
          DEV
VARIABLES T, QS, Ops
Worker == 1..T
Prod == 0
Free == -1

VARIABLES pcP, op, nextId, mutex, queue, pending, finished, taskWait, fullWait,
          pcW, dec, cur,
          executed, deleted, flushSeen
vars == <<pcP, op, nextId, mutex, queue, pending, finished, taskWait, fullWait, pcW, dec, cur,
          executed, deleted, flushSeen>>
avars == <<vars, T, QS, Ops>>
NTasks == Cardinality({i \in 1..Len(Ops) : Ops[i] = "add"})

InitFor(c) ==
  /\ T = c.t /\ QS = c.qs /\ Ops = c.ops
  /\ pcP = "idle" /\ op = 1 /\ nextId = 0 /\ mutex = Free /\ queue = <<>> /\ pending = 0
  /\ finished = FALSE /\ taskWait = {} /\ fullWait = FALSE
  /\ pcW = [w \in 1..c.t |-> "loophead"] /\ dec = [w \in 1..c.t |-> FALSE] /\ cur = [w \in 1..c.t |-> -1]
  /\ executed = [i \in {} |-> 0] /\ deleted = [i \in {} |-> 0] /\ flushSeen = <<>>
Init == \E c \in Configs : InitFor(c)

\* ---------------------------------------------------------------- producer
PBegin ==   \* next call of the owning thread
  /\ pcP = "idle"
  /\ pcP' = IF op > Len(Ops) THEN "shutlock" ELSE IF Ops[op] = "add" THEN "addlock" ELSE "flushlock"
  /\ UNCHANGED <<op, nextId, mutex, queue, pending, finished, taskWait, fullWait, pcW, dec, cur,
                 executed, deleted, flushSeen>>
PLock ==
  /\ pcP \in {"addlock", "flushlock", "shutlock"} /\ mutex = Free
  /\ mutex' = Prod
  /\ pcP' = IF pcP = "addlock" THEN "addpred" ELSE IF pcP = "flushlock" THEN "flushpred" ELSE "shut"
  /\ UNCHANGED <<op, nextId, queue, pending, finished, taskWait, fullWait, pcW, dec, cur,
                 executed, deleted, flushSeen>>
PAdd ==     \* predicate true: push, ++pending, notify_one(task), unlock
  /\ pcP = "addpred" /\ Len(queue) < QS /\ taskWait = {}
  /\ queue' = Append(queue, nextId) /\ nextId' = nextId + 1 /\ pending' = pending + 1
  /\ executed' = [i \in 0..nextId |-> IF i = nextId THEN 0 ELSE executed[i]]
  /\ deleted'  = [i \in 0..nextId |-> IF i = nextId THEN 0 ELSE deleted[i]]
  /\ taskWait' = {}
  /\ mutex' = Free /\ pcP' = "idle" /\ op' = op + 1
  /\ UNCHANGED <<finished, fullWait, pcW, dec, cur, flushSeen>>
PAddNotify(w) ==   \* same, waking a specific waiter (used by trace validation; any waiter may wake)
  /\ pcP = "addpred" /\ Len(queue) < QS /\ w \in taskWait
  /\ queue' = Append(queue, nextId) /\ nextId' = nextId + 1 /\ pending' = pending + 1
  /\ executed' = [i \in 0..nextId |-> IF i = nextId THEN 0 ELSE executed[i]]
  /\ deleted'  = [i \in 0..nextId |-> IF i = nextId THEN 0 ELSE deleted[i]]
  /\ taskWait' = taskWait \ {w}
  /\ mutex' = Free /\ pcP' = "idle" /\ op' = op + 1
  /\ UNCHANGED <<finished, fullWait, pcW, dec, cur, flushSeen>>
PWaitFull ==   \* predicate false (add: queue full; flush: pending # 0): release and wait
  /\ \/ pcP = "addpred" /\ Len(queue) >= QS
     \/ pcP = "flushpred" /\ pending # 0
  /\ mutex' = Free /\ fullWait' = TRUE
  /\ pcP' = IF pcP = "addpred" THEN "addblocked" ELSE "flushblocked"
  /\ UNCHANGED <<op, nextId, queue, pending, finished, taskWait, pcW, dec, cur, executed, deleted, flushSeen>>
PWake ==
  /\ pcP \in {"addblocked", "flushblocked"} /\ ~fullWait /\ mutex = Free
  /\ mutex' = Prod /\ pcP' = IF pcP = "addblocked" THEN "addpred" ELSE "flushpred"
  /\ UNCHANGED <<op, nextId, queue, pending, finished, taskWait, fullWait, pcW, dec, cur,
                 executed, deleted, flushSeen>>
PSpurious ==
  /\ pcP \in {"addblocked", "flushblocked"} /\ fullWait
  /\ fullWait' = FALSE
  /\ UNCHANGED <<pcP, op, nextId, mutex, queue, pending, finished, taskWait, pcW, dec, cur,
                 executed, deleted, flushSeen>>
PFlushed ==
  /\ pcP = "flushpred" /\ pending = 0
  /\ mutex' = Free /\ pcP' = "idle" /\ op' = op + 1
  /\ flushSeen' = Append(flushSeen, [added |-> nextId, notdone |-> {i \in 0..(nextId - 1) : deleted[i] = 0}])
  /\ UNCHANGED <<nextId, queue, pending, finished, taskWait, fullWait, pcW, dec, cur, executed, deleted>>
PShut ==
  /\ pcP = "shut"
  /\ finished' = TRUE /\ taskWait' = {} /\ mutex' = Free /\ pcP' = "join"
  /\ UNCHANGED <<op, nextId, queue, pending, fullWait, pcW, dec, cur, executed, deleted, flushSeen>>
PJoin ==
  /\ pcP = "join" /\ \A w \in Worker : pcW[w] = "exited"
  /\ pcP' = "done"
  /\ UNCHANGED <<op, nextId, mutex, queue, pending, finished, taskWait, fullWait, pcW, dec, cur,
                 executed, deleted, flushSeen>>

\* ------------------------------------------------------------------ worker
Wpc(w, p) == pcW' = [pcW EXCEPT ![w] = p]
\* while (hasWorkOrNotFinished(owner)): the condition is evaluated with the mutex held.
\* DEV UnlockedLoopHead = the unlocked test it used to be (finding F7).
WLoopHead(w) ==
  /\ pcW[w] = "loophead"
  /\ IF "UnlockedLoopHead" \in DEV
     THEN Wpc(w, IF ~finished \/ queue # <<>> THEN "lock" ELSE IF dec[w] THEN "exitlock" ELSE "exited")
     ELSE Wpc(w, "condlock")
  /\ UNCHANGED <<pcP, op, nextId, mutex, queue, pending, finished, taskWait, fullWait, dec, cur,
                 executed, deleted, flushSeen>>
WCond(w) ==
  /\ pcW[w] = "cond" /\ mutex = w
  /\ mutex' = Free
  /\ Wpc(w, IF ~finished \/ queue # <<>> THEN "lock" ELSE IF dec[w] THEN "exitlock" ELSE "exited")
  /\ UNCHANGED <<pcP, op, nextId, queue, pending, finished, taskWait, fullWait, dec, cur,
                 executed, deleted, flushSeen>>
WLock(w) ==
  /\ pcW[w] \in {"lock", "exitlock", "relock", "condlock"} /\ mutex = Free
  /\ mutex' = w
  /\ Wpc(w, IF pcW[w] = "lock" THEN "cs" ELSE IF pcW[w] = "relock" THEN "pred"
            ELSE IF pcW[w] = "condlock" THEN "cond" ELSE "exitdec")
  /\ UNCHANGED <<pcP, op, nextId, queue, pending, finished, taskWait, fullWait, dec, cur,
                 executed, deleted, flushSeen>>
WCompleted(w) ==  \* deferred markTaskCompleted: --pending; notify_one(full)
  /\ pcW[w] \in {"cs", "exitdec"} /\ dec[w] /\ mutex = w
  /\ pending' = pending - 1 /\ fullWait' = FALSE /\ dec' = [dec EXCEPT ![w] = FALSE]
  /\ IF pcW[w] = "cs" THEN Wpc(w, "pred") /\ UNCHANGED mutex
     ELSE Wpc(w, "exited") /\ mutex' = Free
  /\ UNCHANGED <<pcP, op, nextId, queue, finished, taskWait, cur, executed, deleted, flushSeen>>
WSkipCompleted(w) ==
  /\ pcW[w] = "cs" /\ ~dec[w] /\ mutex = w
  /\ Wpc(w, "pred")
  /\ UNCHANGED <<pcP, op, nextId, mutex, queue, pending, finished, taskWait, fullWait, dec, cur,
                 executed, deleted, flushSeen>>
WWaitTask(w) ==   \* predicate false: release and wait
  /\ pcW[w] = "pred" /\ mutex = w /\ queue = <<>> /\ ~finished
  /\ mutex' = Free /\ taskWait' = taskWait \cup {w} /\ Wpc(w, "blocked")
  /\ UNCHANGED <<pcP, op, nextId, queue, pending, finished, fullWait, dec, cur, executed, deleted, flushSeen>>
WWake(w) ==
  /\ pcW[w] = "blocked" /\ w \notin taskWait
  /\ Wpc(w, "relock")
  /\ UNCHANGED <<pcP, op, nextId, mutex, queue, pending, finished, taskWait, fullWait, dec, cur,
                 executed, deleted, flushSeen>>
WSpurious(w) ==
  /\ pcW[w] = "blocked" /\ w \in taskWait
  /\ taskWait' = taskWait \ {w}
  /\ UNCHANGED <<pcP, op, nextId, mutex, queue, pending, finished, fullWait, pcW, dec, cur,
                 executed, deleted, flushSeen>>
WTake(w) ==       \* predicate true: maybe pop; notify_one(full); unlock
  /\ pcW[w] = "pred" /\ mutex = w /\ (queue # <<>> \/ finished)
  /\ IF queue # <<>>
     THEN /\ cur' = [cur EXCEPT ![w] = Head(queue)] /\ queue' = Tail(queue) /\ Wpc(w, "exec")
     ELSE /\ cur' = [cur EXCEPT ![w] = -1] /\ UNCHANGED queue /\ Wpc(w, "loophead")
  /\ fullWait' = FALSE /\ mutex' = Free
  /\ UNCHANGED <<pcP, op, nextId, pending, finished, taskWait, dec, executed, deleted, flushSeen>>
WExec(w) ==
  /\ pcW[w] = "exec"
  /\ executed' = [executed EXCEPT ![cur[w]] = @ + 1]
  /\ Wpc(w, "delete")
  /\ UNCHANGED <<pcP, op, nextId, mutex, queue, pending, finished, taskWait, fullWait, dec, cur,
                 deleted, flushSeen>>
WDelete(w) ==
  /\ pcW[w] = "delete"
  /\ deleted' = [deleted EXCEPT ![cur[w]] = @ + 1]
  /\ dec' = [dec EXCEPT ![w] = TRUE]
  /\ Wpc(w, "loophead")
  /\ UNCHANGED <<pcP, op, nextId, mutex, queue, pending, finished, taskWait, fullWait, cur,
                 executed, flushSeen>>

Terminated == pcP = "done" /\ UNCHANGED vars
Step ==
  \/ PBegin \/ PLock \/ PAdd \/ PWaitFull \/ PWake \/ PSpurious \/ PFlushed \/ PShut \/ PJoin
  \/ \E w \in Worker : \/ WLoopHead(w) \/ WCond(w) \/ WLock(w) \/ WCompleted(w) \/ WSkipCompleted(w) \/ WWaitTask(w)
                       \/ WWake(w) \/ WSpurious(w) \/ WTake(w) \/ WExec(w) \/ WDelete(w) \/ PAddNotify(w)
  \/ Terminated
Next == Step /\ UNCHANGED <<T, QS, Ops>>
Spec == Init /\ [][Next]_avars
FairSpec == /\ Spec
            /\ WF_avars(PBegin /\ UNCHANGED <<T, QS, Ops>>) /\ SF_avars(PLock /\ UNCHANGED <<T, QS, Ops>>)
            /\ WF_avars((PAdd \/ (\E w \in Worker : PAddNotify(w)) \/ PWaitFull \/ PFlushed \/ PShut \/ PJoin) /\ UNCHANGED <<T, QS, Ops>>)
            /\ SF_avars(PWake /\ UNCHANGED <<T, QS, Ops>>)
            /\ \A w \in 1..4 : /\ WF_avars((w \in Worker /\ (WLoopHead(w) \/ WCond(w) \/ WCompleted(w) \/ WSkipCompleted(w)
                                   \/ WWaitTask(w) \/ WWake(w) \/ WTake(w) \/ WExec(w) \/ WDelete(w)))
                                   /\ UNCHANGED <<T, QS, Ops>>)
                               /\ SF_avars(w \in Worker /\ WLock(w) /\ UNCHANGED <<T, QS, Ops>>)

-----------------------------------------------------------------------------
ExactlyOnce == \A i \in DOMAIN executed :
  /\ executed[i] <= 1 /\ deleted[i] <= 1 /\ deleted[i] <= executed[i]
  /\ pcP = "done" => executed[i] = 1 /\ deleted[i] = 1
AllAddedWhenDone == pcP = "done" => nextId = NTasks /\ queue = <<>> /\ pending = 0
FlushMeansDone == \A k \in 1..Len(flushSeen) : flushSeen[k].notdone = {}
QueueBounded == Len(queue) <= QS
PendingOK == pending >= Len(queue) /\ pending >= 0
MutexOK == mutex \in {Free, Prod} \cup Worker
Termination == <>(pcP = "done")

\* shared-variable accesses of the next step of each thread
AccP == CASE pcP \in {"addpred", "flushpred"} -> {<<"queue", "W">>, <<"pending", "W">>}
          [] pcP = "shut" -> {<<"finished", "W">>}
          [] OTHER -> {}
AccW(w) == CASE pcW[w] = "loophead" /\ "UnlockedLoopHead" \in DEV -> {<<"finished", "R">>, <<"queue", "R">>}
             [] pcW[w] = "cond" -> {<<"finished", "R">>, <<"queue", "R">>}
             [] pcW[w] \in {"cs", "exitdec"} -> {<<"pending", "W">>}
             [] pcW[w] = "pred" -> {<<"queue", "W">>, <<"finished", "R">>}
             [] OTHER -> {}
Conflict(A, B) == \E a \in A, b \in B : a[1] = b[1] /\ (a[2] = "W" \/ b[2] = "W")
Races == {<<p, q>> \in (Worker \cup {Prod}) \X Worker :
            p < q /\ Conflict(IF p = Prod THEN AccP ELSE AccW(p), AccW(q))}
\* tolerated: the unlocked loop-head test against locked writers (finding F7)
RaceOnLoopHeadOnly == \A pq \in Races : pcW[pq[2]] = "loophead" \/ (pq[1] # Prod /\ pcW[pq[1]] = "loophead")
NoRace == Races = {}
=============================================================================
