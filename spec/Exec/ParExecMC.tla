------------------------------ MODULE ParExecMC ------------------------------
EXTENDS ParExec
CfgT2 == {[t |-> 2, counts |-> <<2, 3>>], [t |-> 2, counts |-> <<0, 1>>], [t |-> 2, counts |-> <<4>>]}
CfgT3 == {[t |-> 3, counts |-> <<4, 1>>], [t |-> 3, counts |-> <<2, 3>>]}
CfgT4 == {[t |-> 4, counts |-> <<5>>]}
NoDev == {}
Dev_NotifyOne == {"NotifyOneAtPublish"}
Dev_NoLock == {"NoLockInIncr"}
Dev_Stride == {"StrideOne"}
Dev_PlainFinished == {"PlainFinished"}
=============================================================================
