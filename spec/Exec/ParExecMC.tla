------------------------------ MODULE ParExecMC ------------------------------
EXTENDS ParExec
C23 == <<2, 3>>
C03 == <<0, 3>>
C41 == <<4, 1>>
NoDev == {}
Dev_NotifyOne == {"NotifyOneAtPublish"}
Dev_NoLock == {"NoLockInIncr"}
Dev_Stride == {"StrideOne"}
=============================================================================
