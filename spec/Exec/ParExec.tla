------------------------------- MODULE ParExec -------------------------------
(***************************************************************************)
(* E2: SimTK::ParallelExecutor (ParallelExecutor.cpp), one action per      *)
(* critical section / unlocked access, exactly as coded:                   *)
(*   main   : execute() = [spawn] lock; publish; wait(waiting = T); unlock *)
(*            ~ParallelExecutorImpl() = lock; finished; notify_all; join   *)
(*   worker : while(!finished) { lock; wait(running[w]); unlock;           *)
(*               if(!finished){ init; exec idx, idx+T, ...;                *)
(*                  running[w]=false; lock; finish; ++waiting; notify } }  *)
(* Condition variables are wait sets; spurious wake-ups are a separate     *)
(* action (the code uses predicate waits).  Every step carries the set of  *)
(* shared variables it reads / writes; NoRace says no two simultaneously   *)
(* enabled steps of different threads conflict.                            *)
(***************************************************************************)
EXTENDS Integers, FiniteSets, Sequences, TLC

CONSTANTS Configs,  \* set of [t |-> number of worker threads (>= 2), counts |-> sequence of task
                    \*         counts, one per execute() call]
          DEV       \* deviations (faithful: {})

VARIABLES T, Counts \* the configuration in play (constant along a behaviour)
Worker == 1..T
Main == 0
NR == Len(Counts)

VARIABLES pcM, round, spawned, mutex, finished, running, curTask, curCount, waiting,
          pcW, idx, cnt, tsk, runWait, mainWait,
          done, inited, finishCalls, retWaiting
vars == <<pcM, round, spawned, mutex, finished, running, curTask, curCount, waiting,
          pcW, idx, cnt, tsk, runWait, mainWait, done, inited, finishCalls, retWaiting>>
avars == <<vars, T, Counts>>

Free == -1

InitFor(c) ==
  /\ T = c.t /\ Counts = c.counts
  /\ pcM = "idle" /\ round = 1 /\ spawned = FALSE /\ mutex = Free /\ finished = FALSE
  /\ running = [w \in Worker |-> FALSE] /\ curTask = 0 /\ curCount = 0 /\ waiting = 0
  /\ pcW = [w \in Worker |-> "unborn"] /\ idx = [w \in Worker |-> 0]
  /\ cnt = [w \in Worker |-> 0] /\ tsk = [w \in Worker |-> 0]
  /\ runWait = {} /\ mainWait = FALSE
  /\ done = [r \in 1..NR |-> [i \in 0..(Counts[r] - 1) |-> 0]]
  /\ inited = [r \in 1..NR |-> {}]
  /\ finishCalls = [r \in 1..NR |-> 0]
  /\ retWaiting = [r \in 1..NR |-> -1]
Init == \E c \in Configs : InitFor(c)

\* ------------------------------------------------------------------ main
MInline ==  \* numMaxThreads < 2: the task is run directly by the caller
  /\ pcM = "idle" /\ round <= NR /\ T < 2
  /\ done' = [done EXCEPT ![round] = [i \in DOMAIN done[round] |-> @[i] + 1]]
  /\ inited' = [inited EXCEPT ![round] = {1}]
  /\ finishCalls' = [finishCalls EXCEPT ![round] = 1]
  /\ retWaiting' = [retWaiting EXCEPT ![round] = 1]
  /\ round' = round + 1
  /\ UNCHANGED <<pcM, spawned, mutex, finished, running, curTask, curCount, waiting, pcW, idx, cnt, tsk,
                 runWait, mainWait>>
MStart ==   \* execute(task, times): spawn threads on first use
  /\ pcM = "idle" /\ round <= NR /\ T >= 2
  /\ pcM' = "lock"
  /\ IF spawned THEN UNCHANGED <<spawned, pcW>>
     ELSE spawned' = TRUE /\ pcW' = [w \in Worker |-> "loophead"]
  /\ UNCHANGED <<round, mutex, finished, running, curTask, curCount, waiting, idx, cnt, tsk,
                 runWait, mainWait, done, inited, finishCalls, retWaiting>>
MLock ==
  /\ pcM = "lock" /\ mutex = Free
  /\ mutex' = Main /\ pcM' = "publish"
  /\ UNCHANGED <<round, spawned, finished, running, curTask, curCount, waiting, pcW, idx, cnt, tsk,
                 runWait, mainWait, done, inited, finishCalls, retWaiting>>
MPublish ==
  /\ pcM = "publish"
  /\ curTask' = round /\ curCount' = Counts[round] /\ waiting' = 0
  /\ running' = [w \in Worker |-> TRUE]
  /\ runWait' = IF "NotifyOneAtPublish" \in DEV /\ runWait # {}
                THEN runWait \ {CHOOSE w \in runWait : TRUE} ELSE {}
  /\ pcM' = "await"
  /\ UNCHANGED <<round, spawned, mutex, finished, pcW, idx, cnt, tsk, mainWait, done, inited,
                 finishCalls, retWaiting>>
MAwait ==   \* predicate check of waitCondition.wait, holding the mutex
  /\ pcM = "await" /\ mutex = Main
  /\ IF waiting = T
     THEN /\ mutex' = Free /\ pcM' = "idle" /\ round' = round + 1
          /\ retWaiting' = [retWaiting EXCEPT ![round] = finishCalls[round]]
          /\ UNCHANGED mainWait
     ELSE /\ mutex' = Free /\ pcM' = "blocked" /\ mainWait' = TRUE
          /\ UNCHANGED <<round, retWaiting>>
  /\ UNCHANGED <<spawned, finished, running, curTask, curCount, waiting, pcW, idx, cnt, tsk, runWait,
                 done, inited, finishCalls>>
MWake ==    \* notified (or spurious): re-acquire, re-check
  /\ pcM = "blocked" /\ ~mainWait /\ mutex = Free
  /\ mutex' = Main /\ pcM' = "await"
  /\ UNCHANGED <<round, spawned, finished, running, curTask, curCount, waiting, pcW, idx, cnt, tsk,
                 runWait, mainWait, done, inited, finishCalls, retWaiting>>
MSpurious ==
  /\ pcM = "blocked" /\ mainWait
  /\ mainWait' = FALSE
  /\ UNCHANGED <<pcM, round, spawned, mutex, finished, running, curTask, curCount, waiting, pcW, idx, cnt,
                 tsk, runWait, done, inited, finishCalls, retWaiting>>
MShutLock ==   \* destructor
  /\ pcM = "idle" /\ round > NR /\ mutex = Free
  /\ mutex' = Main /\ pcM' = "shut"
  /\ UNCHANGED <<round, spawned, finished, running, curTask, curCount, waiting, pcW, idx, cnt, tsk,
                 runWait, mainWait, done, inited, finishCalls, retWaiting>>
MShut ==
  /\ pcM = "shut"
  /\ finished' = TRUE /\ running' = [w \in Worker |-> TRUE] /\ runWait' = {}
  /\ mutex' = Free /\ pcM' = "join"
  /\ UNCHANGED <<round, spawned, curTask, curCount, waiting, pcW, idx, cnt, tsk, mainWait, done, inited,
                 finishCalls, retWaiting>>
MJoin ==
  /\ pcM = "join" /\ \A w \in Worker : pcW[w] \in {"exited", "unborn"}
  /\ pcM' = "done"
  /\ UNCHANGED <<round, spawned, mutex, finished, running, curTask, curCount, waiting, pcW, idx, cnt, tsk,
                 runWait, mainWait, done, inited, finishCalls, retWaiting>>

\* ---------------------------------------------------------------- worker
Wpc(w, p) == pcW' = [pcW EXCEPT ![w] = p]
WLoopHead(w) ==   \* while (!executor.isFinished())   -- reads finished WITHOUT the mutex
  /\ pcW[w] = "loophead"
  /\ Wpc(w, IF finished THEN "exited" ELSE "lock")
  /\ UNCHANGED <<pcM, round, spawned, mutex, finished, running, curTask, curCount, waiting, idx, cnt, tsk,
                 runWait, mainWait, done, inited, finishCalls, retWaiting>>
WLock(w) ==
  /\ pcW[w] = "lock" /\ mutex = Free
  /\ mutex' = w /\ Wpc(w, "pred")
  /\ UNCHANGED <<pcM, round, spawned, finished, running, curTask, curCount, waiting, idx, cnt, tsk,
                 runWait, mainWait, done, inited, finishCalls, retWaiting>>
WPred(w) ==      \* predicate of runCondition.wait, holding the mutex
  /\ pcW[w] = "pred" /\ mutex = w
  /\ mutex' = Free
  /\ IF running[w] THEN Wpc(w, "chk") /\ UNCHANGED runWait
     ELSE Wpc(w, "blocked") /\ runWait' = runWait \cup {w}
  /\ UNCHANGED <<pcM, round, spawned, finished, running, curTask, curCount, waiting, idx, cnt, tsk,
                 mainWait, done, inited, finishCalls, retWaiting>>
WWake(w) ==
  /\ pcW[w] = "blocked" /\ w \notin runWait
  /\ Wpc(w, "lock")
  /\ UNCHANGED <<pcM, round, spawned, mutex, finished, running, curTask, curCount, waiting, idx, cnt, tsk,
                 runWait, mainWait, done, inited, finishCalls, retWaiting>>
WSpurious(w) ==
  /\ pcW[w] = "blocked" /\ w \in runWait
  /\ runWait' = runWait \ {w}
  /\ UNCHANGED <<pcM, round, spawned, mutex, finished, running, curTask, curCount, waiting, pcW, idx, cnt,
                 tsk, mainWait, done, inited, finishCalls, retWaiting>>
WChk(w) ==       \* if (!executor.isFinished())   -- unlocked read
  /\ pcW[w] = "chk"
  /\ Wpc(w, IF finished THEN "loophead" ELSE "init")
  /\ UNCHANGED <<pcM, round, spawned, mutex, finished, running, curTask, curCount, waiting, idx, cnt, tsk,
                 runWait, mainWait, done, inited, finishCalls, retWaiting>>
WInit(w) ==      \* count, task read without the mutex; task.initialize()
  /\ pcW[w] = "init"
  /\ cnt' = [cnt EXCEPT ![w] = curCount] /\ tsk' = [tsk EXCEPT ![w] = curTask]
  /\ inited' = [inited EXCEPT ![curTask] = @ \cup {w}]
  /\ idx' = [idx EXCEPT ![w] = w - 1]
  /\ Wpc(w, "exec")
  /\ UNCHANGED <<pcM, round, spawned, mutex, finished, running, curTask, curCount, waiting,
                 runWait, mainWait, done, finishCalls, retWaiting>>
Stride == IF "StrideOne" \in DEV THEN 1 ELSE T
WExec(w) ==
  /\ pcW[w] = "exec"
  /\ IF idx[w] < cnt[w]
     THEN /\ done' = [done EXCEPT ![tsk[w]][idx[w]] = @ + 1]
          /\ idx' = [idx EXCEPT ![w] = @ + Stride]
          /\ UNCHANGED pcW
     ELSE /\ Wpc(w, "clr") /\ UNCHANGED <<done, idx>>
  /\ UNCHANGED <<pcM, round, spawned, mutex, finished, running, curTask, curCount, waiting, cnt, tsk,
                 runWait, mainWait, inited, finishCalls, retWaiting>>
WClr(w) ==       \* info.running = false    -- unlocked write
  /\ pcW[w] = "clr"
  /\ running' = [running EXCEPT ![w] = FALSE]
  /\ Wpc(w, IF "NoLockInIncr" \in DEV THEN "incr" ELSE "incrlock")
  /\ UNCHANGED <<pcM, round, spawned, mutex, finished, curTask, curCount, waiting, idx, cnt, tsk,
                 runWait, mainWait, done, inited, finishCalls, retWaiting>>
WIncrLock(w) ==
  /\ pcW[w] = "incrlock" /\ mutex = Free
  /\ mutex' = w /\ Wpc(w, "incr")
  /\ UNCHANGED <<pcM, round, spawned, finished, running, curTask, curCount, waiting, idx, cnt, tsk,
                 runWait, mainWait, done, inited, finishCalls, retWaiting>>
WIncr(w) ==      \* finish(); ++waitingThreadCount; maybe notify_one   (holding the mutex)
  /\ pcW[w] = "incr"
  /\ finishCalls' = [finishCalls EXCEPT ![curTask] = @ + 1]
  /\ waiting' = waiting + 1
  /\ mainWait' = IF waiting + 1 = T THEN FALSE ELSE mainWait
  /\ mutex' = IF "NoLockInIncr" \in DEV THEN mutex ELSE Free
  /\ Wpc(w, "loophead")
  /\ UNCHANGED <<pcM, round, spawned, finished, running, curTask, curCount, idx, cnt, tsk,
                 runWait, done, inited, retWaiting>>

Terminated == pcM = "done" /\ UNCHANGED <<pcM, round, spawned, mutex, finished, running, curTask, curCount,
     waiting, pcW, idx, cnt, tsk, runWait, mainWait, done, inited, finishCalls, retWaiting>>

Step ==
  \/ MInline \/ MStart \/ MLock \/ MPublish \/ MAwait \/ MWake \/ MSpurious \/ MShutLock \/ MShut \/ MJoin
  \/ \E w \in Worker : WLoopHead(w) \/ WLock(w) \/ WPred(w) \/ WWake(w) \/ WSpurious(w) \/ WChk(w)
                       \/ WInit(w) \/ WExec(w) \/ WClr(w) \/ WIncrLock(w) \/ WIncr(w)
  \/ Terminated
Next == Step /\ UNCHANGED <<T, Counts>>

Fairness ==
  /\ WF_avars((MInline \/ MStart \/ MPublish \/ MAwait \/ MShut \/ MJoin) /\ UNCHANGED <<T, Counts>>)
  /\ SF_avars((MLock \/ MWake \/ MShutLock) /\ UNCHANGED <<T, Counts>>)
  /\ \A w \in 1..4 :
       /\ WF_avars(w \in Worker /\ (WLoopHead(w) \/ WPred(w) \/ WWake(w) \/ WChk(w) \/ WInit(w) \/ WExec(w)
                                     \/ WClr(w) \/ WIncr(w)) /\ UNCHANGED <<T, Counts>>)
       /\ SF_avars(w \in Worker /\ (WLock(w) \/ WIncrLock(w)) /\ UNCHANGED <<T, Counts>>)
Spec == Init /\ [][Next]_avars
FairSpec == Spec /\ Fairness

-----------------------------------------------------------------------------
\* shared-variable accesses of the NEXT step of each thread.  `finished` is a std::atomic<bool>
\* (atomic accesses never constitute a data race); DEV PlainFinished = the plain bool it used to be.
FinAcc(rw) == IF "PlainFinished" \in DEV THEN {<<"finished", rw>>} ELSE {}
AccM ==
  CASE pcM = "publish" -> {<<"curTask", "W">>, <<"curCount", "W">>, <<"waiting", "W">>} \cup
                          {<<"running", w, "W">> : w \in Worker}
    [] pcM = "await"   -> {<<"waiting", "R">>}
    [] pcM = "shut"    -> FinAcc("W") \cup {<<"running", w, "W">> : w \in Worker}
    [] OTHER -> {}
AccW(w) ==
  CASE pcW[w] = "loophead" -> FinAcc("R")
    [] pcW[w] = "pred"     -> {<<"running", w, "R">>}
    [] pcW[w] = "chk"      -> FinAcc("R")
    [] pcW[w] = "init"     -> {<<"curTask", "R">>, <<"curCount", "R">>}
    [] pcW[w] = "clr"      -> {<<"running", w, "W">>}
    [] pcW[w] = "incr"     -> {<<"waiting", "R">>, <<"waiting", "W">>, <<"curTask", "R">>}
    [] OTHER -> {}
Var(a) == SubSeq(a, 1, Len(a) - 1)
Conflict(A, B) == \E a \in A, b \in B : Var(a) = Var(b) /\ (a[Len(a)] = "W" \/ b[Len(b)] = "W")
Races == {<<p, q>> \in (Worker \cup {Main}) \X (Worker \cup {Main}) :
            p < q /\ Conflict(IF p = Main THEN AccM ELSE AccW(p), AccW(q))}
\* the only tolerated race: the unlocked reads of `finished` against the destructor's write
RaceOnFinishedOnly ==
  \A pq \in Races : pq[1] = Main /\ pcM = "shut" /\ pcW[pq[2]] \in {"loophead", "chk"}
NoRace == Races = {}

ExactlyOnce == \A r \in 1..NR : \A i \in DOMAIN done[r] :
  /\ done[r][i] <= 1
  /\ r < round => done[r][i] = 1
ReturnOnlyAfterAll == \A r \in 1..NR : retWaiting[r] # -1 => retWaiting[r] = T /\ finishCalls[r] = T
FinishUnderMutex == \A w \in Worker : pcW[w] = "incr" => mutex = w
InitBeforeExec == \A w \in Worker : pcW[w] \in {"exec", "clr", "incrlock", "incr"} => w \in inited[tsk[w]]
OneFinishPerWorker == \A r \in 1..NR : finishCalls[r] <= T
MutexOK == mutex \in {Free, Main} \cup Worker
Termination == <>(pcM = "done")
=============================================================================
