SPECIFICATION Spec
CONSTANTS
  Configs <- CfgSmall
  DEV <- NoDev
INVARIANTS ExactlyOnce AllAddedWhenDone FlushMeansDone QueueBounded PendingOK MutexOK NoRace
