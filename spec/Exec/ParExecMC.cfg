SPECIFICATION Spec
CONSTANTS
  Configs <- CfgT2
  DEV <- NoDev
INVARIANTS ExactlyOnce ReturnOnlyAfterAll FinishUnderMutex InitBeforeExec OneFinishPerWorker MutexOK NoRace
