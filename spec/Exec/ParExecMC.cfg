SPECIFICATION Spec
CONSTANTS
  T = 2
  Counts <- C23
  DEV <- NoDev
INVARIANTS ExactlyOnce ReturnOnlyAfterAll FinishUnderMutex InitBeforeExec OneFinishPerWorker MutexOK RaceOnFinishedOnly
