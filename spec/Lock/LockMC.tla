------------------------------- MODULE LockMC -------------------------------
EXTENDS Lock
\* the harness system: Pin with q(t), Slider with u(t), Pin with udot, free Pin, Slider locked by default
Mot5 == <<[level |-> "pos", a |-> 1, b |-> 2], [level |-> "vel", a |-> -1, b |-> 1], [level |-> "acc", a |-> 3, b |-> 0],
          [level |-> "none", a |-> 0, b |-> 0], [level |-> "none", a |-> 0, b |-> 0]>>
DL5 == <<"none", "none", "none", "none", "pos">>
DQ5 == <<0, 0, 0, 1, 2>>
\* a small instance for the exhaustive design check
Mot2 == <<[level |-> "pos", a |-> 1, b |-> 1], [level |-> "vel", a |-> 0, b |-> 1]>>
DL2 == <<"none", "vel">>
DQ2 == <<0, 1>>
=============================================================================
