SPECIFICATION TSpec
CONSTANTS
  NMob = 5
  MotionOf <- Mot5
  DefaultLock <- DL5
  DefaultQ <- DQ5
  Vals = {0}
  Times = {0}
INVARIANT TrackL
POSTCONDITION Accepted
CHECK_DEADLOCK FALSE
