SPECIFICATION Spec
CONSTANTS
  NMob = 2
  MotionOf <- Mot2
  DefaultLock <- DL2
  DefaultQ <- DQ2
  Vals = {0, 1}
  Times = {0, 1}
INVARIANTS TypeOK Honoured LockWins
PROPERTIES PrescribeIdempotent HandBack
CHECK_DEADLOCK FALSE
