------------------------------ MODULE LockTrace ------------------------------
(* Validation of recorded executions of the real system against Lock.tla: every line carries the action *)
(* taken and what the real State shows afterwards (q, u per mobilizer; udot after realize(Acceleration); *)
(* lock level and recorded lock value; and the verdict of the harness's force oracle).  A line is       *)
(* accepted iff the action is the spec's action and the observation equals the spec's next state.      *)
EXTENDS Lock, Json, IOUtils
Log == ndJsonDeserialize(IOEnv.TRACE)
VARIABLE l
E == Log[l]
Step == CASE E.op = "reset" -> /\ t' = 0 /\ q' = [m \in Mob |-> DefaultQ[m]] /\ u' = [m \in Mob |-> 0]
                               /\ lock' = [m \in Mob |-> DefaultLock[m]]
                               /\ lockVal' = [m \in Mob |-> IF DefaultLock[m] = "pos" THEN DefaultQ[m] ELSE 0]
                               /\ mdis' = [m \in Mob |-> FALSE] /\ act' = [op |-> "init"]
          [] E.op = "setTime" -> SetTime(E.v)
          [] E.op = "setQ" -> SetQ(E.m, E.v)
          [] E.op = "setU" -> SetU(E.m, E.v)
          [] E.op = "lock" -> LockNow(E.m, E.lv)
          [] E.op = "lockAt" -> LockAt(E.m, E.v, E.lv)
          [] E.op = "unlock" -> Unlock(E.m)
          [] E.op = "disable" -> Disable(E.m)
          [] E.op = "enable" -> Enable(E.m)
          [] E.op = "prescribe" -> Prescribe
          [] OTHER -> FALSE
Observed == /\ \A m \in Mob : q'[m] = E.q[m] /\ u'[m] = E.u[m]                 \* the State's coordinates and speeds
            /\ \A m \in Mob : lock'[m] = E.lock[m]                                \* getLockLevel
            /\ \A m \in Mob : lock'[m] # "none" => lockVal'[m] = E.lockVal[m]     \* getLockValueAsVector
            /\ \A m \in Mob : PresUDot(m)' # Free => E.ud[m] = PresUDot(m)'       \* governed accelerations after realize(Acceleration)
            /\ E.ok = 1                                                           \* force oracle (see harness)
TNext == l <= Len(Log) /\ l' = l + 1 /\ Step /\ Observed
TSpec == (Init /\ l = 1) /\ [][TNext]_<<vars, l>>
ASSUME TLCSet(42, 0)
TrackL == IF l > TLCGet(42) THEN TLCSet(42, l) ELSE TRUE
Accepted == PrintT(<<"MAXL", TLCGet(42), Len(Log)>>)
=============================================================================
