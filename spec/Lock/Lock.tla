-------------------------------- MODULE Lock --------------------------------
(***************************************************************************)
(* E9/C10: who governs a mobilizer's coordinate, speed and acceleration.   *)
(*                                                                         *)
(* From the documentation (MobilizedBody.h "Mobilizer locking and          *)
(* unlocking", Motion.h, System::prescribeQ/prescribeU):                   *)
(*  - a mobilizer may carry a Motion object prescribing q(t), u(t) or udot *)
(*    (Position / Velocity / Acceleration level), which can be disabled    *)
(*    and enabled in the State;                                            *)
(*  - lock(level) records the current q (Position) or u (Velocity) from    *)
(*    the state, or prescribes udot = 0 (Acceleration); at Position level  *)
(*    it also sets u to zero; lockAt(value, level) sets and records the    *)
(*    given value instead; a new lock overrides an old one; a lock         *)
(*    overrides the Motion while active; unlock() returns control to the   *)
(*    Motion (if enabled) or to free motion;                               *)
(*  - lockByDefault(level) records the default q / u at realize(Model);    *)
(*  - prescribe() sets the prescribed q's and u's in the state; prescribed *)
(*    udots are produced by realize(Acceleration).  Setting q or u by hand *)
(*    is always possible; the next prescribe() restores governed values.   *)
(* One coordinate per mobilizer; all values are small integers; a Motion   *)
(* is linear in the (integer) time: q = a + b t, or u = a + b t, or        *)
(* udot = a.                                                               *)
(***************************************************************************)
EXTENDS Integers, Sequences, TLC

CONSTANTS NMob,        \* mobilizers 1..NMob
          MotionOf,    \* [1..NMob -> [level : {"none","pos","vel","acc"}, a : Int, b : Int]]
          DefaultLock, \* [1..NMob -> {"none","pos","vel","acc"}]
          DefaultQ,    \* [1..NMob -> Int]   (default speeds are zero)
          Vals, Times
Mob == 1..NMob
Levels == {"pos", "vel", "acc"}

VARIABLES t, q, u, lock, lockVal, mdis, act
vars == <<t, q, u, lock, lockVal, mdis, act>>

Init == /\ t = 0 /\ q = [m \in Mob |-> DefaultQ[m]] /\ u = [m \in Mob |-> 0]
        /\ lock = [m \in Mob |-> DefaultLock[m]]
        /\ lockVal = [m \in Mob |-> IF DefaultLock[m] = "pos" THEN DefaultQ[m] ELSE 0]
        /\ mdis = [m \in Mob |-> FALSE]
        /\ act = [op |-> "init"]

\* who governs mobilizer m, and at which level
Gov(m) == IF lock[m] # "none" THEN [by |-> "lock", level |-> lock[m]]
          ELSE IF MotionOf[m].level # "none" /\ ~mdis[m] THEN [by |-> "motion", level |-> MotionOf[m].level]
          ELSE [by |-> "free", level |-> "none"]
\* the governed values at time tt (Free = not governed)
Free == -999      \* sentinel: not governed (TLC cannot compare integers with strings)
PresQ(m, tt) == LET g == Gov(m) IN
                IF g.level # "pos" THEN Free ELSE IF g.by = "lock" THEN lockVal[m] ELSE MotionOf[m].a + MotionOf[m].b * tt
PresU(m, tt) == LET g == Gov(m) IN
                IF g.level = "pos" THEN (IF g.by = "lock" THEN 0 ELSE MotionOf[m].b)
                ELSE IF g.level = "vel" THEN (IF g.by = "lock" THEN lockVal[m] ELSE MotionOf[m].a + MotionOf[m].b * tt)
                ELSE Free
PresUDot(m) == LET g == Gov(m) IN
               IF g.by = "free" THEN Free
               ELSE IF g.by = "lock" THEN (IF g.level = "acc" THEN lockVal[m] ELSE 0)
               ELSE IF g.level = "pos" THEN 0 ELSE IF g.level = "vel" THEN MotionOf[m].b ELSE MotionOf[m].a

SetTime(tt) == t' = tt /\ UNCHANGED <<q, u, lock, lockVal, mdis>> /\ act' = [op |-> "setTime", v |-> tt]
SetQ(m, v) == q' = [q EXCEPT ![m] = v] /\ UNCHANGED <<t, u, lock, lockVal, mdis>> /\ act' = [op |-> "setQ", m |-> m, v |-> v]
SetU(m, v) == u' = [u EXCEPT ![m] = v] /\ UNCHANGED <<t, q, lock, lockVal, mdis>> /\ act' = [op |-> "setU", m |-> m, v |-> v]
LockNow(m, lv) == /\ lock' = [lock EXCEPT ![m] = lv]
                  /\ lockVal' = [lockVal EXCEPT ![m] = IF lv = "pos" THEN q[m] ELSE IF lv = "vel" THEN u[m] ELSE 0]
                  /\ u' = IF lv = "pos" THEN [u EXCEPT ![m] = 0] ELSE u
                  /\ UNCHANGED <<t, q, mdis>> /\ act' = [op |-> "lock", m |-> m, lv |-> lv]
LockAt(m, v, lv) == /\ lock' = [lock EXCEPT ![m] = lv] /\ lockVal' = [lockVal EXCEPT ![m] = v]
                    /\ q' = IF lv = "pos" THEN [q EXCEPT ![m] = v] ELSE q
                    \* DEVIATION FROM THE DOCUMENTATION, as coded: the documentation says that at Velocity level "this
                    \* mobilizer's u in state is set to value"; MobilizedBodyImpl::lockAt only records the value, the
                    \* state's u takes it at the next prescribe().  C10 speaks about values after the prescribe / realize
                    \* step, where both agree, so this is modelled as the code does it (see DESIGN.md 9.3).
                    /\ u' = IF lv = "pos" THEN [u EXCEPT ![m] = 0] ELSE u
                    /\ UNCHANGED <<t, mdis>> /\ act' = [op |-> "lockAt", m |-> m, v |-> v, lv |-> lv]
Unlock(m) == lock' = [lock EXCEPT ![m] = "none"] /\ UNCHANGED <<t, q, u, lockVal, mdis>> /\ act' = [op |-> "unlock", m |-> m]
Disable(m) == MotionOf[m].level # "none" /\ mdis' = [mdis EXCEPT ![m] = TRUE] /\ UNCHANGED <<t, q, u, lock, lockVal>> /\ act' = [op |-> "disable", m |-> m]
Enable(m) == MotionOf[m].level # "none" /\ mdis' = [mdis EXCEPT ![m] = FALSE] /\ UNCHANGED <<t, q, u, lock, lockVal>> /\ act' = [op |-> "enable", m |-> m]
\* System::prescribe(): governed q's then governed u's are written into the state
Prescribe == /\ q' = [m \in Mob |-> IF PresQ(m, t) = Free THEN q[m] ELSE PresQ(m, t)]
             /\ u' = [m \in Mob |-> IF PresU(m, t) = Free THEN u[m] ELSE PresU(m, t)]
             /\ UNCHANGED <<t, lock, lockVal, mdis>> /\ act' = [op |-> "prescribe"]

Next == \/ \E tt \in Times : SetTime(tt)
        \/ \E m \in Mob, v \in Vals : SetQ(m, v) \/ SetU(m, v)
        \/ \E m \in Mob, lv \in Levels : LockNow(m, lv) \/ \E v \in Vals : LockAt(m, v, lv)
        \/ \E m \in Mob : Unlock(m) \/ Disable(m) \/ Enable(m)
        \/ Prescribe
Spec == Init /\ [][Next]_vars

\* ---- design properties checked by TLC on the model itself
TypeOK == /\ \A m \in Mob : lock[m] \in Levels \cup {"none"}
\* right after prescribe() every governed coordinate and speed has its governed value
Honoured == act.op = "prescribe" =>
              \A m \in Mob : /\ PresQ(m, t) # Free => q[m] = PresQ(m, t)
                             /\ PresU(m, t) # Free => u[m] = PresU(m, t)
\* a lock always wins over the Motion; without a lock an enabled Motion governs; otherwise nothing does
LockWins == \A m \in Mob : lock[m] # "none" => Gov(m).by = "lock"
\* prescribing twice changes nothing more (idempotent): expressed as an action property
PrescribeIdempotent == [][act.op = "prescribe" /\ act'.op = "prescribe" => (q' = q /\ u' = u)]_vars
\* unlock / disable hand control back: immediately after, the mobilizer is governed by its enabled Motion or is free
HandBack == [][\A m \in Mob : (act'.op = "unlock" /\ act'.m = m) =>
                 Gov(m)' = IF MotionOf[m].level # "none" /\ ~mdis[m] THEN [by |-> "motion", level |-> MotionOf[m].level]
                           ELSE [by |-> "free", level |-> "none"]]_vars
View == <<t, q, u, lock, lockVal, mdis, act.op>>
=============================================================================
