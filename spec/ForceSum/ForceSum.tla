------------------------------ MODULE ForceSum ------------------------------
(***************************************************************************)
(* E3b: GeneralForceSubsystem::realizeSubsystemDynamicsImpl with the       *)
(* parallel CalcForcesTask (C17).                                          *)
(*                                                                         *)
(* Elements have flags (enabled, parallel-if-possible, depends-only-on-    *)
(* positions) and an integer contribution.  One ParallelExecutor::execute  *)
(* call runs  1 + #enabled parallel elements  task indices on  min(T,      *)
(* count)  workers, worker w taking indices w, w+T, ... (ParExec.tla shows *)
(* that protocol correct; here it is abstracted to: every worker runs      *)
(* initialize, its indices in order, then finish under the executor's      *)
(* mutex, all workers concurrently, the caller continuing after all        *)
(* finished).  Index 0 evaluates ALL enabled non-parallel elements, index  *)
(* i>0 the i-th enabled parallel element.                                  *)
(*                                                                         *)
(* Three modes, as coded: All (no position-only element in the subsystem), *)
(* Cached (= CachedAndNonCached: the position-only cache is being filled)  *)
(* and NonCached (the cache is valid; only the other elements run).        *)
(* An element's calcForce does  array += contribution : a read followed by *)
(* a write when the array is shared.                                       *)
(*                                                                         *)
(* Worker0Direct = TRUE is the code as it was at the pinned commit: in the *)
(* two caching modes the worker that runs index 0 adds directly into the   *)
(* shared arrays, without the mutex under which the other workers' finish  *)
(* adds their thread-local sums into the same arrays.                      *)
(***************************************************************************)
EXTENDS Integers, Sequences, FiniteSets, TLC

CONSTANTS Configs,        \* set of [elems : Seq([en, par, pos, f]), T, mode]
          Worker0Direct   \* BOOLEAN

VARIABLES cfg, tot, cache, loc, locC, pcs, tmp, holder, mainDone
vars == <<cfg, tot, cache, loc, locC, pcs, tmp, holder, mainDone>>

N == Len(cfg.elems)
El(i) == cfg.elems[i]
EnabledIdx == {i \in 1..N : El(i).en}
ParSeq == LET S == {i \in EnabledIdx : El(i).par}
          IN [k \in 1..Cardinality(S) |-> CHOOSE i \in S : Cardinality({j \in S : j < i}) = k - 1]
NonPar == {i \in EnabledIdx : ~El(i).par}
Count == Len(ParSeq) + 1                         \* task indices 0..Count-1
NW == cfg.T       \* every thread of the executor takes part in every execute (initialize, finish)
Workers == 0..(NW - 1)
Caching == cfg.mode # "All"
Evaluated(i) == cfg.mode # "NonCached" \/ ~El(i).pos

\* micro-operations of worker w, in program order
\*   <<"add", target, value>>  target in {"loc","locC"}: thread-local, one step
\*   <<"rd", cell>> , <<"wr", cell, value>> : the two halves of  shared cell += value
Target(i, direct) == IF Caching /\ El(i).pos THEN (IF direct THEN "cache" ELSE "locC")
                     ELSE (IF direct THEN "tot" ELSE "loc")
OpsOfElem(i, direct) ==
  IF ~Evaluated(i) THEN <<>>
  ELSE IF direct THEN << <<"rd", Target(i, TRUE), 0>>, <<"wr", Target(i, TRUE), El(i).f>> >>
  ELSE << <<"add", Target(i, FALSE), El(i).f>> >>
RECURSIVE CatElems(_, _)
CatElems(S, direct) == IF S = {} THEN <<>>
                       ELSE LET m == CHOOSE x \in S : \A y \in S : x <= y
                            IN OpsOfElem(m, direct) \o CatElems(S \ {m}, direct)
Index0Ops == CatElems(NonPar, Worker0Direct /\ Caching)
IndexOps(k) == IF k = 0 THEN Index0Ops ELSE OpsOfElem(ParSeq[k], FALSE)
IndicesOf(w) == {k \in 0..(Count - 1) : k % cfg.T = w}
RECURSIVE CatIdx(_)
CatIdx(S) == IF S = {} THEN <<>>
             ELSE LET m == CHOOSE x \in S : \A y \in S : x <= y IN IndexOps(m) \o CatIdx(S \ {m})
FinishOps(w) == << <<"lock", "", 0>>, <<"rd", "tot", 0>>, <<"wrloc", "tot", 0>> >>
                \o (IF cfg.mode = "Cached" THEN << <<"rd", "cache", 0>>, <<"wrlocC", "cache", 0>> >> ELSE <<>>)
                \o << <<"unlock", "", 0>> >>
Program(w) == << <<"init", "", 0>> >> \o CatIdx(IndicesOf(w)) \o FinishOps(w)

\* the sum of position-only contributions already in the cache when the cache is valid
PosSum == LET S == {i \in EnabledIdx : El(i).pos} IN
          IF S = {} THEN 0 ELSE
          LET RECURSIVE Sum(_)  Sum(X) == IF X = {} THEN 0 ELSE LET m == CHOOSE x \in X : TRUE IN El(m).f + Sum(X \ {m})
          IN Sum(S)
AllSum == LET RECURSIVE Sum(_)  Sum(X) == IF X = {} THEN 0 ELSE LET m == CHOOSE x \in X : TRUE IN El(m).f + Sum(X \ {m})
          IN Sum(EnabledIdx)

Init == /\ cfg \in Configs
        /\ tot = 0
        /\ cache = IF cfg.mode = "NonCached" THEN PosSum ELSE 0
        /\ loc = [w \in 0..3 |-> 0] /\ locC = [w \in 0..3 |-> 0]
        /\ pcs = [w \in 0..3 |-> 1] /\ tmp = [w \in 0..3 |-> 0]
        /\ holder = -1 /\ mainDone = FALSE

Done(w) == pcs[w] > Len(Program(w))
Op(w) == Program(w)[pcs[w]]
Adv(w) == pcs' = [pcs EXCEPT ![w] = @ + 1]

StepW(w) ==
  /\ w \in Workers /\ ~Done(w) /\ ~mainDone
  /\ LET o == Op(w) IN
     CASE o[1] = "init" -> /\ loc' = [loc EXCEPT ![w] = 0] /\ locC' = [locC EXCEPT ![w] = 0] /\ Adv(w)
                           /\ UNCHANGED <<cfg, tot, cache, tmp, holder, mainDone>>
       [] o[1] = "add"  -> /\ IF o[2] = "loc" THEN loc' = [loc EXCEPT ![w] = @ + o[3]] /\ UNCHANGED locC
                              ELSE locC' = [locC EXCEPT ![w] = @ + o[3]] /\ UNCHANGED loc
                           /\ Adv(w) /\ UNCHANGED <<cfg, tot, cache, tmp, holder, mainDone>>
       [] o[1] = "rd"   -> /\ tmp' = [tmp EXCEPT ![w] = IF o[2] = "tot" THEN tot ELSE cache]
                           /\ Adv(w) /\ UNCHANGED <<cfg, tot, cache, loc, locC, holder, mainDone>>
       [] o[1] \in {"wr", "wrloc", "wrlocC"} ->
                           LET v == IF o[1] = "wr" THEN o[3] ELSE IF o[1] = "wrloc" THEN loc[w] ELSE locC[w] IN
                           /\ IF o[2] = "tot" THEN tot' = tmp[w] + v /\ UNCHANGED cache
                              ELSE cache' = tmp[w] + v /\ UNCHANGED tot
                           /\ Adv(w) /\ UNCHANGED <<cfg, loc, locC, tmp, holder, mainDone>>
       [] o[1] = "lock" -> /\ holder = -1 /\ holder' = w /\ Adv(w)
                           /\ UNCHANGED <<cfg, tot, cache, loc, locC, tmp, mainDone>>
       [] o[1] = "unlock" -> /\ holder' = -1 /\ Adv(w)
                             /\ UNCHANGED <<cfg, tot, cache, loc, locC, tmp, mainDone>>

\* execute() has returned: the caller adds the cache into the totals
MainFinish ==
  /\ ~mainDone /\ \A w \in Workers : Done(w)
  /\ tot' = IF Caching THEN tot + cache ELSE tot
  /\ mainDone' = TRUE
  /\ UNCHANGED <<cfg, cache, loc, locC, pcs, tmp, holder>>

Next == (\E w \in 0..3 : StepW(w)) \/ MainFinish
Spec == Init /\ [][Next]_vars

-----------------------------------------------------------------------------
\* the total applied force is the sum of the enabled elements' contributions, and the cache holds
\* the position-only part
TotalsRight == mainDone => (tot = AllSum /\ (Caching => cache = PosSum))

\* no two workers have simultaneously enabled accesses to the same shared cell (at most one thread
\* can be inside the mutex, so two enabled accesses mean at least one is unprotected)
Access(w) == IF w \in Workers /\ ~Done(w) /\ Op(w)[1] \in {"rd", "wr", "wrloc", "wrlocC"} THEN Op(w)[2] ELSE ""
NoRace == \A a, b \in Workers : (a # b /\ Access(a) # "") => Access(a) # Access(b)

\* every shared access happens inside the mutex, or while no other worker exists
Protected == \A w \in Workers : Access(w) # "" => (holder = w \/ NW = 1)
=============================================================================
