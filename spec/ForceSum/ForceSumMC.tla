----------------------------- MODULE ForceSumMC -----------------------------
EXTENDS ForceSum, Json
CONSTANTS MaxElems, MaxT
Flag == [en : BOOLEAN, par : BOOLEAN, pos : BOOLEAN]
Pow10(i) == IF i = 1 THEN 1 ELSE IF i = 2 THEN 10 ELSE IF i = 3 THEN 100 ELSE 1000
ElemSeqs == UNION {[1..n -> Flag] : n \in 1..MaxElems}
WithF(fs) == [i \in 1..Len(fs) |-> [en |-> fs[i].en, par |-> fs[i].par, pos |-> fs[i].pos, f |-> Pow10(i)]]
HasPar(fs) == \E i \in 1..Len(fs) : fs[i].par      \* otherwise the non-parallel task is used (one thread)
HasPos(fs) == \E i \in 1..Len(fs) : fs[i].pos
AllConfigs == {[elems |-> WithF(fs), T |-> t, mode |-> m] :
                 fs \in {x \in ElemSeqs : HasPar(x)}, t \in 1..MaxT, m \in {"All", "Cached", "NonCached"}}
MCConfigs == {c \in AllConfigs : (c.mode = "All") <=> ~(\E i \in 1..Len(c.elems) : c.elems[i].pos)}
\* the configurations and the totals the specification expects, for the conformance harness
Emit == (\A w \in 0..3 : pcs[w] = 1) /\ ~mainDone =>
           PrintT("CFG " \o ToJson([cfg |-> cfg, all |-> AllSum, pos |-> PosSum]))
=============================================================================
