---- MODULE ForceSumMC_TTrace_1790072246 ----
EXTENDS Sequences, TLCExt, Toolbox, ForceSumMC, Naturals, TLC

_expression ==
    LET ForceSumMC_TEExpression == INSTANCE ForceSumMC_TEExpression
    IN ForceSumMC_TEExpression!expression
----

_trace ==
    LET ForceSumMC_TETrace == INSTANCE ForceSumMC_TETrace
    IN ForceSumMC_TETrace!trace
----

_inv ==
    ~(
        TLCGet("level") = Len(_TETrace)
        /\
        loc = ((0 :> 0 @@ 1 :> 0 @@ 2 :> 0 @@ 3 :> 0))
        /\
        locC = ((0 :> 0 @@ 1 :> 0 @@ 2 :> 0 @@ 3 :> 0))
        /\
        pcs = ((0 :> 2 @@ 1 :> 1 @@ 2 :> 1 @@ 3 :> 1))
        /\
        cache = (0)
        /\
        mainDone = (FALSE)
        /\
        cfg = ([elems |-> <<[en |-> TRUE, par |-> FALSE, pos |-> FALSE, f |-> 1], [en |-> TRUE, par |-> TRUE, pos |-> TRUE, f |-> 10]>>, T |-> 2, mode |-> "Cached"])
        /\
        tmp = ((0 :> 0 @@ 1 :> 0 @@ 2 :> 0 @@ 3 :> 0))
        /\
        tot = (0)
        /\
        holder = (-1)
    )
----

_init ==
    /\ tmp = _TETrace[1].tmp
    /\ loc = _TETrace[1].loc
    /\ mainDone = _TETrace[1].mainDone
    /\ locC = _TETrace[1].locC
    /\ pcs = _TETrace[1].pcs
    /\ tot = _TETrace[1].tot
    /\ holder = _TETrace[1].holder
    /\ cfg = _TETrace[1].cfg
    /\ cache = _TETrace[1].cache
----

_next ==
    /\ \E i,j \in DOMAIN _TETrace:
        /\ \/ /\ j = i + 1
              /\ i = TLCGet("level")
        /\ tmp  = _TETrace[i].tmp
        /\ tmp' = _TETrace[j].tmp
        /\ loc  = _TETrace[i].loc
        /\ loc' = _TETrace[j].loc
        /\ mainDone  = _TETrace[i].mainDone
        /\ mainDone' = _TETrace[j].mainDone
        /\ locC  = _TETrace[i].locC
        /\ locC' = _TETrace[j].locC
        /\ pcs  = _TETrace[i].pcs
        /\ pcs' = _TETrace[j].pcs
        /\ tot  = _TETrace[i].tot
        /\ tot' = _TETrace[j].tot
        /\ holder  = _TETrace[i].holder
        /\ holder' = _TETrace[j].holder
        /\ cfg  = _TETrace[i].cfg
        /\ cfg' = _TETrace[j].cfg
        /\ cache  = _TETrace[i].cache
        /\ cache' = _TETrace[j].cache

\* Uncomment the ASSUME below to write the states of the error trace
\* to the given file in Json format. Note that you can pass any tuple
\* to `JsonSerialize`. For example, a sub-sequence of _TETrace.
    \* ASSUME
    \*     LET J == INSTANCE Json
    \*         IN J!JsonSerialize("ForceSumMC_TTrace_1790072246.json", _TETrace)

=============================================================================

 Note that you can extract this module `ForceSumMC_TEExpression`
  to a dedicated file to reuse `expression` (the module in the 
  dedicated `ForceSumMC_TEExpression.tla` file takes precedence 
  over the module `ForceSumMC_TEExpression` below).

---- MODULE ForceSumMC_TEExpression ----
EXTENDS Sequences, TLCExt, Toolbox, ForceSumMC, Naturals, TLC

expression == 
    [
        \* To hide variables of the `ForceSumMC` spec from the error trace,
        \* remove the variables below.  The trace will be written in the order
        \* of the fields of this record.
        tmp |-> tmp
        ,loc |-> loc
        ,mainDone |-> mainDone
        ,locC |-> locC
        ,pcs |-> pcs
        ,tot |-> tot
        ,holder |-> holder
        ,cfg |-> cfg
        ,cache |-> cache
        
        \* Put additional constant-, state-, and action-level expressions here:
        \* ,_stateNumber |-> _TEPosition
        \* ,_tmpUnchanged |-> tmp = tmp'
        
        \* Format the `tmp` variable as Json value.
        \* ,_tmpJson |->
        \*     LET J == INSTANCE Json
        \*     IN J!ToJson(tmp)
        
        \* Lastly, you may build expressions over arbitrary sets of states by
        \* leveraging the _TETrace operator.  For example, this is how to
        \* count the number of times a spec variable changed up to the current
        \* state in the trace.
        \* ,_tmpModCount |->
        \*     LET F[s \in DOMAIN _TETrace] ==
        \*         IF s = 1 THEN 0
        \*         ELSE IF _TETrace[s].tmp # _TETrace[s-1].tmp
        \*             THEN 1 + F[s-1] ELSE F[s-1]
        \*     IN F[_TEPosition - 1]
    ]

=============================================================================



Parsing and semantic processing can take forever if the trace below is long.
 In this case, it is advised to uncomment the module below to deserialize the
 trace from a generated binary file.

\*
\*---- MODULE ForceSumMC_TETrace ----
\*EXTENDS IOUtils, ForceSumMC, TLC
\*
\*trace == IODeserialize("ForceSumMC_TTrace_1790072246.bin", TRUE)
\*
\*=============================================================================
\*

---- MODULE ForceSumMC_TETrace ----
EXTENDS ForceSumMC, TLC

trace == 
    <<
    ([loc |-> (0 :> 0 @@ 1 :> 0 @@ 2 :> 0 @@ 3 :> 0),locC |-> (0 :> 0 @@ 1 :> 0 @@ 2 :> 0 @@ 3 :> 0),pcs |-> (0 :> 1 @@ 1 :> 1 @@ 2 :> 1 @@ 3 :> 1),cache |-> 0,mainDone |-> FALSE,cfg |-> [elems |-> <<[en |-> TRUE, par |-> FALSE, pos |-> FALSE, f |-> 1], [en |-> TRUE, par |-> TRUE, pos |-> TRUE, f |-> 10]>>, T |-> 2, mode |-> "Cached"],tmp |-> (0 :> 0 @@ 1 :> 0 @@ 2 :> 0 @@ 3 :> 0),tot |-> 0,holder |-> -1]),
    ([loc |-> (0 :> 0 @@ 1 :> 0 @@ 2 :> 0 @@ 3 :> 0),locC |-> (0 :> 0 @@ 1 :> 0 @@ 2 :> 0 @@ 3 :> 0),pcs |-> (0 :> 2 @@ 1 :> 1 @@ 2 :> 1 @@ 3 :> 1),cache |-> 0,mainDone |-> FALSE,cfg |-> [elems |-> <<[en |-> TRUE, par |-> FALSE, pos |-> FALSE, f |-> 1], [en |-> TRUE, par |-> TRUE, pos |-> TRUE, f |-> 10]>>, T |-> 2, mode |-> "Cached"],tmp |-> (0 :> 0 @@ 1 :> 0 @@ 2 :> 0 @@ 3 :> 0),tot |-> 0,holder |-> -1])
    >>
----


=============================================================================

---- CONFIG ForceSumMC_TTrace_1790072246 ----
CONSTANTS
    Configs <- MCConfigs
    Worker0Direct = TRUE
    MaxElems = 3
    MaxT = 3

INVARIANT
    _inv

CHECK_DEADLOCK
    \* CHECK_DEADLOCK off because of PROPERTY or INVARIANT above.
    FALSE

INIT
    _init

NEXT
    _next

CONSTANT
    _TETrace <- _trace

ALIAS
    _expression
=============================================================================
\* Generated on Tue Sep 22 10:17:49 UTC 2026