SPECIFICATION Spec
CONSTANTS
  Configs <- MCConfigs
  Worker0Direct = FALSE
  MaxElems = 3
  MaxT = 3
INVARIANTS TotalsRight NoRace Protected
CHECK_DEADLOCK FALSE
