SPECIFICATION Spec
CONSTANTS
  DEV <- NoDev
  Profiles <- AllProfiles
  MaxVal = 1
VIEW View
INVARIANTS TypeOK Coherence LatentPosF PrereqsValid
CHECK_DEADLOCK FALSE
