SPECIFICATION TSpec
CONSTANTS
  DEV <- NoDev
  Profiles <- AllProfiles
  MaxVal = 2
CHECK_DEADLOCK FALSE
