---------------------------- MODULE RealizeTrace ----------------------------
(* Deterministic interpreter of action lists over the faithful Realize spec: for every line of  *)
(* the program (ndjson, env TRACE) the action is taken if enabled and the projection the spec    *)
(* predicts is printed (EXP lines).  Used to attach expectations to distinguishing histories,   *)
(* regression programs and replay files before they are executed on the real MultibodySystem.   *)
EXTENDS RealizeMC, Json, IOUtils
Log == ndJsonDeserialize(IOEnv.TRACE)
VARIABLE l
A == Log[l]
TReset == /\ cfg' = Vars /\ val' = [x \in Vars |-> 0] /\ stage' = Topology
          /\ marked' = [e \in Lazy |-> FALSE] /\ snap' = [e \in Lazy |-> Nil(FI(e))]
          /\ rPos' = [pk |-> Nil(FI("pk")), dir |-> Nil(Dir("pos"))]
          /\ rVel' = [vk |-> Nil(FI("vk")), dir |-> Nil(Dir("vel"))]
          /\ rDyn' = [pos |-> Nil(DPosF), grav |-> Nil(FI("grav")), dir |-> Nil(DDyn)]
          /\ rAcc' = [abi |-> Nil(FI("abi")), abv |-> Nil(FI("abv")), dir |-> Nil(Dir("acc"))]
          /\ posValid' = FALSE /\ posF' = Nil(DPosF) /\ act' = [a |-> "Reset"]
TStep == CASE A.a = "Reset" -> TReset
           [] A.a = "Realize" -> Realize(A.g)
           [] A.a = "Set" -> Set(A.x, A.v)
           [] A.a = "RealizeLazy" -> RealizeLazy(A.e)
           [] A.a = "InvalidateLazy" -> InvalidateLazy(A.e)
           [] A.a = "Copy" -> Copy
           [] A.a = "InvalidateAll" -> InvalidateAll(A.g)
           [] OTHER -> FALSE
\* enabling conditions of the spec's actions, as state predicates
CanDo == CASE A.a = "Reset" -> TRUE
           [] A.a = "Realize" -> A.g \in (stage + 1)..Acceleration
           [] A.a = "Set" -> A.x \in Vars /\ A.v \in ValOf(A.x) /\ (A.x # "quat" => stage >= Model)
           [] A.a = "RealizeLazy" -> /\ A.e \in Lazy /\ stage >= LTab[A.e].dep
                                     /\ \A p \in LTab[A.e].preE \cup LTab[A.e].reads : Valid(p)
           [] A.a = "InvalidateLazy" -> A.e \in Lazy /\ stage >= Instance
           [] A.a = "Copy" -> TRUE
           [] A.a = "InvalidateAll" -> A.g \in Instance..Acceleration
           [] OTHER -> FALSE
\* a line whose action is not enabled is skipped (reported as such); the program ends there
TNext == /\ l <= Len(Log) /\ l' = l + 1
         /\ IF CanDo
            THEN /\ TStep
                 /\ PrintT("EXP " \o ToJson([i |-> l, ok |-> TRUE, exp |-> Proj',
                                              coherent |-> (Coherence /\ LatentPosF)']))
            ELSE /\ UNCHANGED vars
                 /\ PrintT("EXP " \o ToJson([i |-> l, ok |-> FALSE]))
TInit == InitWith(Vars) /\ l = 1
TSpec == TInit /\ [][TNext]_<<vars, l>>
=============================================================================
