----------------------------- MODULE RealizeGen -----------------------------
(* Generator: biased random walks of Realize; every behaviour is printed as a PROG line with the *)
(* projection the spec predicts after every action.                                              *)
EXTENDS RealizeMC, Json
VARIABLE hist
GenInit == Init /\ hist = <<>>
GenNext == Next /\ hist' = Append(hist, [act |-> act', exp |-> Proj'])
GenSpec == GenInit /\ [][GenNext]_<<vars, hist>>
Weight(a) == CASE a.a = "Realize" -> 60
               [] a.a = "Set" -> 70
               [] a.a = "RealizeLazy" -> 60
               [] a.a = "InvalidateLazy" -> 12
               [] a.a = "Copy" -> 8
               [] a.a = "InvalidateAll" -> 10
               [] OTHER -> 100
Bias == RandomElement(1..100) <= Weight(act')
CONSTANT Depth
Emit == TLCGet("level") = Depth => PrintT("PROG " \o ToJson([cfg |-> cfg, prog |-> hist]))
GP1 == {"q", "k", "disP", "cp", "u", "t"}
GP2 == {"q", "g", "disG", "u", "lock"}
GP3 == {"t", "u", "z", "c", "disV", "bk", "q"}
GP4 == {"quat", "q", "u", "lock", "con", "mot"}
GP5 == {"cpos", "cspd", "cacc", "q", "u", "con"}
GP6 == {"k", "g", "c", "q", "disP", "disG", "quat"}
GPall == Vars
GenProfiles == {GP1, GP2, GP3, GP4, GP5, GP6, GPall}
=============================================================================
