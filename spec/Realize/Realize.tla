------------------------------- MODULE Realize -------------------------------
(***************************************************************************)
(* E3: "results of realization depend only on current values" (C16) and    *)
(* the change-takes-effect clause of C38.                                  *)
(*                                                                         *)
(* A MultibodySystem's State as the realization code sees it:              *)
(*   - variables (time, q, u, z, the Euler/quaternion option, enable       *)
(*     flags, locks, and one representative of every kind of parameter a   *)
(*     built-in element keeps in a discrete state variable), each with the *)
(*     stage its modification invalidates AS CODED (table VarTab);         *)
(*   - the system stage;                                                   *)
(*   - the results computed by realize(g), each a SNAPSHOT of the values   *)
(*     of the variables it is a function of, taken when it was computed;   *)
(*   - the lazily evaluated cache entries of SimbodyMatterSubsystem        *)
(*     (position kinematics, velocity kinematics, composite- and           *)
(*     articulated-body inertias, articulated-body velocity) and           *)
(*     Force::Gravity's force cache, with the validity rule of the State   *)
(*     (depends-on stage, computed-by stage, prerequisites; see E1) and    *)
(*     the points where realize() consumes them;                           *)
(*   - GeneralForceSubsystem's position-only force cache (flag             *)
(*     cachedForcesAreValid, reset in realize(Position) and in             *)
(*     setForceIsDisabled, filled in realize(Dynamics)).                   *)
(* Coherence: every result a caller can read in the current state is the   *)
(* snapshot of the CURRENT values.                                         *)
(***************************************************************************)
EXTENDS Naturals, FiniteSets, Sequences, TLC

CONSTANTS DEV,        \* set of deviation names (rules switched off / altered)
          Profiles,   \* set of sets of variables that a run may modify
          MaxVal      \* values are 0..MaxVal

Topology == 1  Model == 2  Instance == 3  Time == 4  Position == 5
Velocity == 6  Dynamics == 7  Acceleration == 8  Never == 9
SMin(a, b) == IF a < b THEN a ELSE b

(* Variables.  dir = the result that reads it directly:                    *)
(*   pos / vel / dyn / acc : computed by realize of that stage             *)
(*   posF : position-only element, goes through the position-only cache    *)
(*   a lazy entry name: read when that entry is computed                   *)
VarTab == [
  t    |-> [inv |-> Time,     dir |-> "dyn"],   \* time (time-dependent forces)
  q    |-> [inv |-> Position, dir |-> "pk"],
  u    |-> [inv |-> Velocity, dir |-> "vk"],
  z    |-> [inv |-> Dynamics, dir |-> "dyn"],
  quat |-> [inv |-> Model,    dir |-> "pk"],    \* setUseEulerAngles
  disP |-> [inv |-> Instance, dir |-> "posF"],  \* disable flag of a position-only element
  disV |-> [inv |-> Instance, dir |-> "dyn"],   \* disable flag of a velocity-dependent element
  disG |-> [inv |-> Instance, dir |-> "dyn"],   \* disable flag of Gravity
  lock |-> [inv |-> Instance, dir |-> "abi"],   \* MobilizedBody::lock / unlock
  con  |-> [inv |-> Instance, dir |-> "pk"],    \* Constraint enable flag
  mot  |-> [inv |-> Instance, dir |-> "abi"],   \* Motion enable flag
  bk   |-> [inv |-> Instance, dir |-> "dyn"],   \* LinearBushing stiffness/damping
  k    |-> [inv |-> Dynamics,
            dir |-> IF "K_PosCached" \in DEV THEN "posF" ELSE "dyn"],
                                                \* MobilityLinearSpring stiffness, q0 (the element must
                                                \* not be treated as position-only: deviation K_PosCached)
  cp   |-> [inv |-> Position, dir |-> "posF"],  \* parameter of a well-behaved custom position-only element
  c    |-> [inv |-> Dynamics, dir |-> "dyn"],   \* MobilityLinearDamper, MobilityConstantForce,
                                                \* DiscreteForces, MobilityLinearStop ... parameters
  g    |-> [inv |-> Dynamics, dir |-> "grav"],  \* Gravity magnitude/direction/zero height/exclusion
  cpos |-> [inv |-> Position, dir |-> "pos"],   \* Constraint::ConstantCoordinate::setPosition
  cspd |-> [inv |-> Velocity, dir |-> "vel"],   \* Constraint::ConstantSpeed::setSpeed
  cacc |-> [inv |-> Acceleration, dir |-> "acc"]\* Constraint::ConstantAcceleration::setAcceleration
]
Vars == DOMAIN VarTab
Flags == {"quat", "disP", "disV", "disG", "lock", "con", "mot"}
\* flags are off / on; the lock has a third value (the acceleration prescribed to a non-zero value, lockAt) -- results depend on which
ValOf(x) == IF x = "lock" THEN 0..2 ELSE IF x \in Flags THEN 0..1 ELSE 0..MaxVal
Bump(x) == IF ("Inv_" \o x) \in DEV THEN 1 ELSE 0      \* deviation: invalidates one stage too high
Inv(x)  == VarTab[x].inv + Bump(x)
Dir(c)  == {x \in Vars : VarTab[x].dir = c}
\* values reset to their defaults when the Model stage is re-realized (q,u,z are re-allocated)
ModelVars == {"q", "u", "z"}
\* setters that do nothing at all when the new value equals the old one
NoOpIfSame == {"g"}

(* Lazy cache entries: depends-on stage, computed-by stage (valid from    *)
(* there on regardless of marks), prerequisite variables, prerequisite     *)
(* entries, entries whose value is read when this one is computed.         *)
LTab == [
  pk   |-> [dep |-> Instance, comp |-> Position,     preV |-> {"q"}, preE |-> {},            reads |-> {}],
  vk   |-> [dep |-> Instance, comp |-> Velocity,     preV |-> {"u"}, preE |-> {"pk"},        reads |-> {"pk"}],
  cbi  |-> [dep |-> Instance, comp |-> Never,        preV |-> {},    preE |-> {"pk"},        reads |-> {"pk"}],
  abi  |-> [dep |-> Instance, comp |-> Acceleration, preV |-> {},    preE |-> {"pk"},        reads |-> {"pk"}],
  abv  |-> [dep |-> Instance, comp |-> Acceleration, preV |-> {},    preE |-> {"vk", "abi"}, reads |-> {"vk", "abi"}],
  grav |-> [dep |-> Position, comp |-> Never,        preV |-> {},    preE |-> {},            reads |-> {"pk"}]
]
Lazy == DOMAIN LTab
\* the variables an entry's value is a function of
FI(e) == CASE e = "pk"   -> Dir("pk")
           [] e = "vk"   -> Dir("pk") \cup Dir("vk")
           [] e = "cbi"  -> Dir("pk")
           [] e = "abi"  -> Dir("pk") \cup Dir("abi")
           [] e = "abv"  -> Dir("pk") \cup Dir("vk") \cup Dir("abi")
           [] e = "grav" -> Dir("pk") \cup Dir("grav")
DPosF == Dir("posF") \cup FI("pk")
DDyn  == Dir("dyn") \cup FI("vk")
Nil(S) == [x \in S |-> 0]

VARIABLES cfg,      \* the profile: which variables this run modifies
          val,      \* current value of every variable
          stage,    \* system stage
          marked,   \* [Lazy -> BOOLEAN]: marked valid since the last change to dep stage / prerequisites
          snap,     \* [Lazy -> snapshot]
          rPos, rVel, rDyn, rAcc,     \* results of the staged computations (snapshots)
          posValid, posF,             \* position-only force cache (flag + snapshot)
          act
vars == <<cfg, val, stage, marked, snap, rPos, rVel, rDyn, rAcc, posValid, posF, act>>

\* all mechanism variables as one record, so that realize() can be written as a function
Mech == [stage |-> stage, marked |-> marked, snap |-> snap, rPos |-> rPos, rVel |-> rVel,
         rDyn |-> rDyn, rAcc |-> rAcc, posValid |-> posValid, posF |-> posF]
SetMech(s) == /\ stage' = s.stage /\ marked' = s.marked /\ snap' = s.snap /\ rPos' = s.rPos
              /\ rVel' = s.rVel /\ rDyn' = s.rDyn /\ rAcc' = s.rAcc
              /\ posValid' = s.posValid /\ posF' = s.posF

ValidIn(s, e) == \/ s.stage >= LTab[e].comp
                 \/ (s.stage >= LTab[e].dep /\ s.marked[e])
Valid(e) == ValidIn(Mech, e)

\* transitive dependents of an entry (through prerequisite lists)
Dependents(e) == CASE e = "pk"  -> {"vk", "cbi", "abi", "abv"}
                   [] e = "vk"  -> {"abv"}
                   [] e = "abi" -> {"abv"}
                   [] OTHER     -> {}
Unmark(s, E) ==
  LET all == IF "NoCascade" \in DEV THEN E ELSE E \cup UNION {Dependents(e) : e \in E}
  IN [s EXCEPT !.marked = [e \in Lazy |-> s.marked[e] /\ e \notin all]]

\* compute entry e from the current values v and the CACHED values of the entries it reads
ComputeIn(s, v, e) ==
  LET own  == {x \in Vars : VarTab[x].dir = e}
      sn   == [x \in FI(e) |-> IF x \in own THEN v[x]
                               ELSE LET r == CHOOSE r \in LTab[e].reads : x \in FI(r) IN s.snap[r][x]]
      s1   == Unmark(s, Dependents(e))
  IN [s1 EXCEPT !.snap[e] = sn, !.marked[e] = TRUE]
EnsureIn(s, v, e) == IF ValidIn(s, e) THEN s ELSE ComputeIn(s, v, e)

\* lowering the stage to ns un-marks every entry whose depends-on stage was invalidated
LowerIn(s, ns) ==
  IF ns >= s.stage THEN s
  ELSE [Unmark(s, {e \in Lazy : LTab[e].dep > ns}) EXCEPT !.stage = ns]

\* ---------------------------------------------------------------------------
\* one stage of realization, as coded (the stage is advanced at the end of the step)
Step(h, v, s) ==
  CASE h \in {Model, Instance, Time} -> [s EXCEPT !.stage = h]
    [] h = Position ->
         LET s1 == EnsureIn(s, v, "pk")
         IN [s1 EXCEPT !.stage = Position,
                       !.rPos = [pk |-> s1.snap["pk"], dir |-> [x \in Dir("pos") |-> v[x]]],
                       !.posValid = IF "Pos_NoReset" \in DEV THEN s.posValid ELSE FALSE]
    [] h = Velocity ->
         LET s1 == EnsureIn(s, v, "vk")
         IN [s1 EXCEPT !.stage = Velocity,
                       !.rVel = [vk |-> s1.snap["vk"], dir |-> [x \in Dir("vel") |-> v[x]]]]
    [] h = Dynamics ->
         LET pf == IF s.posValid THEN s.posF
                   ELSE [x \in DPosF |-> IF x \in FI("pk") THEN s.snap["pk"][x] ELSE v[x]]
             s1 == IF v["disG"] = 1 THEN s ELSE EnsureIn(s, v, "grav")
         IN [s1 EXCEPT !.stage = Dynamics, !.posF = pf, !.posValid = TRUE,
                       !.rDyn = [pos |-> pf, grav |-> s1.snap["grav"],
                                 dir |-> [x \in DDyn |-> IF x \in FI("vk") THEN s.snap["vk"][x] ELSE v[x]]]]
    [] h = Acceleration ->
         LET s1 == EnsureIn(EnsureIn(s, v, "abi"), v, "abv")
         IN [s1 EXCEPT !.stage = Acceleration,
                       !.rAcc = [abi |-> s1.snap["abi"], abv |-> s1.snap["abv"],
                                 dir |-> [x \in Dir("acc") |-> v[x]]]]

RECURSIVE RealizeTo(_, _, _)
RealizeTo(s, v, g) == IF s.stage >= g THEN s ELSE RealizeTo(Step(s.stage + 1, v, s), v, g)

Realize(g) ==
  /\ g \in (stage + 1)..Acceleration
  /\ LET v == IF stage < Model THEN [x \in Vars |-> IF x \in ModelVars THEN 0 ELSE val[x]] ELSE val
     IN /\ val' = v
        /\ SetMech(RealizeTo(Mech, v, g))
  /\ act' = [a |-> "Realize", g |-> g]
  /\ UNCHANGED cfg

Set(x, w) ==
  /\ x \in cfg /\ w \in ValOf(x)
  /\ x # "quat" => stage >= Model      \* the setters document a Model-stage (or later) State
  /\ act' = [a |-> "Set", x |-> x, v |-> w]
  /\ UNCHANGED cfg
  /\ IF x \in NoOpIfSame /\ val[x] = w
     THEN UNCHANGED <<val, stage, marked, snap, rPos, rVel, rDyn, rAcc, posValid, posF>>
     ELSE /\ val' = [val EXCEPT ![x] = w]
          /\ LET s1 == LowerIn(Mech, Inv(x) - 1)
                 \* prerequisite variables un-mark their dependents
                 pre == {e \in Lazy : x \in LTab[e].preV /\ ~(("NoPre_" \o x) \in DEV)}
                 s2 == Unmark(s1, pre)
                 \* explicit invalidations in the setters
                 s3 == IF x = "g" /\ "G_NoExplicit" \notin DEV THEN Unmark(s2, {"grav"}) ELSE s2
                 s4 == IF x \in {"disP", "disV", "disG"} /\ val[x] # w /\ "En_NoExplicit" \notin DEV
                       THEN [s3 EXCEPT !.posValid = FALSE] ELSE s3
             IN SetMech(s4)

\* explicit early realization of a lazy entry through the public API
\* (realizePositionKinematics, ..., Gravity::getBodyForces / getPotentialEnergy)
RealizeLazy(e) ==
  /\ stage >= LTab[e].dep
  /\ \A p \in LTab[e].preE \cup LTab[e].reads : Valid(p)
  /\ SetMech(EnsureIn(Mech, val, e))
  /\ act' = [a |-> "RealizeLazy", e |-> e]
  /\ UNCHANGED <<cfg, val>>

\* explicit invalidation through the public API (invalidatePositionKinematics, ...,
\* Gravity::invalidateForceCache): the stage at which the entry is guaranteed goes too
InvalidateLazy(e) ==
  /\ stage >= Instance
  /\ SetMech(Unmark(LowerIn(Mech, LTab[e].comp - 1), {e}))
  /\ act' = [a |-> "InvalidateLazy", e |-> e]
  /\ UNCHANGED <<cfg, val>>

\* the State is replaced by a copy of itself: stage min(stage, Instance); lazy entries are invalid
Copy ==
  /\ LET s1 == LowerIn(Mech, Instance)
     IN SetMech([s1 EXCEPT !.marked = [e \in Lazy |-> FALSE]])
  /\ act' = [a |-> "Copy"]
  /\ UNCHANGED <<cfg, val>>

\* State::invalidateAllCacheAtOrAbove(g) from outside (what an integrator or a handler may do)
InvalidateAll(g) ==
  /\ g \in Instance..Acceleration
  /\ SetMech(LowerIn(Mech, g - 1))
  /\ act' = [a |-> "InvalidateAll", g |-> g]
  /\ UNCHANGED <<cfg, val>>

Next == \/ \E g \in Model..Acceleration : Realize(g)
        \/ \E x \in Vars, w \in 0..MaxVal : Set(x, w)
        \/ \E e \in Lazy : RealizeLazy(e) \/ InvalidateLazy(e)
        \/ Copy
        \/ \E g \in Instance..Acceleration : InvalidateAll(g)

InitWith(c) ==
        /\ cfg = c
        /\ val = [x \in Vars |-> 0]
        /\ stage = Topology
        /\ marked = [e \in Lazy |-> FALSE]
        /\ snap = [e \in Lazy |-> Nil(FI(e))]
        /\ rPos = [pk |-> Nil(FI("pk")), dir |-> Nil(Dir("pos"))]
        /\ rVel = [vk |-> Nil(FI("vk")), dir |-> Nil(Dir("vel"))]
        /\ rDyn = [pos |-> Nil(DPosF), grav |-> Nil(FI("grav")), dir |-> Nil(DDyn)]
        /\ rAcc = [abi |-> Nil(FI("abi")), abv |-> Nil(FI("abv")), dir |-> Nil(Dir("acc"))]
        /\ posValid = FALSE /\ posF = Nil(DPosF)
        /\ act = [a |-> "Init"]
Init == \E c \in Profiles : InitWith(c)
Spec == Init /\ [][Next]_vars

-----------------------------------------------------------------------------
Cur(S) == [x \in S |-> val[x]]
\* the parameters of a disabled element do not influence any result
Norm(f) == [x \in DOMAIN f |-> IF x = "k" /\ "disP" \in DOMAIN f /\ f["disP"] = 1 THEN 0 ELSE f[x]]
Same(f, S) == Norm(f) = Norm(Cur(S))

\* every lazy entry that reads as valid holds the value for the current variables
CoherentLazy == \A e \in Lazy : Valid(e) => snap[e] = Cur(FI(e))
CoherentPos  == stage >= Position => (rPos.pk = Cur(FI("pk")) /\ rPos.dir = Cur(Dir("pos")))
CoherentVel  == stage >= Velocity => (rVel.vk = Cur(FI("vk")) /\ rVel.dir = Cur(Dir("vel")))
CoherentDyn  == stage >= Dynamics =>
                  /\ Same(rDyn.pos, DPosF)
                  /\ (val["disG"] = 0 => rDyn.grav = Cur(FI("grav")))
                  /\ rDyn.dir = Cur(DDyn)
CoherentAcc  == stage >= Acceleration =>
                  /\ rAcc.abi = Cur(FI("abi")) /\ rAcc.abv = Cur(FI("abv"))
                  /\ rAcc.dir = Cur(Dir("acc"))
Coherence == CoherentLazy /\ CoherentPos /\ CoherentVel /\ CoherentDyn /\ CoherentAcc

\* latent form: a cache that is believed valid holds current values even before it is consumed
LatentPosF == (stage >= Position /\ posValid) => Same(posF, DPosF)

\* prerequisites of a valid entry are valid
PrereqsValid == \A e \in Lazy : Valid(e) => \A p \in LTab[e].preE : Valid(p)

TypeOK == /\ stage \in Topology..Acceleration /\ cfg \subseteq Vars
          /\ \A x \in Vars : val[x] \in ValOf(x)
          /\ posValid \in BOOLEAN /\ marked \in [Lazy -> BOOLEAN]

\* state-space reduction: results above the current stage and the contents of invalid caches are
\* never read again before being overwritten; the action label is history
Live(e) == Valid(e) \/ (stage >= LTab[e].dep /\ marked[e])
View == <<cfg, val, stage,
          [e \in Lazy |-> Valid(e)], [e \in Lazy |-> stage >= LTab[e].dep /\ marked[e]],
          [e \in Lazy |-> IF Live(e) THEN snap[e] ELSE Nil(FI(e))],
          IF stage >= Position THEN rPos ELSE 0,
          IF stage >= Velocity THEN rVel ELSE 0,
          IF stage >= Dynamics THEN rDyn ELSE 0,
          IF stage >= Acceleration THEN rAcc ELSE 0,
          posValid, IF posValid THEN posF ELSE Nil(DPosF)>>

\* what the conformance harness compares after every action
Proj == [stage |-> stage, valid |-> [e \in Lazy |-> Valid(e)], val |-> val]
=============================================================================
