---- MODULE RealizeMC_TTrace_1790066164 ----
EXTENDS Sequences, TLCExt, RealizeMC, Toolbox, Naturals, TLC

_expression ==
    LET RealizeMC_TEExpression == INSTANCE RealizeMC_TEExpression
    IN RealizeMC_TEExpression!expression
----

_trace ==
    LET RealizeMC_TETrace == INSTANCE RealizeMC_TETrace
    IN RealizeMC_TETrace!trace
----

_inv ==
    ~(
        TLCGet("level") = Len(_TETrace)
        /\
        val = ([t |-> 0, q |-> 0, u |-> 0, z |-> 0, quat |-> 0, enP |-> 1, enV |-> 0, enG |-> 0, lock |-> 0, con |-> 0, mot |-> 0, bk |-> 0, k |-> 1, cp |-> 0, c |-> 0, g |-> 0, cpos |-> 0, cspd |-> 0, cacc |-> 0])
        /\
        act = ([a |-> "Set", x |-> "k", v |-> 1])
        /\
        rDyn = ([pos |-> [q |-> 0, quat |-> 0, enP |-> 1, k |-> 0, cp |-> 0], grav |-> [q |-> 0, quat |-> 0, g |-> 0], dir |-> [t |-> 0, q |-> 0, u |-> 0, z |-> 0, quat |-> 0, enV |-> 0, enG |-> 0, bk |-> 0, c |-> 0]])
        /\
        stage = (6)
        /\
        cfg = ({"q", "enP", "k", "c", "g"})
        /\
        posValid = (TRUE)
        /\
        gravF = ([q |-> 0, quat |-> 0, g |-> 0])
        /\
        posF = ([q |-> 0, quat |-> 0, enP |-> 1, k |-> 0, cp |-> 0])
        /\
        rPos = ([q |-> 0, quat |-> 0, con |-> 0, cpos |-> 0])
        /\
        rAcc = ([lock |-> 0, mot |-> 0, cacc |-> 0])
        /\
        gravValid = (FALSE)
        /\
        rVel = ([u |-> 0, cspd |-> 0])
    )
----

_init ==
    /\ posValid = _TETrace[1].posValid
    /\ val = _TETrace[1].val
    /\ stage = _TETrace[1].stage
    /\ rPos = _TETrace[1].rPos
    /\ gravF = _TETrace[1].gravF
    /\ rVel = _TETrace[1].rVel
    /\ rAcc = _TETrace[1].rAcc
    /\ act = _TETrace[1].act
    /\ posF = _TETrace[1].posF
    /\ gravValid = _TETrace[1].gravValid
    /\ cfg = _TETrace[1].cfg
    /\ rDyn = _TETrace[1].rDyn
----

_next ==
    /\ \E i,j \in DOMAIN _TETrace:
        /\ \/ /\ j = i + 1
              /\ i = TLCGet("level")
        /\ posValid  = _TETrace[i].posValid
        /\ posValid' = _TETrace[j].posValid
        /\ val  = _TETrace[i].val
        /\ val' = _TETrace[j].val
        /\ stage  = _TETrace[i].stage
        /\ stage' = _TETrace[j].stage
        /\ rPos  = _TETrace[i].rPos
        /\ rPos' = _TETrace[j].rPos
        /\ gravF  = _TETrace[i].gravF
        /\ gravF' = _TETrace[j].gravF
        /\ rVel  = _TETrace[i].rVel
        /\ rVel' = _TETrace[j].rVel
        /\ rAcc  = _TETrace[i].rAcc
        /\ rAcc' = _TETrace[j].rAcc
        /\ act  = _TETrace[i].act
        /\ act' = _TETrace[j].act
        /\ posF  = _TETrace[i].posF
        /\ posF' = _TETrace[j].posF
        /\ gravValid  = _TETrace[i].gravValid
        /\ gravValid' = _TETrace[j].gravValid
        /\ cfg  = _TETrace[i].cfg
        /\ cfg' = _TETrace[j].cfg
        /\ rDyn  = _TETrace[i].rDyn
        /\ rDyn' = _TETrace[j].rDyn

\* Uncomment the ASSUME below to write the states of the error trace
\* to the given file in Json format. Note that you can pass any tuple
\* to `JsonSerialize`. For example, a sub-sequence of _TETrace.
    \* ASSUME
    \*     LET J == INSTANCE Json
    \*         IN J!JsonSerialize("RealizeMC_TTrace_1790066164.json", _TETrace)

=============================================================================

 Note that you can extract this module `RealizeMC_TEExpression`
  to a dedicated file to reuse `expression` (the module in the 
  dedicated `RealizeMC_TEExpression.tla` file takes precedence 
  over the module `RealizeMC_TEExpression` below).

---- MODULE RealizeMC_TEExpression ----
EXTENDS Sequences, TLCExt, RealizeMC, Toolbox, Naturals, TLC

expression == 
    [
        \* To hide variables of the `RealizeMC` spec from the error trace,
        \* remove the variables below.  The trace will be written in the order
        \* of the fields of this record.
        posValid |-> posValid
        ,val |-> val
        ,stage |-> stage
        ,rPos |-> rPos
        ,gravF |-> gravF
        ,rVel |-> rVel
        ,rAcc |-> rAcc
        ,act |-> act
        ,posF |-> posF
        ,gravValid |-> gravValid
        ,cfg |-> cfg
        ,rDyn |-> rDyn
        
        \* Put additional constant-, state-, and action-level expressions here:
        \* ,_stateNumber |-> _TEPosition
        \* ,_posValidUnchanged |-> posValid = posValid'
        
        \* Format the `posValid` variable as Json value.
        \* ,_posValidJson |->
        \*     LET J == INSTANCE Json
        \*     IN J!ToJson(posValid)
        
        \* Lastly, you may build expressions over arbitrary sets of states by
        \* leveraging the _TETrace operator.  For example, this is how to
        \* count the number of times a spec variable changed up to the current
        \* state in the trace.
        \* ,_posValidModCount |->
        \*     LET F[s \in DOMAIN _TETrace] ==
        \*         IF s = 1 THEN 0
        \*         ELSE IF _TETrace[s].posValid # _TETrace[s-1].posValid
        \*             THEN 1 + F[s-1] ELSE F[s-1]
        \*     IN F[_TEPosition - 1]
    ]

=============================================================================



Parsing and semantic processing can take forever if the trace below is long.
 In this case, it is advised to uncomment the module below to deserialize the
 trace from a generated binary file.

\*
\*---- MODULE RealizeMC_TETrace ----
\*EXTENDS IOUtils, RealizeMC, TLC
\*
\*trace == IODeserialize("RealizeMC_TTrace_1790066164.bin", TRUE)
\*
\*=============================================================================
\*

---- MODULE RealizeMC_TETrace ----
EXTENDS RealizeMC, TLC

trace == 
    <<
    ([val |-> [t |-> 0, q |-> 0, u |-> 0, z |-> 0, quat |-> 0, enP |-> 0, enV |-> 0, enG |-> 0, lock |-> 0, con |-> 0, mot |-> 0, bk |-> 0, k |-> 0, cp |-> 0, c |-> 0, g |-> 0, cpos |-> 0, cspd |-> 0, cacc |-> 0],act |-> [a |-> "Init"],rDyn |-> [pos |-> [q |-> 0, quat |-> 0, enP |-> 0, k |-> 0, cp |-> 0], grav |-> [q |-> 0, quat |-> 0, g |-> 0], dir |-> [t |-> 0, q |-> 0, u |-> 0, z |-> 0, quat |-> 0, enV |-> 0, enG |-> 0, bk |-> 0, c |-> 0]],stage |-> 1,cfg |-> {"q", "enP", "k", "c", "g"},posValid |-> FALSE,gravF |-> [q |-> 0, quat |-> 0, g |-> 0],posF |-> [q |-> 0, quat |-> 0, enP |-> 0, k |-> 0, cp |-> 0],rPos |-> [q |-> 0, quat |-> 0, con |-> 0, cpos |-> 0],rAcc |-> [lock |-> 0, mot |-> 0, cacc |-> 0],gravValid |-> FALSE,rVel |-> [u |-> 0, cspd |-> 0]]),
    ([val |-> [t |-> 0, q |-> 0, u |-> 0, z |-> 0, quat |-> 0, enP |-> 1, enV |-> 0, enG |-> 0, lock |-> 0, con |-> 0, mot |-> 0, bk |-> 0, k |-> 0, cp |-> 0, c |-> 0, g |-> 0, cpos |-> 0, cspd |-> 0, cacc |-> 0],act |-> [a |-> "Set", x |-> "enP", v |-> 1],rDyn |-> [pos |-> [q |-> 0, quat |-> 0, enP |-> 0, k |-> 0, cp |-> 0], grav |-> [q |-> 0, quat |-> 0, g |-> 0], dir |-> [t |-> 0, q |-> 0, u |-> 0, z |-> 0, quat |-> 0, enV |-> 0, enG |-> 0, bk |-> 0, c |-> 0]],stage |-> 1,cfg |-> {"q", "enP", "k", "c", "g"},posValid |-> FALSE,gravF |-> [q |-> 0, quat |-> 0, g |-> 0],posF |-> [q |-> 0, quat |-> 0, enP |-> 0, k |-> 0, cp |-> 0],rPos |-> [q |-> 0, quat |-> 0, con |-> 0, cpos |-> 0],rAcc |-> [lock |-> 0, mot |-> 0, cacc |-> 0],gravValid |-> FALSE,rVel |-> [u |-> 0, cspd |-> 0]]),
    ([val |-> [t |-> 0, q |-> 0, u |-> 0, z |-> 0, quat |-> 0, enP |-> 1, enV |-> 0, enG |-> 0, lock |-> 0, con |-> 0, mot |-> 0, bk |-> 0, k |-> 0, cp |-> 0, c |-> 0, g |-> 0, cpos |-> 0, cspd |-> 0, cacc |-> 0],act |-> [a |-> "Realize", g |-> 7],rDyn |-> [pos |-> [q |-> 0, quat |-> 0, enP |-> 1, k |-> 0, cp |-> 0], grav |-> [q |-> 0, quat |-> 0, g |-> 0], dir |-> [t |-> 0, q |-> 0, u |-> 0, z |-> 0, quat |-> 0, enV |-> 0, enG |-> 0, bk |-> 0, c |-> 0]],stage |-> 7,cfg |-> {"q", "enP", "k", "c", "g"},posValid |-> TRUE,gravF |-> [q |-> 0, quat |-> 0, g |-> 0],posF |-> [q |-> 0, quat |-> 0, enP |-> 1, k |-> 0, cp |-> 0],rPos |-> [q |-> 0, quat |-> 0, con |-> 0, cpos |-> 0],rAcc |-> [lock |-> 0, mot |-> 0, cacc |-> 0],gravValid |-> FALSE,rVel |-> [u |-> 0, cspd |-> 0]]),
    ([val |-> [t |-> 0, q |-> 0, u |-> 0, z |-> 0, quat |-> 0, enP |-> 1, enV |-> 0, enG |-> 0, lock |-> 0, con |-> 0, mot |-> 0, bk |-> 0, k |-> 1, cp |-> 0, c |-> 0, g |-> 0, cpos |-> 0, cspd |-> 0, cacc |-> 0],act |-> [a |-> "Set", x |-> "k", v |-> 1],rDyn |-> [pos |-> [q |-> 0, quat |-> 0, enP |-> 1, k |-> 0, cp |-> 0], grav |-> [q |-> 0, quat |-> 0, g |-> 0], dir |-> [t |-> 0, q |-> 0, u |-> 0, z |-> 0, quat |-> 0, enV |-> 0, enG |-> 0, bk |-> 0, c |-> 0]],stage |-> 6,cfg |-> {"q", "enP", "k", "c", "g"},posValid |-> TRUE,gravF |-> [q |-> 0, quat |-> 0, g |-> 0],posF |-> [q |-> 0, quat |-> 0, enP |-> 1, k |-> 0, cp |-> 0],rPos |-> [q |-> 0, quat |-> 0, con |-> 0, cpos |-> 0],rAcc |-> [lock |-> 0, mot |-> 0, cacc |-> 0],gravValid |-> FALSE,rVel |-> [u |-> 0, cspd |-> 0]])
    >>
----


=============================================================================

---- CONFIG RealizeMC_TTrace_1790066164 ----
CONSTANTS
    DEV <- Dev_K_Dynamics
    Profiles <- AllProfiles
    MaxVal = 1

INVARIANT
    _inv

CHECK_DEADLOCK
    \* CHECK_DEADLOCK off because of PROPERTY or INVARIANT above.
    FALSE

INIT
    _init

NEXT
    _next

CONSTANT
    _TETrace <- _trace

ALIAS
    _expression
=============================================================================
\* Generated on Tue Sep 22 08:36:09 UTC 2026