------------------------------ MODULE RealizeMC ------------------------------
EXTENDS Realize
P1 == {"q", "k", "disP", "cp", "u"}
P2 == {"q", "g", "disG", "u"}
P3 == {"t", "u", "z", "c", "disV", "bk"}
P4 == {"quat", "q", "lock", "con", "mot"}
P5 == {"cpos", "cspd", "cacc", "q", "u"}
P6 == {"k", "g", "c", "q", "disP"}
AllProfiles == {P1, P2, P3, P4, P5, P6}
FastProfiles == {P1}
NoDev == {}
Dev_K_PosCached == {"K_PosCached"}
Dev_Pos_NoReset == {"Pos_NoReset"}
Dev_G_NoExplicit == {"G_NoExplicit"}
Dev_En_NoExplicit == {"En_NoExplicit"}
Dev_Inv_q == {"Inv_q"}
Dev_Inv_u == {"Inv_u"}
Dev_Inv_z == {"Inv_z"}
Dev_Inv_t == {"Inv_t"}
Dev_Inv_k == {"Inv_k"}
Dev_Inv_cp == {"Inv_cp"}
Dev_Inv_c == {"Inv_c"}
Dev_Inv_g == {"Inv_g"}
Dev_Inv_disP == {"Inv_disP"}
Dev_Inv_disV == {"Inv_disV"}
Dev_Inv_disG == {"Inv_disG"}
Dev_Inv_lock == {"Inv_lock"}
Dev_Inv_con == {"Inv_con"}
Dev_Inv_mot == {"Inv_mot"}
Dev_Inv_bk == {"Inv_bk"}
Dev_Inv_quat == {"Inv_quat"}
Dev_Inv_cpos == {"Inv_cpos"}
Dev_Inv_cspd == {"Inv_cspd"}
Dev_Inv_cacc == {"Inv_cacc"}
Dev_NoPre_q == {"NoPre_q"}
Dev_NoPre_u == {"NoPre_u"}
Dev_NoCascade == {"NoCascade"}
=============================================================================
