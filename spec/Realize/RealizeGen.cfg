SPECIFICATION GenSpec
CONSTANTS
  DEV <- NoDev
  Profiles <- GenProfiles
  MaxVal = 2
  Depth = 40
ACTION_CONSTRAINT Bias
INVARIANT Emit
CHECK_DEADLOCK FALSE
