----------------------------- MODULE ArrayTrace -----------------------------
(* TLC as interpreter of ArrayModel: for every line of a program of actions (ndjson, env TRACE) the *)
(* action is taken if it is enabled and the contents of both arrays afterwards are printed.         *)
EXTENDS ArrayModel, Json, IOUtils
Log == ndJsonDeserialize(IOEnv.TRACE)
VARIABLE l
A == Log[l]
Do == CASE A.op = "reset" -> arr' = [x \in Arr |-> <<>>] /\ minCap' = [x \in Arr |-> 0] /\ act' = [op |-> "reset"]
        [] A.op = "push_back" -> PushBack(A.x, A.v) [] A.op = "emplace_back" -> EmplaceBack(A.x, A.v)
        [] A.op = "pop_back" -> PopBack(A.x) [] A.op = "insert" -> Insert1(A.x, A.i, A.v)
        [] A.op = "insertN" -> InsertN(A.x, A.i, A.n, A.v) [] A.op = "insertRange" -> InsertRange(A.x, A.i, A.j, A.k)
        [] A.op = "erase" -> Erase1(A.x, A.i) [] A.op = "eraseRange" -> EraseR(A.x, A.i, A.j)
        [] A.op = "eraseFast" -> EraseFast(A.x, A.i) [] A.op = "resize" -> Resize(A.x, A.n)
        [] A.op = "resizeV" -> ResizeV(A.x, A.n, A.v) [] A.op = "reserve" -> Reserve(A.x, A.n)
        [] A.op = "shrink_to_fit" -> Shrink(A.x) [] A.op = "assignN" -> AssignN(A.x, A.n, A.v)
        [] A.op = "assignRange" -> AssignRange(A.x, A.j, A.k) [] A.op = "clear" -> Clear(A.x)
        [] A.op = "swap" -> Swap [] A.op = "copyAssign" -> CopyAssign(A.x) [] A.op = "copyConstruct" -> CopyConstruct(A.x)
        [] A.op = "moveAssign" -> MoveAssign(A.x) [] A.op = "setElt" -> SetElt(A.x, A.i, A.v)
        [] A.op = "viewFill" -> ViewFill(A.x, A.i, A.n, A.v) [] A.op = "viewAssign" -> ViewAssign(A.x, A.i, A.j, A.n)
        [] A.op = "handle" -> Handle(A.x, A.i, A.n, A.v, A.j, A.k)
        [] OTHER -> FALSE
TNext == /\ l <= Len(Log) /\ l' = l + 1
         /\ IF ENABLED Do
            THEN Do /\ PrintT("EXP " \o ToJson([i |-> l, ok |-> TRUE, a |-> arr'["a"], b |-> arr'["b"]]))
            ELSE UNCHANGED vars /\ PrintT("EXP " \o ToJson([i |-> l, ok |-> FALSE, a |-> arr["a"], b |-> arr["b"]]))
TSpec == (Init /\ l = 1) /\ [][TNext]_<<vars, l>>
=============================================================================
