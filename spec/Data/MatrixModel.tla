---------------------------- MODULE MatrixModel ----------------------------
(***************************************************************************)
(* E6/C25: Matrix_, Vector_, RowVector_ objects and the views onto them,   *)
(* with the meaning of the matrices they denote.                           *)
(*                                                                         *)
(* Three matrix objects A, B, C of integers.  A VIEW is a term             *)
(*     [base, i, j, m, n, tr, neg, sel, k]                                 *)
(* read left to right: the block of m x n elements at (i, j) of the base   *)
(* object, optionally transposed, optionally negated, and finally either   *)
(* the whole thing or one of its rows / columns / its diagonal.  A view    *)
(* denotes the matrix of the VALUES it shows; writing W through a view     *)
(* changes exactly the viewed elements of the base so that the view then   *)
(* shows W, and nothing else.  Objects made from a view are independent    *)
(* copies.  Arithmetic, sums and norms are those of the denoted matrices.  *)
(* Vectors are n x 1 and row vectors 1 x n matrices.                       *)
(***************************************************************************)
EXTENDS Integers, Sequences, TLC

Names == {"A", "B", "C"}
VARIABLES mats,   \* [Names -> matrix], a matrix is a sequence of rows (all of one length); 0 x 0 is <<>>
          ncols,  \* [Names -> Nat]  (needed for matrices with no rows)
          res     \* the value of the last expression evaluated (a matrix), or <<>>
vars == <<mats, ncols, res>>

NRow(M) == Len(M)
Mk(nr, nc, f(_, _)) == [r \in 1..nr |-> [c \in 1..nc |-> f(r, c)]]
Min(a, b) == IF a < b THEN a ELSE b

\* ------------------------------------------------------------- views
\* geometry of a view: number of rows / columns shown and, for each shown position, the base position and sign
Shape(v) ==
  LET m1 == IF v.tr THEN v.n ELSE v.m       \* after the optional transpose
      n1 == IF v.tr THEN v.m ELSE v.n
  IN CASE v.sel = "all"  -> <<m1, n1>>
       [] v.sel = "row"  -> <<1, n1>>
       [] v.sel = "col"  -> <<m1, 1>>
       [] v.sel = "diag" -> <<Min(m1, n1), 1>>
\* position in the transposed-or-not block of the shown position (r, c)
InBlock(v, r, c) == CASE v.sel = "all"  -> <<r, c>>
                      [] v.sel = "row"  -> <<v.k + 1, c>>
                      [] v.sel = "col"  -> <<r, v.k + 1>>
                      [] v.sel = "diag" -> <<r, r>>
\* position in the base object
At(v, r, c) == LET p == InBlock(v, r, c)
                   q == IF v.tr THEN <<p[2], p[1]>> ELSE p
               IN <<v.i + q[1], v.j + q[2]>>
Sign(v) == IF v.neg THEN -1 ELSE 1
WellFormed(v) ==
  /\ v.base \in Names /\ v.i >= 0 /\ v.j >= 0 /\ v.m >= 0 /\ v.n >= 0
  /\ v.i + v.m <= NRow(mats[v.base]) /\ v.j + v.n <= ncols[v.base]
  /\ LET m1 == IF v.tr THEN v.n ELSE v.m  n1 == IF v.tr THEN v.m ELSE v.n IN
     CASE v.sel = "all" -> TRUE [] v.sel = "row" -> v.k \in 0..(m1 - 1) [] v.sel = "col" -> v.k \in 0..(n1 - 1) [] v.sel = "diag" -> TRUE
\* the matrix a view denotes
Val(v) == LET s == Shape(v) IN
          Mk(s[1], s[2], LAMBDA r, c : LET p == At(v, r, c) IN Sign(v) * mats[v.base][p[1]][p[2]])
\* the base object after writing the matrix W through the view
WriteThrough(v, W) ==
  LET s == Shape(v)
      B == mats[v.base]
      Hit(br, bc) == {<<r, c>> \in (1..s[1]) \X (1..s[2]) : At(v, r, c) = <<br, bc>>}
  IN Mk(NRow(B), ncols[v.base], LAMBDA br, bc :
        IF Hit(br, bc) = {} THEN B[br][bc]
        ELSE LET rc == CHOOSE x \in Hit(br, bc) : TRUE IN Sign(v) * W[rc[1]][rc[2]])
SameShape(X, nr, nc) == Len(X) = nr /\ \A r \in 1..nr : Len(X[r]) = nc

\* ------------------------------------------------------------- matrix arithmetic on denoted values
Dims(X, nc) == <<Len(X), nc>>
Add(X, Y, nc) == Mk(Len(X), nc, LAMBDA r, c : X[r][c] + Y[r][c])
Sub(X, Y, nc) == Mk(Len(X), nc, LAMBDA r, c : X[r][c] - Y[r][c])
Scale(k, X, nc) == Mk(Len(X), nc, LAMBDA r, c : k * X[r][c])
EMul(X, Y, nc) == Mk(Len(X), nc, LAMBDA r, c : X[r][c] * Y[r][c])
RECURSIVE DotTo(_, _, _, _, _)
DotTo(X, Y, r, c, k) == IF k = 0 THEN 0 ELSE DotTo(X, Y, r, c, k - 1) + X[r][k] * Y[k][c]
MatMul(X, inner, Y, nc) == Mk(Len(X), nc, LAMBDA r, c : DotTo(X, Y, r, c, inner))
RECURSIVE SumCol(_, _, _)
SumCol(X, c, r) == IF r = 0 THEN 0 ELSE SumCol(X, c, r - 1) + X[r][c]
RECURSIVE SumRow(_, _, _)
SumRow(X, r, c) == IF c = 0 THEN 0 ELSE SumRow(X, r, c - 1) + X[r][c]
ColSum(X, nc) == Mk(1, nc, LAMBDA r, c : SumCol(X, c, Len(X)))
RowSum(X, nc) == Mk(Len(X), 1, LAMBDA r, c : SumRow(X, r, nc))
RECURSIVE SumSq(_, _, _, _)
SumSq(X, nc, r, c) == IF r = 0 THEN 0 ELSE IF c = 0 THEN SumSq(X, nc, r - 1, nc) ELSE SumSq(X, nc, r, c - 1) + X[r][c] * X[r][c]
NormSqr(X, nc) == <<<<SumSq(X, nc, Len(X), nc)>>>>

\* ------------------------------------------------------------- actions
Store(x, M, nc) == mats' = [mats EXCEPT ![x] = M] /\ ncols' = [ncols EXCEPT ![x] = nc]
\* X.resize(m, n) followed by X.setTo(c): resize loses the contents
ResizeFill(x, m, n, c) == Store(x, Mk(m, n, LAMBDA r, cc : c), n) /\ res' = <<>>
\* X.resizeKeep(m, n): what fits is kept; the harness sets the new elements to c
ResizeKeep(x, m, n, c) == Store(x, Mk(m, n, LAMBDA r, cc : IF r <= NRow(mats[x]) /\ cc <= ncols[x] THEN mats[x][r][cc] ELSE c), n) /\ res' = <<>>
\* X(i, j) = c
SetElt(x, i, j, c) == /\ i < NRow(mats[x]) /\ j < ncols[x]
                      /\ Store(x, [mats[x] EXCEPT ![i + 1][j + 1] = c], ncols[x]) /\ res' = <<>>
\* view.setTo(c): every shown value becomes c
Fill(v, c) == /\ WellFormed(v)
              /\ LET s == Shape(v) IN Store(v.base, WriteThrough(v, Mk(s[1], s[2], LAMBDA r, cc : c)), ncols[v.base])
              /\ res' = <<>>
\* dest = src  (two views of different objects, same shape): dest then shows what src shows
Assign(d, s) == /\ WellFormed(d) /\ WellFormed(s) /\ d.base # s.base /\ Shape(d) = Shape(s)
                /\ Store(d.base, WriteThrough(d, Val(s)), ncols[d.base]) /\ res' = <<>>
\* dest += src, dest -= src, dest *= k
AddTo(d, s, sg) == /\ WellFormed(d) /\ WellFormed(s) /\ d.base # s.base /\ Shape(d) = Shape(s)
                   /\ LET sh == Shape(d) IN
                      Store(d.base, WriteThrough(d, IF sg = 1 THEN Add(Val(d), Val(s), sh[2]) ELSE Sub(Val(d), Val(s), sh[2])), ncols[d.base])
                   /\ res' = <<>>
ScaleBy(d, k) == /\ WellFormed(d)
                 /\ Store(d.base, WriteThrough(d, Scale(k, Val(d), Shape(d)[2])), ncols[d.base]) /\ res' = <<>>
\* a new object made from a view is an independent copy
CopyTo(x, s) == /\ WellFormed(s) /\ s.base # x /\ Store(x, Val(s), Shape(s)[2]) /\ res' = <<>>
\* expressions (nothing is stored; the value is the result)
Expr(op, a, b, k) ==
  /\ WellFormed(a) /\ (op \in {"add", "sub", "mul", "emul"} => WellFormed(b))
  /\ LET sa == Shape(a)  sb == IF op \in {"add", "sub", "mul", "emul"} THEN Shape(b) ELSE <<0, 0>> IN
     /\ (op \in {"add", "sub", "emul"} => sa = sb)
     /\ (op = "mul" => sa[2] = sb[1])
     /\ res' = CASE op = "val" -> Val(a)
                 [] op = "add" -> Add(Val(a), Val(b), sa[2])
                 [] op = "sub" -> Sub(Val(a), Val(b), sa[2])
                 [] op = "emul" -> EMul(Val(a), Val(b), sa[2])
                 [] op = "mul" -> MatMul(Val(a), sa[2], Val(b), sb[2])
                 [] op = "smul" -> Scale(k, Val(a), sa[2])
                 [] op = "colSum" -> ColSum(Val(a), sa[2])
                 [] op = "rowSum" -> RowSum(Val(a), sa[2])
                 [] op = "normSqr" -> NormSqr(Val(a), sa[2])
  /\ UNCHANGED <<mats, ncols>>

Init == mats = [x \in Names |-> <<>>] /\ ncols = [x \in Names |-> 0] /\ res = <<>>
=============================================================================
