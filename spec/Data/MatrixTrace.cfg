SPECIFICATION TSpec
CHECK_DEADLOCK FALSE
