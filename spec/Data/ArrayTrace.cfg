SPECIFICATION TSpec
CONSTANTS
  MaxLen = 8
  Vals = {1, 2, 3, 4, 5, 6, 7, 8, 9}
CHECK_DEADLOCK FALSE
