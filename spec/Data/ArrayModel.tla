----------------------------- MODULE ArrayModel -----------------------------
(***************************************************************************)
(* E6/C26: Array_<T> and ArrayView_<T> with the meaning of std::vector and *)
(* a view onto it.  Two arrays a, b of element VALUES (small integers);    *)
(* every mutator of Array.h is an action with the std::vector meaning.     *)
(* Ghost accounting for "each element is constructed and destroyed exactly *)
(* once": the number of live element objects is exactly the total size of  *)
(* the arrays after every operation (the harness counts constructions and  *)
(* destructions of a counting element type).  Capacity is abstract: only   *)
(* capacity >= size, reserve(n) => capacity >= n, and "no reallocation     *)
(* when capacity suffices" (data pointer unchanged) are specified.         *)
(***************************************************************************)
EXTENDS Integers, Sequences, TLC

CONSTANTS MaxLen, Vals
Arr == {"a", "b"}
Other(x) == IF x = "a" THEN "b" ELSE "a"

VARIABLES arr,     \* [Arr -> Seq(Vals)]
          minCap,  \* [Arr -> Nat]: a capacity the array is known to have at least (from reserve)
          act
vars == <<arr, minCap, act>>

Init == arr = [x \in Arr |-> <<>>] /\ minCap = [x \in Arr |-> 0] /\ act = [op |-> "init"]

Fill(n, v) == [i \in 1..n |-> v]
InsertAt(s, i, t) == SubSeq(s, 1, i) \o t \o SubSeq(s, i + 1, Len(s))      \* t before position i+1 (0-based index i)
Remove(s, i, j) == SubSeq(s, 1, i) \o SubSeq(s, j + 1, Len(s))              \* remove 0-based [i, j)
Max2(a, b) == IF a > b THEN a ELSE b

Set(x, s, a) == /\ Len(s) <= MaxLen
                /\ arr' = [arr EXCEPT ![x] = s]
                /\ minCap' = [minCap EXCEPT ![x] = Max2(@, 0)]
                /\ act' = a

PushBack(x, v)   == Set(x, Append(arr[x], v), [op |-> "push_back", x |-> x, v |-> v])
EmplaceBack(x, v) == Set(x, Append(arr[x], v), [op |-> "emplace_back", x |-> x, v |-> v])
PopBack(x)       == Len(arr[x]) > 0 /\ Set(x, SubSeq(arr[x], 1, Len(arr[x]) - 1), [op |-> "pop_back", x |-> x])
Insert1(x, i, v) == i \in 0..Len(arr[x]) /\ Set(x, InsertAt(arr[x], i, <<v>>), [op |-> "insert", x |-> x, i |-> i, v |-> v])
InsertN(x, i, n, v) == i \in 0..Len(arr[x]) /\ Set(x, InsertAt(arr[x], i, Fill(n, v)), [op |-> "insertN", x |-> x, i |-> i, n |-> n, v |-> v])
InsertRange(x, i, j, k) ==   \* insert other[j, k) at i
  LET o == arr[Other(x)] IN
  /\ i \in 0..Len(arr[x]) /\ j \in 0..Len(o) /\ k \in j..Len(o)
  /\ Set(x, InsertAt(arr[x], i, SubSeq(o, j + 1, k)), [op |-> "insertRange", x |-> x, i |-> i, j |-> j, k |-> k])
Erase1(x, i)     == i \in 0..(Len(arr[x]) - 1) /\ Set(x, Remove(arr[x], i, i + 1), [op |-> "erase", x |-> x, i |-> i])
EraseR(x, i, j)  == i \in 0..Len(arr[x]) /\ j \in i..Len(arr[x]) /\ Set(x, Remove(arr[x], i, j), [op |-> "eraseRange", x |-> x, i |-> i, j |-> j])
\* eraseFast: the last element moves into the hole (order of the others preserved)
EraseFast(x, i)  == /\ i \in 0..(Len(arr[x]) - 1)
                    /\ LET s == arr[x]  n == Len(s)
                           t == IF i = n - 1 THEN SubSeq(s, 1, n - 1)
                                ELSE [k \in 1..(n - 1) |-> IF k = i + 1 THEN s[n] ELSE s[k]]
                       IN Set(x, t, [op |-> "eraseFast", x |-> x, i |-> i])
Resize(x, n)     == n \in 0..MaxLen /\ Set(x, IF n <= Len(arr[x]) THEN SubSeq(arr[x], 1, n) ELSE arr[x] \o Fill(n - Len(arr[x]), 0),
                                              [op |-> "resize", x |-> x, n |-> n])
ResizeV(x, n, v) == n \in 0..MaxLen /\ Set(x, IF n <= Len(arr[x]) THEN SubSeq(arr[x], 1, n) ELSE arr[x] \o Fill(n - Len(arr[x]), v),
                                              [op |-> "resizeV", x |-> x, n |-> n, v |-> v])
Reserve(x, n)    == /\ n \in 0..(MaxLen + 2) /\ arr' = arr /\ minCap' = [minCap EXCEPT ![x] = Max2(@, n)]
                    /\ act' = [op |-> "reserve", x |-> x, n |-> n]
Shrink(x)        == arr' = arr /\ minCap' = [minCap EXCEPT ![x] = 0] /\ act' = [op |-> "shrink_to_fit", x |-> x]
AssignN(x, n, v) == n \in 0..MaxLen /\ Set(x, Fill(n, v), [op |-> "assignN", x |-> x, n |-> n, v |-> v])
AssignRange(x, j, k) == LET o == arr[Other(x)] IN j \in 0..Len(o) /\ k \in j..Len(o)
                        /\ Set(x, SubSeq(o, j + 1, k), [op |-> "assignRange", x |-> x, j |-> j, k |-> k])
Clear(x)         == Set(x, <<>>, [op |-> "clear", x |-> x])
Swap             == arr' = [a |-> arr["b"], b |-> arr["a"]] /\ minCap' = [a |-> minCap["b"], b |-> minCap["a"]] /\ act' = [op |-> "swap"]
CopyAssign(x)    == Set(x, arr[Other(x)], [op |-> "copyAssign", x |-> x])
CopyConstruct(x) == Set(x, arr[Other(x)], [op |-> "copyConstruct", x |-> x])
MoveAssign(x)    == /\ arr' = [arr EXCEPT ![x] = arr[Other(x)], ![Other(x)] = <<>>]
                    /\ minCap' = [minCap EXCEPT ![x] = minCap[Other(x)], ![Other(x)] = 0]
                    /\ act' = [op |-> "moveAssign", x |-> x]
\* writes through handles
SetElt(x, i, v)  == i \in 0..(Len(arr[x]) - 1) /\ Set(x, [arr[x] EXCEPT ![i + 1] = v], [op |-> "setElt", x |-> x, i |-> i, v |-> v])
\* a sub-range view a(i, n): fill writes exactly the viewed elements
ViewFill(x, i, n, v) == /\ i \in 0..Len(arr[x]) /\ n \in 0..(Len(arr[x]) - i)
                        /\ Set(x, [k \in 1..Len(arr[x]) |-> IF k > i /\ k <= i + n THEN v ELSE arr[x][k]],
                               [op |-> "viewFill", x |-> x, i |-> i, n |-> n, v |-> v])
\* view = view of the same length of the other array (elementwise assignment)
ViewAssign(x, i, j, n) == LET o == arr[Other(x)] IN
                          /\ i \in 0..Len(arr[x]) /\ n \in 0..(Len(arr[x]) - i) /\ j \in 0..Len(o) /\ j + n <= Len(o)
                          /\ Set(x, [k \in 1..Len(arr[x]) |-> IF k > i /\ k <= i + n THEN o[j + (k - i)] ELSE arr[x][k]],
                                 [op |-> "viewAssign", x |-> x, i |-> i, j |-> j, n |-> n])

\* a NON-OWNER Array_ handle onto the elements [i, i+n) of x (DontCopy constructor / shareData): it may write
\* the elements it refers to (w = 1: all of them become v) and is then dropped in one of several ways (destructor,
\* deallocate(), re-pointed elsewhere, moved or swapped into another handle that is dropped): the referenced data
\* are otherwise untouched and no element is constructed or destroyed.
Handle(x, i, n, v, w, how) == /\ i \in 0..Len(arr[x]) /\ n \in 0..(Len(arr[x]) - i) /\ w \in {0, 1} /\ how \in 0..4
                              /\ Set(x, [k \in 1..Len(arr[x]) |-> IF w = 1 /\ k > i /\ k <= i + n THEN v ELSE arr[x][k]],
                                     [op |-> "handle", x |-> x, i |-> i, n |-> n, v |-> v, j |-> w, k |-> how])

Next == \E x \in Arr, v \in Vals, i \in 0..MaxLen, j \in 0..MaxLen, n \in 0..MaxLen :
          \/ PushBack(x, v) \/ EmplaceBack(x, v) \/ PopBack(x) \/ Insert1(x, i, v) \/ InsertN(x, i, n, v) \/ InsertRange(x, i, j, n)
          \/ Erase1(x, i) \/ EraseR(x, i, j) \/ EraseFast(x, i) \/ Resize(x, n) \/ ResizeV(x, n, v) \/ Reserve(x, n) \/ Shrink(x)
          \/ AssignN(x, n, v) \/ AssignRange(x, i, j) \/ Clear(x) \/ Swap \/ CopyAssign(x) \/ CopyConstruct(x) \/ MoveAssign(x)
          \/ SetElt(x, i, v) \/ ViewFill(x, i, n, v) \/ ViewAssign(x, i, j, n)
          \/ \E w \in {0, 1}, how \in 0..4 : Handle(x, i, n, v, w, how)
Spec == Init /\ [][Next]_vars

\* what the harness must observe after the action
Live == Len(arr["a"]) + Len(arr["b"])
TypeOK == \A x \in Arr : Len(arr[x]) <= MaxLen /\ \A k \in 1..Len(arr[x]) : arr[x][k] \in Vals \cup {0}
View == <<arr, minCap>>
=============================================================================
