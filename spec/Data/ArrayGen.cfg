SPECIFICATION GenSpec
CONSTANTS
  MaxLen = 5
  Vals = {1, 2, 3}
  Depth = 60
ACTION_CONSTRAINT Bias
INVARIANT Emit
CHECK_DEADLOCK FALSE
