------------------------------ MODULE PtrModel ------------------------------
(***************************************************************************)
(* E6/C26: the smart-pointer and copy-policy wrappers as small state       *)
(* machines over three handles h1..h3 of one kind:                         *)
(*  ClonePtr         copy = deep copy of the target; handles independent   *)
(*  CloneOnWritePtr  copy shares the target (use count), the first write   *)
(*                   through a shared handle detaches it (clones)          *)
(*  ReferencePtr     copy construction / assignment give a NULL pointer    *)
(*  ResetOnCopy      copy gives the default value (0)                      *)
(*  ReinitOnCopy     copy gives the wrapper's OWN initial value again      *)
(* Objects are identified by numbers so that sharing is visible; the       *)
(* projection compared with the real wrappers is, per handle: null?, the   *)
(* value seen through it, and for CloneOnWritePtr the use count.           *)
(***************************************************************************)
EXTENDS Integers, FiniteSets, TLC
CONSTANTS Kinds, Vals
H == {1, 2, 3}
VARIABLES kind, tgt,   \* [H -> object id or 0]
          val,         \* [object id -> value]   (pointer kinds)
          hv,          \* [H -> value]           (ResetOnCopy / ReinitOnCopy: value held by the handle)
          init,        \* [H -> value]           (ReinitOnCopy: the handle's initial value)
          nextId, act
vars == <<kind, tgt, val, hv, init, nextId, act>>
Ptr == {"ClonePtr", "CloneOnWritePtr", "ReferencePtr"}
Init == /\ kind \in Kinds /\ tgt = [h \in H |-> 0] /\ val = [i \in 1..12 |-> 0]
        /\ init = [h \in H |-> h]       \* ReinitOnCopy handles are declared with initial values 1, 2, 3
        /\ hv = IF kind = "ReinitOnCopy" THEN [h \in H |-> h] ELSE [h \in H |-> 0]
        /\ nextId = 1 /\ act = [op |-> "init"]

\* h = new object with value v  (ClonePtr(new T(v)), reset(new T(v)), ReferencePtr(&obj))
Make(h, v) == /\ kind \in Ptr /\ nextId <= 12
              /\ tgt' = [tgt EXCEPT ![h] = nextId] /\ val' = [val EXCEPT ![nextId] = v] /\ nextId' = nextId + 1
              /\ act' = [op |-> "make", h |-> h, v |-> v] /\ UNCHANGED <<kind, hv, init>>
\* h = g  (copy assignment; copy construction behaves the same for the projection)
Copy(h, g, how) ==
  /\ h # g /\ act' = [op |-> how, h |-> h, g |-> g] /\ UNCHANGED <<kind, init>>
  /\ CASE kind = "ClonePtr" ->
            IF tgt[g] = 0 THEN tgt' = [tgt EXCEPT ![h] = 0] /\ UNCHANGED <<val, nextId, hv>>
            ELSE /\ nextId <= 12 /\ tgt' = [tgt EXCEPT ![h] = nextId] /\ val' = [val EXCEPT ![nextId] = val[tgt[g]]]
                 /\ nextId' = nextId + 1 /\ UNCHANGED hv
       [] kind = "CloneOnWritePtr" -> tgt' = [tgt EXCEPT ![h] = tgt[g]] /\ UNCHANGED <<val, nextId, hv>>
       [] kind = "ReferencePtr" -> tgt' = [tgt EXCEPT ![h] = 0] /\ UNCHANGED <<val, nextId, hv>>
       [] kind = "ResetOnCopy" -> hv' = [hv EXCEPT ![h] = 0] /\ UNCHANGED <<tgt, val, nextId>>
       [] kind = "ReinitOnCopy" -> hv' = [hv EXCEPT ![h] = init[h]] /\ UNCHANGED <<tgt, val, nextId>>
\* write v through h
Write(h, v) ==
  /\ act' = [op |-> "write", h |-> h, v |-> v] /\ UNCHANGED <<kind, init>>
  /\ IF kind \in Ptr
     THEN /\ tgt[h] # 0
          /\ IF kind = "CloneOnWritePtr" /\ Cardinality({g \in H : tgt[g] = tgt[h]}) > 1
             THEN /\ nextId <= 12 /\ tgt' = [tgt EXCEPT ![h] = nextId] /\ val' = [val EXCEPT ![nextId] = v]
                  /\ nextId' = nextId + 1 /\ UNCHANGED hv
             ELSE val' = [val EXCEPT ![tgt[h]] = v] /\ UNCHANGED <<tgt, nextId, hv>>
     ELSE hv' = [hv EXCEPT ![h] = v] /\ UNCHANGED <<tgt, val, nextId>>
Reset(h) == /\ kind \in Ptr /\ tgt' = [tgt EXCEPT ![h] = 0] /\ act' = [op |-> "reset", h |-> h]
            /\ UNCHANGED <<kind, val, hv, init, nextId>>
\* h = std::move(g): h takes g's target / value, g is left null (pointers) or unchanged-but-unspecified
Move(h, g) == /\ h # g /\ kind \in Ptr /\ kind # "ReferencePtr"
              /\ tgt' = [tgt EXCEPT ![h] = tgt[g], ![g] = 0] /\ act' = [op |-> "move", h |-> h, g |-> g]
              /\ UNCHANGED <<kind, val, hv, init, nextId>>
Next == \E h \in H, g \in H, v \in Vals :
          Make(h, v) \/ Copy(h, g, "copyAssign") \/ Copy(h, g, "copyConstruct") \/ Write(h, v) \/ Reset(h) \/ Move(h, g)
Spec == Init /\ [][Next]_vars

Proj == [h \in H |-> IF kind \in Ptr
                     THEN [null |-> tgt[h] = 0, v |-> IF tgt[h] = 0 THEN -1 ELSE val[tgt[h]],
                           uc |-> IF kind = "CloneOnWritePtr" /\ tgt[h] # 0 THEN Cardinality({g \in H : tgt[g] = tgt[h]}) ELSE 0]
                     ELSE [null |-> FALSE, v |-> hv[h], uc |-> 0]]
\* copies are observationally independent for ClonePtr: no two handles share a target
CloneIndependent == kind = "ClonePtr" => \A a, b \in H : (a # b /\ tgt[a] # 0) => tgt[a] # tgt[b]
AllKinds == {"ClonePtr", "CloneOnWritePtr", "ReferencePtr", "ResetOnCopy", "ReinitOnCopy"}
=============================================================================
