SPECIFICATION GenSpec
CONSTANTS
  Kinds <- AllKinds
  Vals = {1, 2, 3}
  Depth = 11
INVARIANTS Emit CloneIndependent
CHECK_DEADLOCK FALSE
