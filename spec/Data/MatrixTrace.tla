----------------------------- MODULE MatrixTrace -----------------------------
(* TLC as interpreter of MatrixModel: for every line of a program (ndjson, env TRACE) the action is taken if *)
(* it is enabled, and the three objects and the value of the expression afterwards are printed.             *)
EXTENDS MatrixModel, Json, IOUtils
Log == ndJsonDeserialize(IOEnv.TRACE)
VARIABLE l
A == Log[l]
V(x) == [base |-> x.base, i |-> x.i, j |-> x.j, m |-> x.m, n |-> x.n, tr |-> x.tr = 1, neg |-> x.neg = 1, sel |-> x.sel, k |-> x.k]
Do == CASE A.op = "reset" -> mats' = [x \in Names |-> <<>>] /\ ncols' = [x \in Names |-> 0] /\ res' = <<>>
        [] A.op = "resizeFill" -> ResizeFill(A.x, A.m, A.n, A.c)
        [] A.op = "resizeKeep" -> ResizeKeep(A.x, A.m, A.n, A.c)
        [] A.op = "setElt" -> SetElt(A.x, A.i, A.j, A.c)
        [] A.op = "fill" -> Fill(V(A.d), A.c)
        [] A.op = "assign" -> Assign(V(A.d), V(A.s))
        [] A.op = "addTo" -> AddTo(V(A.d), V(A.s), 1)
        [] A.op = "subFrom" -> AddTo(V(A.d), V(A.s), -1)
        [] A.op = "scaleBy" -> ScaleBy(V(A.d), A.c)
        [] A.op = "copyTo" -> CopyTo(A.x, V(A.s))
        [] A.op \in {"val", "add", "sub", "emul", "mul", "smul", "colSum", "rowSum", "normSqr"} -> Expr(A.op, V(A.s), V(A.d), A.c)
        [] OTHER -> FALSE
TNext == /\ l <= Len(Log) /\ l' = l + 1
         /\ IF ENABLED Do
            THEN Do /\ PrintT("EXP " \o ToJson([i |-> l, ok |-> TRUE, A |-> mats'["A"], B |-> mats'["B"], C |-> mats'["C"], res |-> res']))
            ELSE UNCHANGED vars /\ PrintT("EXP " \o ToJson([i |-> l, ok |-> FALSE, A |-> mats["A"], B |-> mats["B"], C |-> mats["C"], res |-> res]))
TSpec == (Init /\ l = 1) /\ [][TNext]_<<vars, l>>
=============================================================================
