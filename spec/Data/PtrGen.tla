------------------------------- MODULE PtrGen -------------------------------
EXTENDS PtrModel, Json, Sequences
VARIABLE hist
GenInit == Init /\ hist = <<>>
GenNext == Next /\ hist' = Append(hist, [act |-> act', proj |-> Proj'])
GenSpec == GenInit /\ [][GenNext]_<<vars, hist>>
CONSTANT Depth
Emit == TLCGet("level") = Depth => PrintT("PROG " \o ToJson([kind |-> kind, prog |-> hist]))
=============================================================================
