------------------------------ MODULE ArrayGen ------------------------------
EXTENDS ArrayModel, Json
VARIABLE hist
GenInit == Init /\ hist = <<>>
GenNext == Next /\ hist' = Append(hist, [act |-> act', a |-> arr'["a"], b |-> arr'["b"]])
GenSpec == GenInit /\ [][GenNext]_<<vars, hist>>
CONSTANTS Depth, MoveOnlyOps
Emit == TLCGet("level") = Depth => PrintT("PROG " \o ToJson(hist))
\* bias towards growth so that the arrays are not empty most of the time
MOps == {"push_back", "emplace_back", "pop_back", "erase", "eraseRange", "eraseFast", "reserve", "shrink_to_fit", "clear",
         "swap", "moveAssign", "setElt"}
Bias == /\ (MoveOnlyOps => act'.op \in MOps)
        /\ \/ act'.op \in {"push_back", "emplace_back", "insert", "insertN", "insertRange", "resizeV", "assignN"}
           \/ RandomElement(1..100) <= (IF act'.op \in {"clear", "moveAssign"} THEN 15 ELSE 55)
=============================================================================
