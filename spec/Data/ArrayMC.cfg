SPECIFICATION Spec
CONSTANTS
  MaxLen = 3
  Vals = {1, 2}
INVARIANT TypeOK
VIEW View
CHECK_DEADLOCK FALSE
