SPECIFICATION Spec
CONSTANT MaxV = 6
INVARIANTS Proper Manifold AllUsed Euler Counts Emit
CHECK_DEADLOCK FALSE
