------------------------------ MODULE MeshTopo ------------------------------
(***************************************************************************)
(* E11 / C36 (topology clause): closed oriented triangle meshes as a state  *)
(* machine.  A mesh is a set of oriented faces <<a, b, c>> (smallest vertex *)
(* first) over vertices 1..nv.  Starting from the tetrahedron, the three    *)
(* classical local operations -- split a face (1 -> 3), split an edge       *)
(* (2 -> 4), flip an edge -- generate every mesh TLC reaches within the     *)
(* vertex bound; the invariants say what "mutually consistent adjacency"    *)
(* means: every directed edge occurs in exactly one face and its reverse    *)
(* in exactly one other (closed, oriented, manifold), faces are proper      *)
(* triangles, every vertex is used, and V - E + F = 2.  Each reachable      *)
(* mesh is printed (Emit) and built with the real ContactGeometry::         *)
(* TriangleMesh / PolygonalMesh, whose vertex, edge and face adjacency must *)
(* be the one these faces define.                                           *)
(***************************************************************************)
EXTENDS Integers, Sequences, FiniteSets, TLC, Json
CONSTANT MaxV
VARIABLES nv, faces
vars == <<nv, faces>>

Canon(a, b, c) == IF a < b /\ a < c THEN <<a, b, c>> ELSE IF b < a /\ b < c THEN <<b, c, a>> ELSE <<c, a, b>>
DirEdges(f) == {<<f[1], f[2]>>, <<f[2], f[3]>>, <<f[3], f[1]>>}
AllDir == UNION {DirEdges(f) : f \in faces}
Edges == {{e[1], e[2]} : e \in AllDir}
FaceOf(a, b) == CHOOSE f \in faces : <<a, b>> \in DirEdges(f)          \* the face with the directed edge a -> b
Third(f, a, b) == CHOOSE x \in {f[1], f[2], f[3]} : x # a /\ x # b

Init == nv = 4 /\ faces = {Canon(1, 2, 3), Canon(1, 4, 2), Canon(2, 4, 3), Canon(3, 4, 1)}

SplitFace(f) == /\ nv < MaxV
                /\ LET v == nv + 1 IN
                   faces' = (faces \ {f}) \cup {Canon(f[1], f[2], v), Canon(f[2], f[3], v), Canon(f[3], f[1], v)}
                /\ nv' = nv + 1
SplitEdge(a, b) == /\ nv < MaxV
                   /\ LET f1 == FaceOf(a, b)  f2 == FaceOf(b, a)  c == Third(f1, a, b)  d == Third(f2, a, b)  v == nv + 1 IN
                      faces' = (faces \ {f1, f2}) \cup {Canon(a, v, c), Canon(v, b, c), Canon(b, v, d), Canon(v, a, d)}
                   /\ nv' = nv + 1
FlipEdge(a, b) == LET f1 == FaceOf(a, b)  f2 == FaceOf(b, a)  c == Third(f1, a, b)  d == Third(f2, a, b) IN
                  /\ {c, d} \notin Edges                      \* stays simplicial
                  /\ faces' = (faces \ {f1, f2}) \cup {Canon(a, d, c), Canon(d, b, c)}
                  /\ UNCHANGED nv
Next == \/ \E f \in faces : SplitFace(f)
        \/ \E e \in AllDir : e[1] < e[2] /\ (SplitEdge(e[1], e[2]) \/ FlipEdge(e[1], e[2]))
Spec == Init /\ [][Next]_vars

\* ---- what a consistent closed oriented triangle mesh is
Proper == \A f \in faces : f[1] # f[2] /\ f[2] # f[3] /\ f[1] # f[3] /\ {f[1], f[2], f[3]} \subseteq 1..nv
Manifold == \A f \in faces : \A e \in DirEdges(f) :
               /\ Cardinality({g \in faces : e \in DirEdges(g)}) = 1                      \* each directed edge once ...
               /\ Cardinality({g \in faces : <<e[2], e[1]>> \in DirEdges(g)}) = 1         \* ... and its reverse once
AllUsed == \A v \in 1..nv : \E f \in faces : v \in {f[1], f[2], f[3]}
Euler == nv - Cardinality(Edges) + Cardinality(faces) = 2
Counts == 2 * Cardinality(Edges) = 3 * Cardinality(faces)
Emit == PrintT("MESH " \o ToJson([nv |-> nv, faces |-> faces, ne |-> Cardinality(Edges),
                                   degree |-> [v \in 1..nv |-> Cardinality({e \in Edges : v \in e})]]))
=============================================================================
