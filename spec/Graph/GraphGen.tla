------------------------------- MODULE GraphGen -------------------------------
(* Enumeration of every MultibodyGraphMaker input up to the bound. *)
EXTENDS Integers, Sequences, FiniteSets, TLC, Json
CONSTANTS MaxBodies, MaxJoints, Types
VARIABLES nb, mass, base, joints
Body(n) == 0..n
JointOpts(n) == [type : Types, p : Body(n), c : 1..n, loop : BOOLEAN]
Init == /\ nb \in 1..MaxBodies
        /\ mass \in [1..nb -> {0, 1}]
        /\ base \in {f \in [1..nb -> BOOLEAN] : Cardinality({b \in 1..nb : f[b]}) <= 1}
        /\ joints = <<>>
\* joints are added in non-decreasing order of an arbitrary key to avoid enumerating permutations
Key(j) == (IF j.type = "weld" THEN 0 ELSE IF j.type = "pin" THEN 1 ELSE 2) * 1000 + j.p * 100 + j.c * 10 + (IF j.loop THEN 1 ELSE 0)
Next == /\ Len(joints) < MaxJoints
        /\ \E j \in JointOpts(nb) : /\ j.p # j.c
                                    /\ (Len(joints) > 0 => Key(j) >= Key(joints[Len(joints)]))
                                    /\ joints' = Append(joints, j)
        /\ UNCHANGED <<nb, mass, base>>
Spec == Init /\ [][Next]_<<nb, mass, base, joints>>
Emit == PrintT("GRAPH " \o ToJson([nb |-> nb, mass |-> mass, base |-> base, joints |-> joints]))
=============================================================================
