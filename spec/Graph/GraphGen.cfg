SPECIFICATION Spec
CONSTANTS
  MaxBodies = 2
  MaxJoints = 2
  Types = {"weld", "pin", "cyl"}
INVARIANT Emit
CHECK_DEADLOCK FALSE
