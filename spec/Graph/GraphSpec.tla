------------------------------ MODULE GraphSpec ------------------------------
(***************************************************************************)
(* E5/C42: MultibodyGraphMaker.  The specification is the property: for    *)
(* every input (bodies with masses and must-be-base flags, joints with     *)
(* types, parent, child and must-be-loop flags) the result is an error or  *)
(* a valid spanning tree with loop constraints and slave bodies.           *)
(* TLC is used twice: it ENUMERATES every input up to the bound (GenSpec), *)
(* and it CHECKS the predicate ValidTree on every (input, output) pair     *)
(* recorded from the real MultibodyGraphMaker (CheckSpec).                 *)
(* Bodies are numbered 0 (Ground), 1..nb.                                  *)
(***************************************************************************)
EXTENDS Integers, Sequences, FiniteSets, TLC, Json, IOUtils

\* joint types known to the graph maker: number of mobilities, good loop joint available
JTypes == [weld |-> [dof |-> 0, loop |-> TRUE], pin |-> [dof |-> 1, loop |-> TRUE],
           cyl |-> [dof |-> 2, loop |-> FALSE], free |-> [dof |-> 6, loop |-> TRUE]]

-----------------------------------------------------------------------------
\* the property
Count(S, P(_)) == Cardinality({i \in 1..Len(S) : P(S[i])})
ValidTree(in, out) ==
  LET nb == in.nb  M == out.mobs  L == out.loops  J == in.joints
      MasterMob(b) == {k \in 1..Len(M) : M[k].outb = b /\ ~M[k].slave}
      SlaveMobs(b) == {k \in 1..Len(M) : M[k].outb = b /\ M[k].slave}
  IN
  \* every input body is mobilized exactly once, plus once per slave fragment
  /\ \A b \in 1..nb : Cardinality(MasterMob(b)) = 1 /\ Cardinality(SlaveMobs(b)) = out.frags[b] - 1
  /\ \A k \in 1..Len(M) : M[k].outb \in 1..nb /\ M[k].inb \in 0..nb
  \* inboard-first order and levels
  /\ \A k \in 1..Len(M) :
        IF M[k].inb = 0 THEN M[k].level = 1
        ELSE \E k2 \in 1..(k - 1) : M[k2].outb = M[k].inb /\ ~M[k2].slave /\ M[k].level = M[k2].level + 1
  \* every input joint exactly once, as a mobilizer or as a loop constraint, with its own bodies
  /\ \A j \in 1..Len(J) :
        LET asMob == {k \in 1..Len(M) : M[k].j = j}  asLoop == {k \in 1..Len(L) : L[k].j = j} IN
        /\ Cardinality(asMob) + Cardinality(asLoop) = 1
        /\ \A k \in asMob : /\ ~M[k].added
                            /\ IF M[k].rev THEN M[k].inb = J[j].c /\ M[k].outb = J[j].p
                               ELSE M[k].inb = J[j].p /\ M[k].outb = J[j].c
        /\ \A k \in asLoop : L[k].p = J[j].p /\ L[k].c = J[j].c
        \* must-be-loop joints are honoured: a loop constraint, or (joint types without a usable loop
        \* constraint) the mobilizer of a SLAVE fragment of a split body
        /\ J[j].loop => (asLoop # {} \/ \E k \in asMob : M[k].slave)
  \* mobilizers that are not input joints are added base mobilizers from Ground
  /\ \A k \in 1..Len(M) : M[k].j = 0 => (M[k].added /\ M[k].inb = 0)
  \* a loop constraint is an input joint, or an added base joint that turned out not to be needed
  \* (type "free": no constraint at all)
  /\ \A k \in 1..Len(L) : L[k].j \in 1..Len(J) \/ (L[k].j = 0 /\ L[k].type = "free" /\ L[k].p = 0)
  \* must-be-base bodies hang directly on Ground (the documentation tells the user not to set the flag
  \* on a body that is given its own joint to Ground; such inputs are not constrained here)
  /\ \A b \in 1..nb : (in.base[b] /\ ~\E j \in 1..Len(J) : {J[j].p, J[j].c} = {0, b})
                          => \A k \in MasterMob(b) : M[k].inb = 0
  \* no massless body with mobilities ends a branch
  /\ \A k \in 1..Len(M) :
        (in.mass[M[k].outb] = 0 /\ ~M[k].slave /\ M[k].dof > 0) => \E k2 \in 1..Len(M) : M[k2].inb = M[k].outb
  /\ \A b \in 1..nb : out.frags[b] >= 1
ValidOrError(r) == r.out.err \/ ValidTree(r.in, r.out)

-----------------------------------------------------------------------------
\* checking recorded (input, output) pairs
Log == ndJsonDeserialize(IOEnv.TRACE)
VARIABLE l
CheckSpec == l = 1 /\ [][l <= Len(Log) /\ l' = l + 1]_l
Checked == l <= Len(Log) => ValidOrError(Log[l])
\* the same judgement, but every rejected record is reported and the pass goes on (one TLC run per batch however many fail)
CheckedAll == l <= Len(Log) => (ValidOrError(Log[l]) \/ PrintT("BAD " \o ToString(l)))
Done == PrintT(<<"CHECKED", TLCGet("stats").diameter, Len(Log)>>)
=============================================================================
