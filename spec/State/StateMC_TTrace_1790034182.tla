---- MODULE StateMC_TTrace_1790034182 ----
EXTENDS Sequences, TLCExt, StateMC, Toolbox, Naturals, TLC

_expression ==
    LET StateMC_TEExpression == INSTANCE StateMC_TEExpression
    IN StateMC_TEExpression!expression
----

_trace ==
    LET StateMC_TETrace == INSTANCE StateMC_TETrace
    IN StateMC_TETrace!trace
----

_inv ==
    ~(
        TLCGet("level") = Len(_TETrace)
        /\
        S = (<<[ver |-> [s0 |-> <<1, 1, 1, 1, 1, 1, 1, 1, 1>>, s1 |-> <<1, 1, 1, 1, 1, 1, 1, 1, 1>>], sys |-> 0, stg |-> [s0 |-> 3, s1 |-> 0], t |-> -1, cv |-> [q0 |-> 0, u0 |-> 0, z0 |-> 0, q1 |-> 0], dv |-> [d0 |-> 0, d1 |-> 0, d2 |-> 0, d3 |-> 0, d4 |-> 0], dvVer |-> [d0 |-> 1, d1 |-> 1, d2 |-> 1, d3 |-> 1, d4 |-> 1], lastUpd |-> [d0 |-> -1, d1 |-> -1, d2 |-> -1, d3 |-> -1, d4 |-> -1], ce |-> [c0 |-> 0, c1 |-> 0, c2 |-> 0, c3 |-> 0, c4 |-> 0, c5 |-> 0, c6 |-> 0, c7 |-> 0], ceVer |-> [c0 |-> 1, c1 |-> 1, c2 |-> 1, c3 |-> 1, c4 |-> 1, c5 |-> 1, c6 |-> 1, c7 |-> 1], recVer |-> [c0 |-> 0, c1 |-> 1, c2 |-> 0, c3 |-> 0, c4 |-> 0, c5 |-> 0, c6 |-> 0, c7 |-> 0], utd |-> [c0 |-> TRUE, c1 |-> TRUE, c2 |-> TRUE, c3 |-> TRUE, c4 |-> TRUE, c5 |-> TRUE, c6 |-> TRUE, c7 |-> TRUE], marked |-> [c0 |-> FALSE, c1 |-> FALSE, c2 |-> FALSE, c3 |-> FALSE, c4 |-> FALSE, c5 |-> FALSE, c6 |-> FALSE, c7 |-> FALSE], sysVer |-> <<1, 1, 1, 1, 1, 1, 1, 1, 1>>, qVer |-> 2, uVer |-> 2, zVer |-> 2, noReg |-> FALSE, snapSys |-> -1, snap |-> <<0, 0, 0, 0, 0, 0, 0, 0, 0>>, chg |-> 10, bumped |-> {}]>>)
        /\
        act = ([st |-> 1, a |-> "CopySelf", keep |-> TRUE, assign |-> FALSE])
        /\
        cfg = ([dvs |-> {"d1"}, ces |-> {"c1"}])
    )
----

_init ==
    /\ S = _TETrace[1].S
    /\ act = _TETrace[1].act
    /\ cfg = _TETrace[1].cfg
----

_next ==
    /\ \E i,j \in DOMAIN _TETrace:
        /\ \/ /\ j = i + 1
              /\ i = TLCGet("level")
        /\ S  = _TETrace[i].S
        /\ S' = _TETrace[j].S
        /\ act  = _TETrace[i].act
        /\ act' = _TETrace[j].act
        /\ cfg  = _TETrace[i].cfg
        /\ cfg' = _TETrace[j].cfg

\* Uncomment the ASSUME below to write the states of the error trace
\* to the given file in Json format. Note that you can pass any tuple
\* to `JsonSerialize`. For example, a sub-sequence of _TETrace.
    \* ASSUME
    \*     LET J == INSTANCE Json
    \*         IN J!JsonSerialize("StateMC_TTrace_1790034182.json", _TETrace)

=============================================================================

 Note that you can extract this module `StateMC_TEExpression`
  to a dedicated file to reuse `expression` (the module in the 
  dedicated `StateMC_TEExpression.tla` file takes precedence 
  over the module `StateMC_TEExpression` below).

---- MODULE StateMC_TEExpression ----
EXTENDS Sequences, TLCExt, StateMC, Toolbox, Naturals, TLC

expression == 
    [
        \* To hide variables of the `StateMC` spec from the error trace,
        \* remove the variables below.  The trace will be written in the order
        \* of the fields of this record.
        S |-> S
        ,act |-> act
        ,cfg |-> cfg
        
        \* Put additional constant-, state-, and action-level expressions here:
        \* ,_stateNumber |-> _TEPosition
        \* ,_SUnchanged |-> S = S'
        
        \* Format the `S` variable as Json value.
        \* ,_SJson |->
        \*     LET J == INSTANCE Json
        \*     IN J!ToJson(S)
        
        \* Lastly, you may build expressions over arbitrary sets of states by
        \* leveraging the _TETrace operator.  For example, this is how to
        \* count the number of times a spec variable changed up to the current
        \* state in the trace.
        \* ,_SModCount |->
        \*     LET F[s \in DOMAIN _TETrace] ==
        \*         IF s = 1 THEN 0
        \*         ELSE IF _TETrace[s].S # _TETrace[s-1].S
        \*             THEN 1 + F[s-1] ELSE F[s-1]
        \*     IN F[_TEPosition - 1]
    ]

=============================================================================



Parsing and semantic processing can take forever if the trace below is long.
 In this case, it is advised to uncomment the module below to deserialize the
 trace from a generated binary file.

\*
\*---- MODULE StateMC_TETrace ----
\*EXTENDS IOUtils, StateMC, TLC
\*
\*trace == IODeserialize("StateMC_TTrace_1790034182.bin", TRUE)
\*
\*=============================================================================
\*

---- MODULE StateMC_TETrace ----
EXTENDS StateMC, TLC

trace == 
    <<
    ([S |-> <<[ver |-> [s0 |-> <<1, 1, 1, 1, 1, 1, 1, 1, 1>>, s1 |-> <<1, 1, 1, 1, 1, 1, 1, 1, 1>>], sys |-> 0, stg |-> [s0 |-> 0, s1 |-> 0], t |-> -1, cv |-> [q0 |-> 0, u0 |-> 0, z0 |-> 0, q1 |-> 0], dv |-> [d0 |-> 0, d1 |-> 0, d2 |-> 0, d3 |-> 0, d4 |-> 0], dvVer |-> [d0 |-> 1, d1 |-> 1, d2 |-> 1, d3 |-> 1, d4 |-> 1], lastUpd |-> [d0 |-> -1, d1 |-> -1, d2 |-> -1, d3 |-> -1, d4 |-> -1], ce |-> [c0 |-> 0, c1 |-> 0, c2 |-> 0, c3 |-> 0, c4 |-> 0, c5 |-> 0, c6 |-> 0, c7 |-> 0], ceVer |-> [c0 |-> 1, c1 |-> 1, c2 |-> 1, c3 |-> 1, c4 |-> 1, c5 |-> 1, c6 |-> 1, c7 |-> 1], recVer |-> [c0 |-> 0, c1 |-> 0, c2 |-> 0, c3 |-> 0, c4 |-> 0, c5 |-> 0, c6 |-> 0, c7 |-> 0], utd |-> [c0 |-> TRUE, c1 |-> TRUE, c2 |-> TRUE, c3 |-> TRUE, c4 |-> TRUE, c5 |-> TRUE, c6 |-> TRUE, c7 |-> TRUE], marked |-> [c0 |-> FALSE, c1 |-> FALSE, c2 |-> FALSE, c3 |-> FALSE, c4 |-> FALSE, c5 |-> FALSE, c6 |-> FALSE, c7 |-> FALSE], sysVer |-> <<1, 1, 1, 1, 1, 1, 1, 1, 1>>, qVer |-> 1, uVer |-> 1, zVer |-> 1, noReg |-> FALSE, snapSys |-> -1, snap |-> <<0, 0, 0, 0, 0, 0, 0, 0, 0>>, chg |-> 10, bumped |-> {}]>>,act |-> [a |-> "Init"],cfg |-> [dvs |-> {"d1"}, ces |-> {"c1"}]]),
    ([S |-> <<[ver |-> [s0 |-> <<1, 1, 1, 1, 1, 1, 1, 1, 1>>, s1 |-> <<1, 1, 1, 1, 1, 1, 1, 1, 1>>], sys |-> 0, stg |-> [s0 |-> 1, s1 |-> 0], t |-> -1, cv |-> [q0 |-> 0, u0 |-> 0, z0 |-> 0, q1 |-> 0], dv |-> [d0 |-> 0, d1 |-> 0, d2 |-> 0, d3 |-> 0, d4 |-> 0], dvVer |-> [d0 |-> 1, d1 |-> 1, d2 |-> 1, d3 |-> 1, d4 |-> 1], lastUpd |-> [d0 |-> -1, d1 |-> -1, d2 |-> -1, d3 |-> -1, d4 |-> -1], ce |-> [c0 |-> 0, c1 |-> 0, c2 |-> 0, c3 |-> 0, c4 |-> 0, c5 |-> 0, c6 |-> 0, c7 |-> 0], ceVer |-> [c0 |-> 1, c1 |-> 1, c2 |-> 1, c3 |-> 1, c4 |-> 1, c5 |-> 1, c6 |-> 1, c7 |-> 1], recVer |-> [c0 |-> 0, c1 |-> 0, c2 |-> 0, c3 |-> 0, c4 |-> 0, c5 |-> 0, c6 |-> 0, c7 |-> 0], utd |-> [c0 |-> TRUE, c1 |-> TRUE, c2 |-> TRUE, c3 |-> TRUE, c4 |-> TRUE, c5 |-> TRUE, c6 |-> TRUE, c7 |-> TRUE], marked |-> [c0 |-> FALSE, c1 |-> FALSE, c2 |-> FALSE, c3 |-> FALSE, c4 |-> FALSE, c5 |-> FALSE, c6 |-> FALSE, c7 |-> FALSE], sysVer |-> <<1, 1, 1, 1, 1, 1, 1, 1, 1>>, qVer |-> 1, uVer |-> 1, zVer |-> 1, noReg |-> FALSE, snapSys |-> -1, snap |-> <<0, 0, 0, 0, 0, 0, 0, 0, 0>>, chg |-> 10, bumped |-> {}]>>,act |-> [st |-> 1, a |-> "Realize", s |-> "s0", g |-> 1],cfg |-> [dvs |-> {"d1"}, ces |-> {"c1"}]]),
    ([S |-> <<[ver |-> [s0 |-> <<1, 1, 1, 1, 1, 1, 1, 1, 1>>, s1 |-> <<1, 1, 1, 1, 1, 1, 1, 1, 1>>], sys |-> 0, stg |-> [s0 |-> 2, s1 |-> 0], t |-> -1, cv |-> [q0 |-> 0, u0 |-> 0, z0 |-> 0, q1 |-> 0], dv |-> [d0 |-> 0, d1 |-> 0, d2 |-> 0, d3 |-> 0, d4 |-> 0], dvVer |-> [d0 |-> 1, d1 |-> 1, d2 |-> 1, d3 |-> 1, d4 |-> 1], lastUpd |-> [d0 |-> -1, d1 |-> -1, d2 |-> -1, d3 |-> -1, d4 |-> -1], ce |-> [c0 |-> 0, c1 |-> 0, c2 |-> 0, c3 |-> 0, c4 |-> 0, c5 |-> 0, c6 |-> 0, c7 |-> 0], ceVer |-> [c0 |-> 1, c1 |-> 1, c2 |-> 1, c3 |-> 1, c4 |-> 1, c5 |-> 1, c6 |-> 1, c7 |-> 1], recVer |-> [c0 |-> 0, c1 |-> 0, c2 |-> 0, c3 |-> 0, c4 |-> 0, c5 |-> 0, c6 |-> 0, c7 |-> 0], utd |-> [c0 |-> TRUE, c1 |-> TRUE, c2 |-> TRUE, c3 |-> TRUE, c4 |-> TRUE, c5 |-> TRUE, c6 |-> TRUE, c7 |-> TRUE], marked |-> [c0 |-> FALSE, c1 |-> FALSE, c2 |-> FALSE, c3 |-> FALSE, c4 |-> FALSE, c5 |-> FALSE, c6 |-> FALSE, c7 |-> FALSE], sysVer |-> <<1, 1, 1, 1, 1, 1, 1, 1, 1>>, qVer |-> 1, uVer |-> 1, zVer |-> 1, noReg |-> FALSE, snapSys |-> -1, snap |-> <<0, 0, 0, 0, 0, 0, 0, 0, 0>>, chg |-> 10, bumped |-> {}]>>,act |-> [st |-> 1, a |-> "Realize", s |-> "s0", g |-> 2],cfg |-> [dvs |-> {"d1"}, ces |-> {"c1"}]]),
    ([S |-> <<[ver |-> [s0 |-> <<1, 1, 1, 1, 1, 1, 1, 1, 1>>, s1 |-> <<1, 1, 1, 1, 1, 1, 1, 1, 1>>], sys |-> 0, stg |-> [s0 |-> 3, s1 |-> 0], t |-> -1, cv |-> [q0 |-> 0, u0 |-> 0, z0 |-> 0, q1 |-> 0], dv |-> [d0 |-> 0, d1 |-> 0, d2 |-> 0, d3 |-> 0, d4 |-> 0], dvVer |-> [d0 |-> 1, d1 |-> 1, d2 |-> 1, d3 |-> 1, d4 |-> 1], lastUpd |-> [d0 |-> -1, d1 |-> -1, d2 |-> -1, d3 |-> -1, d4 |-> -1], ce |-> [c0 |-> 0, c1 |-> 0, c2 |-> 0, c3 |-> 0, c4 |-> 0, c5 |-> 0, c6 |-> 0, c7 |-> 0], ceVer |-> [c0 |-> 1, c1 |-> 1, c2 |-> 1, c3 |-> 1, c4 |-> 1, c5 |-> 1, c6 |-> 1, c7 |-> 1], recVer |-> [c0 |-> 0, c1 |-> 0, c2 |-> 0, c3 |-> 0, c4 |-> 0, c5 |-> 0, c6 |-> 0, c7 |-> 0], utd |-> [c0 |-> TRUE, c1 |-> TRUE, c2 |-> TRUE, c3 |-> TRUE, c4 |-> TRUE, c5 |-> TRUE, c6 |-> TRUE, c7 |-> TRUE], marked |-> [c0 |-> FALSE, c1 |-> FALSE, c2 |-> FALSE, c3 |-> FALSE, c4 |-> FALSE, c5 |-> FALSE, c6 |-> FALSE, c7 |-> FALSE], sysVer |-> <<1, 1, 1, 1, 1, 1, 1, 1, 1>>, qVer |-> 1, uVer |-> 1, zVer |-> 1, noReg |-> FALSE, snapSys |-> -1, snap |-> <<0, 0, 0, 0, 0, 0, 0, 0, 0>>, chg |-> 10, bumped |-> {}]>>,act |-> [st |-> 1, a |-> "Realize", s |-> "s0", g |-> 3],cfg |-> [dvs |-> {"d1"}, ces |-> {"c1"}]]),
    ([S |-> <<[ver |-> [s0 |-> <<1, 1, 1, 1, 1, 1, 1, 1, 1>>, s1 |-> <<1, 1, 1, 1, 1, 1, 1, 1, 1>>], sys |-> 0, stg |-> [s0 |-> 3, s1 |-> 0], t |-> -1, cv |-> [q0 |-> 0, u0 |-> 0, z0 |-> 0, q1 |-> 0], dv |-> [d0 |-> 0, d1 |-> 0, d2 |-> 0, d3 |-> 0, d4 |-> 0], dvVer |-> [d0 |-> 1, d1 |-> 1, d2 |-> 1, d3 |-> 1, d4 |-> 1], lastUpd |-> [d0 |-> -1, d1 |-> -1, d2 |-> -1, d3 |-> -1, d4 |-> -1], ce |-> [c0 |-> 0, c1 |-> 0, c2 |-> 0, c3 |-> 0, c4 |-> 0, c5 |-> 0, c6 |-> 0, c7 |-> 0], ceVer |-> [c0 |-> 1, c1 |-> 1, c2 |-> 1, c3 |-> 1, c4 |-> 1, c5 |-> 1, c6 |-> 1, c7 |-> 1], recVer |-> [c0 |-> 0, c1 |-> 1, c2 |-> 0, c3 |-> 0, c4 |-> 0, c5 |-> 0, c6 |-> 0, c7 |-> 0], utd |-> [c0 |-> TRUE, c1 |-> TRUE, c2 |-> TRUE, c3 |-> TRUE, c4 |-> TRUE, c5 |-> TRUE, c6 |-> TRUE, c7 |-> TRUE], marked |-> [c0 |-> FALSE, c1 |-> TRUE, c2 |-> FALSE, c3 |-> FALSE, c4 |-> FALSE, c5 |-> FALSE, c6 |-> FALSE, c7 |-> FALSE], sysVer |-> <<1, 1, 1, 1, 1, 1, 1, 1, 1>>, qVer |-> 1, uVer |-> 1, zVer |-> 1, noReg |-> FALSE, snapSys |-> -1, snap |-> <<0, 0, 0, 0, 0, 0, 0, 0, 0>>, chg |-> 10, bumped |-> {}]>>,act |-> [st |-> 1, c |-> "c1", a |-> "MarkValid"],cfg |-> [dvs |-> {"d1"}, ces |-> {"c1"}]]),
    ([S |-> <<[ver |-> [s0 |-> <<1, 1, 1, 1, 1, 1, 1, 1, 1>>, s1 |-> <<1, 1, 1, 1, 1, 1, 1, 1, 1>>], sys |-> 0, stg |-> [s0 |-> 3, s1 |-> 0], t |-> -1, cv |-> [q0 |-> 0, u0 |-> 0, z0 |-> 0, q1 |-> 0], dv |-> [d0 |-> 0, d1 |-> 0, d2 |-> 0, d3 |-> 0, d4 |-> 0], dvVer |-> [d0 |-> 1, d1 |-> 1, d2 |-> 1, d3 |-> 1, d4 |-> 1], lastUpd |-> [d0 |-> -1, d1 |-> -1, d2 |-> -1, d3 |-> -1, d4 |-> -1], ce |-> [c0 |-> 0, c1 |-> 0, c2 |-> 0, c3 |-> 0, c4 |-> 0, c5 |-> 0, c6 |-> 0, c7 |-> 0], ceVer |-> [c0 |-> 1, c1 |-> 1, c2 |-> 1, c3 |-> 1, c4 |-> 1, c5 |-> 1, c6 |-> 1, c7 |-> 1], recVer |-> [c0 |-> 0, c1 |-> 1, c2 |-> 0, c3 |-> 0, c4 |-> 0, c5 |-> 0, c6 |-> 0, c7 |-> 0], utd |-> [c0 |-> TRUE, c1 |-> TRUE, c2 |-> TRUE, c3 |-> TRUE, c4 |-> TRUE, c5 |-> TRUE, c6 |-> TRUE, c7 |-> TRUE], marked |-> [c0 |-> FALSE, c1 |-> FALSE, c2 |-> FALSE, c3 |-> FALSE, c4 |-> FALSE, c5 |-> FALSE, c6 |-> FALSE, c7 |-> FALSE], sysVer |-> <<1, 1, 1, 1, 1, 1, 1, 1, 1>>, qVer |-> 2, uVer |-> 2, zVer |-> 2, noReg |-> FALSE, snapSys |-> -1, snap |-> <<0, 0, 0, 0, 0, 0, 0, 0, 0>>, chg |-> 10, bumped |-> {}]>>,act |-> [st |-> 1, a |-> "CopySelf", keep |-> TRUE, assign |-> FALSE],cfg |-> [dvs |-> {"d1"}, ces |-> {"c1"}]])
    >>
----


=============================================================================

---- CONFIG StateMC_TTrace_1790034182 ----
CONSTANTS
    SID = { 1 }
    Profiles <- ProfSmall
    MaxVal = 0
    DEV <- Dev_CopyBumpOnlyToSrcStage
    MaxVer = 3
    WithSnap = FALSE
    SelfCopy = TRUE

INVARIANT
    _inv

CHECK_DEADLOCK
    \* CHECK_DEADLOCK off because of PROPERTY or INVARIANT above.
    FALSE

INIT
    _init

NEXT
    _next

CONSTANT
    _TETrace <- _trace

ALIAS
    _expression
=============================================================================
\* Generated on Mon Sep 21 23:43:03 UTC 2026