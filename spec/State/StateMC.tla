------------------------------ MODULE StateMC ------------------------------
EXTENDS StateSpec
CONSTANT MaxVer
P_lazy  == [dvs |-> {}, ces |-> {"c0", "c4"}]
P_comp  == [dvs |-> {"d1"}, ces |-> {"c1"}]
P_pre   == [dvs |-> {"d2"}, ces |-> {"c0", "c2"}]
P_q     == [dvs |-> {"d0"}, ces |-> {"c3"}]
P_auto  == [dvs |-> {"d3"}, ces |-> {"c5"}]
P_auto2 == [dvs |-> {"d4", "d1"}, ces |-> {"c6", "c7"}]
P_auto3 == [dvs |-> {"d3"}, ces |-> {"c5", "c8"}]
P_chain == [dvs |-> {"d1"}, ces |-> {"c7", "c9"}]
ProfChain == {P_chain}
ProfAuto == {P_auto, P_auto3}
ProfPre == {P_pre, P_q, P_auto2, P_auto3}
P_all   == [dvs |-> DV, ces |-> CE]
ProfSmall == {P_lazy, P_comp, P_pre, P_q, P_auto, P_auto2, P_auto3, P_chain}
ProfAll == {P_all}
NoDev == {}
Dev_CopyBumpOnlyToSrcStage == {"CopyBumpOnlyToSrcStage"}
Dev_AutoUpdateNoBump == {"AutoUpdateNoBump"}
Dev_InvalidateOffByOne == {"InvalidateOffByOne"}
Dev_NoDependentNotify == {"NoDependentNotify"}
Dev_NoReRegisterAfterCopy == {"NoReRegisterAfterCopy"}
Dev_PopGE == {"PopGE"}
Dev_AutoSwapsInvalid == {"AutoSwapsInvalid"}
Dev_AutoEntryNotInvalidatedByUpd == {"AutoEntryNotInvalidatedByUpd"}
Dev_NoVersionBump == {"NoVersionBump"}
Dev_ZWeightsDynamics == {"ZWeightsDynamics"}
Dev_ShallowCopy == {"ShallowCopy"}
Dev_SkipUnflagged == {"SkipUnflagged"}

P_none  == [dvs |-> {}, ces |-> {}]
ProfNone == {P_none}
VerBound == \A st \in SID : \A c \in CEs : S[st].ver[CEDef[c].own][CEDef[c].dep] <= MaxVer
=============================================================================
