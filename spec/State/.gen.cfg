SPECIFICATION GenSpec
CONSTANTS
  SID = {1, 2}
  Profiles <- GenProfiles
  MaxVal = 2
  DEV <- GenDev
  WithSnap = TRUE
  SelfCopy = FALSE
  Depth = 40
ACTION_CONSTRAINT Bias
INVARIANT Emit
CHECK_DEADLOCK FALSE
