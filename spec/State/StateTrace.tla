------------------------------ MODULE StateTrace ------------------------------
(***************************************************************************)
(* Trace validation for E1: a trace recorded by harness/replay_state from  *)
(* real SimTK::State objects is accepted iff it is a behaviour of          *)
(* StateSpec whose projection equals what the public State API reported    *)
(* after every call.  Concatenated executions are separated by Reset.      *)
(***************************************************************************)
EXTENDS StateSpec, Json, IOUtils, SequencesExt

TraceLog == ndJsonDeserialize(IOEnv.TRACE)
Explain  == "EXPLAIN" \in DOMAIN IOEnv /\ IOEnv.EXPLAIN = "1"

VARIABLE l
tvars == <<S, cfg, act, l>>

Ev == TraceLog[l]
A  == Ev.act

\* observation of object st in the line just consumed (evaluated primed)
Obs(st)  == TraceLog[l - 1].obs[ToString(st)]
Prev(st) == TraceLog[l - 2].obs[ToString(st)]

ObjOK(st) ==
  LET o == Obs(st)  p == Proj(S[st]) IN
  /\ o.sys = p.sys
  /\ \A s \in Sub : o.stg[s] = p.stg[s]
  /\ o.t = p.t
  /\ \A x \in CV : o.cv[x] = p.cv[x]
  /\ \A d \in DVs : /\ o.exd[d] = p.exd[d]
                    /\ p.exd[d] => (o.dv[d] = p.dv[d] /\ o.lu[d] = p.lu[d])
  /\ \A c \in CEs : /\ o.exc[c] = p.exc[c]
                    /\ p.exc[c] => (o.ce[c] = p.ce[c])
                    /\ o.valid[c] = p.valid[c]
                    /\ o.gthrows[c] = ~o.valid[c]
  /\ o.diff = p.diff
  /\ (p.sys >= Model) => o.nq = 2
  \* value versions change whenever the values may have changed (one direction only)
  /\ (l > 2 /\ "st" \in DOMAIN act /\ act.st = st) => \A x \in S[st].bumped :
        (x \in {"q", "u", "z"} \/ (x \in DVs /\ ExD(S[st], x) /\ Prev(st).exd[x]))
            => o.cnt[x] # Prev(st).cnt[x]

ObsOK == TraceLog[l - 1].exc = "" /\ \A st \in SID : ObjOK(st)

TReset ==
  /\ A.a = "Reset"
  /\ cfg' = [dvs |-> ToSet(A.dvs), ces |-> ToSet(A.ces)]
  /\ S' = [st \in SID |-> Fresh]
  /\ act' = [a |-> "Reset"]

TDo(st, rec) == S' = [S EXCEPT ![st] = rec] /\ act' = A /\ UNCHANGED cfg

TStep ==
  LET st == A.st  r == Clr(S[st]) IN
  CASE A.a = "Realize"     -> CanRealize(S[st], A.s, A.g) /\ TDo(st, Realize(r, A.s, A.g))
    [] A.a = "AdvanceSys"  -> CanAdvanceSys(S[st], A.g) /\ TDo(st, AdvanceSys(r, A.g))
    [] A.a = "InvalidateAll"   -> TDo(st, InvAll(r, A.g))
    [] A.a = "InvalidateCache" -> A.g >= Instance /\ TDo(st, InvAll(r, A.g))
    [] A.a = "UpdT"  -> S[st].sys >= Topology /\ TDo(st, UpdT(r, A.v))
    [] A.a = "UpdCV" -> S[st].sys >= Model /\ TDo(st, UpdCV(r, A.x, A.v))
    [] A.a = "UpdY"  -> S[st].sys >= Model /\ TDo(st, UpdY(r, A.v))
    [] A.a = "UpdW"  -> CanUpdW(S[st], A.w) /\ TDo(st, UpdW(r, A.w))
    [] A.a = "UpdDV" -> ExD(S[st], A.d) /\ TDo(st, UpdDV(r, A.d, A.v))
    [] A.a = "SetCE" -> ExC(S[st], A.c) /\ TDo(st, SetCE(r, A.c, A.v))
    [] A.a = "MarkValid"   -> CanMark(S[st], A.c) /\ TDo(st, MarkValid(r, A.c))
    [] A.a = "MarkInvalid" -> ExC(S[st], A.c) /\ TDo(st, MarkInvalid(r, A.c))
    [] A.a = "AutoUpdate"  -> S[st].sys >= Topology /\ TDo(st, AutoUpdate(r))
    [] A.a = "Snapshot"    -> TDo(st, TakeSnap(r))
    [] A.a = "Clear"       -> TDo(st, Fresh)
    [] A.a = "CopyAssign"  -> \E keep \in BOOLEAN : TDo(st, CopyInto(S[st], S[A.src], keep, TRUE))
    [] A.a = "CopyConstruct" -> \E keep \in BOOLEAN : TDo(st, CopyInto(S[st], S[A.src], keep, FALSE))
    [] A.a = "MoveAssign"  ->
         /\ S' = [S EXCEPT ![st]    = [Clr(S[A.src]) EXCEPT !.snapSys = -1, !.chg = Infinity, !.snap = [g \in RStage |-> 0]],
                           ![A.src] = [Clr(S[st])    EXCEPT !.snapSys = -1, !.chg = Infinity, !.snap = [g \in RStage |-> 0]]]
         /\ act' = A /\ UNCHANGED cfg
    [] OTHER -> FALSE

Expected == [st \in SID |-> Proj(S[st])]

TraceNext ==
  /\ l <= Len(TraceLog)
  /\ l' = l + 1
  /\ IF A.a = "Reset" THEN TReset ELSE TStep
  /\ IF Explain /\ l = Len(TraceLog)
     THEN PrintT(<<"EXPECTED", ToJson(Expected')>>)
     ELSE ObsOK'

TraceInit ==
  /\ l = 1
  /\ S = [st \in SID |-> Fresh]
  /\ cfg = [dvs |-> {}, ces |-> {}]
  /\ act = [a |-> "Init"]

TraceSpec == TraceInit /\ [][TraceNext]_tvars

TraceAccepted == TLCGet("stats").diameter - 1 = Len(TraceLog)
NoProfiles == {}
NoDevT == {}
=============================================================================
