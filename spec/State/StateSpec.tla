------------------------------ MODULE StateSpec ------------------------------
(***************************************************************************)
(* E1: SimTK::State -- stages, stage versions, cache validity, discrete    *)
(* and auto-update variables, copies.                                      *)
(*                                                                         *)
(* Two layers in one module:                                               *)
(*   * the DOCUMENTED MODEL: ghost flag marked[c] = "marked valid after    *)
(*     the last invalidation of its depends-on stage and the last change   *)
(*     of every prerequisite";                                             *)
(*   * the CODED MECHANISM (StateImpl.h / State.cpp): per-subsystem stage  *)
(*     version counters, recorded depends-on version, up-to-date-with-     *)
(*     prerequisites flag, PerSubsystemInfo::copyFrom version arithmetic.  *)
(* Invariant Refinement says both give the same validity in every          *)
(* reachable state.  DEV names deviations (known-wrong variants of one     *)
(* rule) used to generate distinguishing histories; the faithful spec has  *)
(* DEV = {}.                                                               *)
(*                                                                         *)
(* Every per-object operation is a function  record -> record  so that     *)
(* copy / move are plain function updates of S.                            *)
(***************************************************************************)
EXTENDS Integers, FiniteSets, Sequences, TLC

CONSTANTS SID,       \* State object ids
          Profiles,  \* set of [dvs |-> SUBSET DV, ces |-> SUBSET CE] in play
          MaxVal,    \* value tokens are 0..MaxVal
          DEV,       \* deviations switched on
          WithSnap,  \* BOOLEAN: stage-version snapshots in play
          SelfCopy   \* BOOLEAN: exhaustive configs replace an object by a copy of itself

Empty == 0  Topology == 1  Model == 2  Instance == 3  Time == 4  Position == 5
Velocity == 6  Dynamics == 7  Acceleration == 8  Report == 9  Infinity == 10
RStage == 1..9
Sub    == {"s0", "s1"}
Val    == 0..MaxVal
NaNv   == -1
SMin(a,b) == IF a < b THEN a ELSE b

(***************************************************************************)
(* The system definition the harness builds.  Continuous variables: one    *)
(* scalar each.  Allocation of (sub, stage) resources happens in           *)
(* Realize(sub, stage), as Subsystem::realizeTopology/Model/Instance do.   *)
(***************************************************************************)
CV == {"q0", "u0", "z0", "q1"}
CVDef == [ q0 |-> [own |-> "s0", alloc |-> Topology, kind |-> "q"],
           u0 |-> [own |-> "s0", alloc |-> Topology, kind |-> "u"],
           z0 |-> [own |-> "s0", alloc |-> Model,    kind |-> "z"],
           q1 |-> [own |-> "s1", alloc |-> Model,    kind |-> "q"] ]

DV == {"d0", "d1", "d2", "d3", "d4"}
DVDef == [ d0 |-> [own |-> "s0", alloc |-> Topology, inv |-> Model,    auto |-> ""],
           d1 |-> [own |-> "s0", alloc |-> Model,    inv |-> Instance, auto |-> ""],
           d2 |-> [own |-> "s1", alloc |-> Topology, inv |-> Dynamics, auto |-> ""],
           d3 |-> [own |-> "s1", alloc |-> Model,    inv |-> Dynamics, auto |-> "c5"],
           d4 |-> [own |-> "s0", alloc |-> Topology, inv |-> Report,   auto |-> "c6"] ]

CE == {"c0", "c1", "c2", "c3", "c4", "c5", "c6", "c7", "c8", "c9"}
CEDef == [ c0 |-> [own |-> "s0", alloc |-> Topology, dep |-> Position, comp |-> Infinity, pre |-> {}],
           c1 |-> [own |-> "s0", alloc |-> Model,    dep |-> Time,     comp |-> Velocity, pre |-> {}],
           c2 |-> [own |-> "s1", alloc |-> Instance, dep |-> Position, comp |-> Infinity, pre |-> {"d2", "c0"}],
           c3 |-> [own |-> "s1", alloc |-> Topology, dep |-> Model,    comp |-> Infinity, pre |-> {"q"}],
           c4 |-> [own |-> "s0", alloc |-> Topology, dep |-> Topology, comp |-> Infinity, pre |-> {}],
           c5 |-> [own |-> "s1", alloc |-> Model,    dep |-> Time,     comp |-> Infinity, pre |-> {}],
           c6 |-> [own |-> "s0", alloc |-> Topology, dep |-> Velocity, comp |-> Infinity, pre |-> {}],
           c7 |-> [own |-> "s1", alloc |-> Model,    dep |-> Instance, comp |-> Dynamics, pre |-> {"z", "d1", "u"}],
           c8 |-> [own |-> "s1", alloc |-> Instance, dep |-> Time,     comp |-> Infinity, pre |-> {"d3"}],
           \* downstream of an entry that is valid "by stage" (finite computed-by stage) and is
           \* therefore normally never marked explicitly
           c9 |-> [own |-> "s1", alloc |-> Model,    dep |-> Instance, comp |-> Infinity, pre |-> {"c7"}] ]
\* order in which autoUpdateDiscreteVariables visits (subsystem, then index)
AutoOrder == <<"d4", "d3">>

VARIABLES S,      \* [SID -> state record]
          cfg,    \* profile in play
          act     \* last action (label only; excluded from VIEW)
vars == <<S, cfg, act>>

DVs == cfg.dvs
CEs == cfg.ces

-----------------------------------------------------------------------------
Fresh ==
  [ sys |-> Empty, stg |-> [s \in Sub |-> Empty], t |-> NaNv,
    cv |-> [x \in CV |-> 0],
    mdv |-> [d \in DV |-> 0], mlu |-> [d \in DV |-> NaNv], mce |-> [c \in CE |-> 0],
    dv |-> [d \in DV |-> 0], dvVer |-> [d \in DV |-> 1], lastUpd |-> [d \in DV |-> NaNv],
    ce |-> [c \in CE |-> 0], ceVer |-> [c \in CE |-> 1], recVer |-> [c \in CE |-> 0],
    utd |-> [c \in CE |-> TRUE], marked |-> [c \in CE |-> FALSE],
    ver |-> [s \in Sub |-> [g \in RStage |-> 1]],
    sysVer |-> [g \in RStage |-> 1], qVer |-> 1, uVer |-> 1, zVer |-> 1,
    noReg |-> FALSE,
    snapSys |-> -1, snap |-> [g \in RStage |-> 0], chg |-> Infinity,
    bumped |-> {} ]

ExD(r, d) == d \in DVs /\ r.stg[DVDef[d].own] >= DVDef[d].alloc
ExC(r, c) == c \in CEs /\ r.stg[CEDef[c].own] >= CEDef[c].alloc
ExCs(r)   == {c \in CEs : ExC(r, c)}

ModelValid(r, c) ==
  /\ ExC(r, c)
  /\ \/ r.stg[CEDef[c].own] >= CEDef[c].comp
     \/ r.stg[CEDef[c].own] >= CEDef[c].dep /\ r.marked[c]

ImplValid(r, c) ==
  /\ ExC(r, c)
  /\ \/ r.stg[CEDef[c].own] >= CEDef[c].comp
     \/ /\ r.stg[CEDef[c].own] >= CEDef[c].dep
        /\ r.ver[CEDef[c].own][CEDef[c].dep] = r.recVer[c]
        /\ r.utd[c]

\* ---- explicit invalidation of a set of cache entries, with cascade to dependents.
\* The documented model (ghost flag marked) and the coded mechanism (recVer, utd) are
\* updated SEPARATELY so that a deviation in the mechanism shows up as a Refinement failure.
Step(r, X) == X \cup {c \in ExCs(r) : CEDef[c].pre \cap X # {}}
KFull(r, X) == Step(r, Step(r, Step(r, X)))
\* deviation SkipUnflagged: invalidate() returns early on an entry whose flags are already in the
\* cleared state -- wrong, because such an entry may be valid by stage and have valid dependents
Flagged(r, c) == r.recVer[c] # 0 \/ r.utd[c]
StepD(r, E) == E \cup {c \in ExCs(r) : CEDef[c].pre \cap E # {} /\ Flagged(r, c)}
KSkip(r, X) == StepD(r, StepD(r, StepD(r, {x \in X : Flagged(r, x)})))
KImpl(r, X) == IF "NoDependentNotify" \in DEV \/ r.noReg THEN X
               ELSE IF "SkipUnflagged" \in DEV THEN KSkip(r, X) ELSE KFull(r, X)
Unmark(r, X)  == [r EXCEPT !.marked = [c \in CE |-> IF c \in X THEN FALSE ELSE @[c]]]
ImplInv(r, X) ==
  [r EXCEPT !.recVer = [c \in CE |-> IF c \in X THEN 0 ELSE @[c]],
            !.utd    = [c \in CE |-> IF c \in X THEN FALSE ELSE @[c]],
            !.ceVer  = [c \in CE |-> IF c \in X THEN @[c] + 1 ELSE @[c]]]
InvalidateCEs(r, X) == ImplInv(Unmark(r, KFull(r, X)), KImpl(r, X))

\* entries that listed variable `name` ("q","u","z" or a dv name) as prerequisite
DependentsOf(r, name) == {c \in ExCs(r) : name \in CEDef[c].pre}
NotePrereq(r, name) ==
  LET K  == KFull(r, DependentsOf(r, name))
      r1 == Unmark(r, K)
  IN IF r.noReg \/ "NoDependentNotify" \in DEV THEN r1
     ELSE IF "SkipUnflagged" \in DEV THEN ImplInv(r1, KSkip(r, DependentsOf(r, name)))
     ELSE ImplInv(r1, K)

NoteQ(r) == NotePrereq([r EXCEPT !.qVer = @ + 1, !.bumped = @ \cup {"q"}], "q")
NoteU(r) == NotePrereq([r EXCEPT !.uVer = @ + 1, !.bumped = @ \cup {"u"}], "u")
NoteZ(r) == NotePrereq([r EXCEPT !.zVer = @ + 1, !.bumped = @ \cup {"z"}], "z")
NoteY(r) == NoteZ(NoteU(NoteQ(r)))

\* ---- State::invalidateAll(g): system part then every subsystem
InvSys(r, g) ==
  IF r.sys < g THEN r
  ELSE LET r1 == IF r.sys >= Model /\ Model >= g
                 THEN NoteY([r EXCEPT !.cv = [x \in CV |-> 0]]) ELSE r
           r2 == IF Topology >= g THEN [r1 EXCEPT !.t = NaNv] ELSE r1
       IN [r2 EXCEPT !.sysVer = [i \in RStage |-> IF i >= g /\ i <= r.sys THEN @[i] + 1 ELSE @[i]],
                     !.sys = g - 1,
                     !.chg = IF r.snapSys >= 0 THEN SMin(@, g) ELSE @]

InvSubs(r, g) ==
  LET off == IF "InvalidateOffByOne" \in DEV /\ g < Report THEN 1 ELSE 0
      ns  == [s \in Sub |-> SMin(r.stg[s], g - 1 + off)]
      goneD(d) == ExD(r, d) /\ ns[DVDef[d].own] < DVDef[d].alloc
      popge(c) == "PopGE" \in DEV /\ ExC(r, c) /\ r.stg[CEDef[c].own] > ns[CEDef[c].own]
                     /\ ns[CEDef[c].own] = CEDef[c].alloc
      goneC(c) == ExC(r, c) /\ (ns[CEDef[c].own] < CEDef[c].alloc \/ popge(c))
      unm(c)   == ExC(r, c) /\ CEDef[c].dep > ns[CEDef[c].own] /\ CEDef[c].dep <= r.stg[CEDef[c].own]
  IN [r EXCEPT
       !.stg = ns,
       !.ver = [s \in Sub |-> [i \in RStage |->
                   IF r.stg[s] <= ns[s] THEN @[s][i]
                   ELSE IF ns[s] = Empty THEN 1
                   ELSE IF i > ns[s] /\ i <= r.stg[s] THEN @[s][i] + 1 ELSE @[s][i]]],
       !.mdv     = [d \in DV |-> IF goneD(d) THEN 0 ELSE @[d]],
       !.mlu     = [d \in DV |-> IF goneD(d) THEN NaNv ELSE @[d]],
       !.mce     = [c \in CE |-> IF goneC(c) THEN 0 ELSE @[c]],
       !.dv      = [d \in DV |-> IF goneD(d) THEN 0 ELSE @[d]],
       !.dvVer   = [d \in DV |-> IF goneD(d) THEN 1 ELSE @[d]],
       !.lastUpd = [d \in DV |-> IF goneD(d) THEN NaNv ELSE @[d]],
       !.ce      = [c \in CE |-> IF goneC(c) THEN 0 ELSE @[c]],
       !.ceVer   = [c \in CE |-> IF goneC(c) THEN 1 ELSE @[c]],
       !.recVer  = [c \in CE |-> IF goneC(c) THEN 0 ELSE @[c]],
       !.utd     = [c \in CE |-> IF goneC(c) THEN TRUE ELSE @[c]],
       !.marked  = [c \in CE |-> IF goneC(c) \/ unm(c) THEN FALSE ELSE @[c]]]

InvAll(r, g) == InvSubs(InvSys(r, g), g)

\* ---- realize steps
CanRealize(r, s, g) ==
  /\ r.stg[s] = g - 1
  /\ \A c \in CEs : CEDef[c].own = s /\ CEDef[c].alloc = g =>
        \A p \in CEDef[c].pre :
            /\ p \in DV => ExD(r, p) \/ (DVDef[p].own = s /\ DVDef[p].alloc = g)
            /\ p \in CE => ExC(r, p) \/ (CEDef[p].own = s /\ CEDef[p].alloc = g)

Realize(r, s, g) ==
  LET newC(c) == c \in CEs /\ CEDef[c].own = s /\ CEDef[c].alloc = g IN
  [r EXCEPT !.stg[s] = g,
            !.utd = [c \in CE |-> IF newC(c) THEN CEDef[c].pre = {} ELSE @[c]]]

CanAdvanceSys(r, g) == r.sys = g - 1 /\ \A s \in Sub : r.stg[s] >= g
AdvanceSys(r, g) ==
  LET r1 == [r EXCEPT !.sys = g] IN
  IF g = Topology THEN [r1 EXCEPT !.t = 0]
  ELSE IF g = Model
       THEN NotePrereq(NotePrereq(NotePrereq(r1, "q"), "u"), "z")
       ELSE r1

\* ---- variable updates
UpdT(r, v) == [InvAll(r, Time) EXCEPT !.t = v]
KindStage(k) == IF k = "q" THEN Position ELSE IF k = "u" THEN Velocity ELSE Dynamics
UpdCV(r, x, v) ==
  LET k  == CVDef[x].kind
      r1 == InvAll(r, KindStage(k))
      r2 == IF "NoVersionBump" \in DEV THEN r1
            ELSE IF k = "q" THEN NoteQ(r1) ELSE IF k = "u" THEN NoteU(r1) ELSE NoteZ(r1)
  IN [r2 EXCEPT !.cv[x] = v]
UpdY(r, v) == [NoteY(InvAll(r, Position)) EXCEPT !.cv = [x \in CV |-> v]]

WStage(w) == CASE w = "uw" -> Report
               [] w = "zw" -> IF "ZWeightsDynamics" \in DEV THEN Dynamics ELSE Report
               [] w = "uwsub" -> Report
               [] w = "zwsub" -> Report
               [] w = "qerrw" -> Position
               [] w = "uerrw" -> Velocity
WNames == {"uw", "zw", "uwsub", "zwsub", "qerrw", "uerrw"}
CanUpdW(r, w) == IF w \in {"qerrw", "uerrw"} THEN r.sys >= Instance ELSE r.sys >= Model
UpdW(r, w) == InvAll(r, WStage(w))

UpdDV(r, d, v) ==
  LET r1 == InvAll(r, DVDef[d].inv)
      a  == DVDef[d].auto
      r2 == IF a = "" THEN r1
            ELSE LET rm == Unmark(r1, KFull(r1, {a}))
                 IN IF "AutoEntryNotInvalidatedByUpd" \in DEV THEN rm ELSE ImplInv(rm, KImpl(rm, {a}))
      r3 == [r2 EXCEPT !.dvVer[d] = @ + 1, !.lastUpd[d] = r2.t, !.mlu[d] = r2.t, !.bumped = @ \cup {d}]
  IN [NotePrereq(r3, d) EXCEPT !.dv[d] = v, !.mdv[d] = v]

SetCE(r, c, v) == [r EXCEPT !.ce[c] = v, !.mce[c] = v]
CanMark(r, c) == ExC(r, c) /\ r.stg[CEDef[c].own] >= CEDef[c].dep - 1
MarkValid(r, c) ==
  [r EXCEPT !.recVer[c] = r.ver[CEDef[c].own][CEDef[c].dep], !.utd[c] = TRUE, !.marked[c] = TRUE]
MarkInvalid(r, c) == InvalidateCEs(r, {c})

\* autoUpdateDiscreteVariables: swap each auto-update variable whose update
\* entry is valid, in allocation order.  The documented model additionally
\* requires the variable's value version to change and its dependents to be
\* notified (DEV AutoUpdateNoBump = behaviour of the pinned commit).
AutoOne(r, d) ==
  LET c == DVDef[d].auto
      iSwap == ExD(r, d) /\ (IF "AutoSwapsInvalid" \in DEV THEN ExC(r, c) ELSE ImplValid(r, c))
      mSwap == ExD(r, d) /\ ModelValid(r, c)
      \* coded mechanism
      r1 == IF ~iSwap THEN r
            ELSE LET a1 == [r EXCEPT !.dv[d] = r.ce[c], !.ce[c] = r.dv[d], !.lastUpd[d] = r.t]
                     a2 == ImplInv(a1, KImpl(a1, {c}))
                 IN IF "AutoUpdateNoBump" \in DEV THEN a2
                    ELSE LET a3 == [a2 EXCEPT !.dvVer[d] = @ + 1]
                         IN IF a3.noReg \/ "NoDependentNotify" \in DEV THEN a3
                            ELSE ImplInv(a3, KFull(a3, DependentsOf(a3, d)))
      \* documented model: the variable's value changed, so its value version changes and
      \* everything that listed it as a prerequisite is out of date
      r2 == IF ~mSwap THEN r1
            ELSE LET b1 == [r1 EXCEPT !.mdv[d] = r.mce[c], !.mce[c] = r.mdv[d], !.mlu[d] = r.t,
                                       !.bumped = @ \cup {d}]
                 IN Unmark(b1, KFull(b1, {c}) \cup KFull(b1, DependentsOf(b1, d)))
  IN r2
AutoUpdate(r) == AutoOne(AutoOne(r, AutoOrder[1]), AutoOrder[2])

\* ---- copies.  keep=TRUE: entries depending only on copied stages and without
\* prerequisites keep their validity (what the code does: "cache through Instance
\* stage" is copied); keep=FALSE: nothing stays valid (what State.h says: "copying
\* only state variables and not the cache").  Both are accepted.
CopyInto(rd, rs, keep, assign) ==
  LET ts  == [s \in Sub |-> SMin(rs.stg[s], Instance)]
      cs  == SMin(rs.sys, Instance)
      dSysVer == IF assign
                 THEN [i \in RStage |-> IF i <= rd.sys THEN rd.sysVer[i] + 1 ELSE rd.sysVer[i]]
                 ELSE [i \in RStage |-> 1]
      np(c) == CEDef[c].pre = {}
  IN [ sys |-> cs, stg |-> ts,
       t  |-> IF rs.sys >= Topology THEN rs.t ELSE NaNv,
       cv |-> IF rs.sys >= Model THEN (IF "ShallowCopy" \in DEV THEN [x \in CV |-> 0] ELSE rs.cv)
              ELSE [x \in CV |-> 0],
       dv |-> rs.dv, dvVer |-> rs.dvVer, lastUpd |-> rs.lastUpd,
       mdv |-> rs.mdv, mlu |-> rs.mlu, mce |-> rs.mce,
       ce |-> rs.ce, ceVer |-> rs.ceVer,
       recVer |-> [c \in CE |-> IF keep THEN rs.recVer[c] ELSE 0],
       utd    |-> [c \in CE |-> IF ExC(rs, c) THEN (keep /\ np(c)) ELSE TRUE],
       marked |-> [c \in CE |-> keep /\ ExC(rs, c) /\ rs.marked[c] /\ np(c)
                                  /\ CEDef[c].dep <= ts[CEDef[c].own]],
       ver |-> [s \in Sub |-> [i \in RStage |->
                  IF i <= ts[s] THEN rs.ver[s][i]
                  ELSE IF i <= rs.stg[s] THEN rs.ver[s][i] + 1
                  ELSE IF "CopyBumpOnlyToSrcStage" \in DEV THEN 1 ELSE rs.ver[s][i] + 1]],
       sysVer |-> [i \in RStage |-> IF i <= cs THEN rs.sysVer[i]
                                     ELSE IF i <= rs.sys THEN rs.sysVer[i] + 1 ELSE dSysVer[i]],
       qVer |-> IF rs.sys >= Model THEN rs.qVer ELSE rs.qVer + 1,
       uVer |-> IF rs.sys >= Model THEN rs.uVer ELSE rs.uVer + 1,
       zVer |-> IF rs.sys >= Model THEN rs.zVer ELSE rs.zVer + 1,
       noReg |-> "NoReRegisterAfterCopy" \in DEV,
       snapSys |-> -1, snap |-> [g \in RStage |-> 0], chg |-> Infinity,
       bumped |-> {} ]

\* ---- system stage version snapshot (State::getSystemStageVersions /
\* getLowestSystemStageDifference).  chg is the documented meaning: the lowest
\* stage invalidated since the snapshot.
TakeSnap(r) == [r EXCEPT !.snapSys = r.sys, !.chg = Infinity,
                         !.snap = [g \in RStage |-> IF g <= r.sys THEN r.sysVer[g] ELSE 0]]
DiffCoded(r) ==
  LET both == SMin(r.snapSys, r.sys)
      bad  == {g \in 1..both : r.sysVer[g] # r.snap[g]}
  IN IF bad # {} THEN CHOOSE g \in bad : \A h \in bad : g <= h
     ELSE IF r.sys >= r.snapSys THEN Infinity ELSE both + 1
DiffGhost(r) ==
  LET both == SMin(r.snapSys, r.sys)
  IN IF r.chg <= both THEN r.chg
     ELSE IF r.sys >= r.snapSys THEN Infinity ELSE both + 1

-----------------------------------------------------------------------------
\* Actions.  Each sets act to a record naming the call and its arguments.
Clr(r) == [r EXCEPT !.bumped = {}]
Do(st, rec, a) == /\ S' = [S EXCEPT ![st] = rec] /\ act' = a /\ UNCHANGED cfg

ARealize(st) == \E s \in Sub, g \in RStage :
  /\ CanRealize(S[st], s, g)
  /\ Do(st, Realize(Clr(S[st]), s, g), [a |-> "Realize", st |-> st, s |-> s, g |-> g])
AAdvanceSys(st) == \E g \in RStage :
  /\ CanAdvanceSys(S[st], g)
  /\ Do(st, AdvanceSys(Clr(S[st]), g), [a |-> "AdvanceSys", st |-> st, g |-> g])
AInvalidateAll(st) == \E g \in RStage :
  Do(st, InvAll(Clr(S[st]), g), [a |-> "InvalidateAll", st |-> st, g |-> g])
AInvalidateCache(st) == \E g \in Instance..Report :
  Do(st, InvAll(Clr(S[st]), g), [a |-> "InvalidateCache", st |-> st, g |-> g])
AUpdT(st) == \E v \in Val :
  /\ S[st].sys >= Topology
  /\ Do(st, UpdT(Clr(S[st]), v), [a |-> "UpdT", st |-> st, v |-> v])
AUpdCV(st) == \E x \in CV, v \in Val, how \in {"sys", "sub"} :
  /\ S[st].sys >= Model
  /\ Do(st, UpdCV(Clr(S[st]), x, v), [a |-> "UpdCV", st |-> st, x |-> x, v |-> v, how |-> how])
AUpdY(st) == \E v \in Val :
  /\ S[st].sys >= Model
  /\ Do(st, UpdY(Clr(S[st]), v), [a |-> "UpdY", st |-> st, v |-> v])
AUpdW(st) == \E w \in WNames :
  /\ CanUpdW(S[st], w)
  /\ Do(st, UpdW(Clr(S[st]), w), [a |-> "UpdW", st |-> st, w |-> w])
AUpdDV(st) == \E d \in DVs, v \in Val :
  /\ ExD(S[st], d)
  /\ Do(st, UpdDV(Clr(S[st]), d, v), [a |-> "UpdDV", st |-> st, d |-> d, v |-> v])
ASetCE(st) == \E c \in CEs, v \in Val :
  /\ ExC(S[st], c)
  /\ Do(st, SetCE(Clr(S[st]), c, v), [a |-> "SetCE", st |-> st, c |-> c, v |-> v])
AMarkValid(st) == \E c \in CEs :
  /\ CanMark(S[st], c)
  /\ Do(st, MarkValid(Clr(S[st]), c), [a |-> "MarkValid", st |-> st, c |-> c])
AMarkInvalid(st) == \E c \in CEs :
  /\ ExC(S[st], c)
  /\ Do(st, MarkInvalid(Clr(S[st]), c), [a |-> "MarkInvalid", st |-> st, c |-> c])
AAutoUpdate(st) ==
  /\ S[st].sys >= Topology
  /\ Do(st, AutoUpdate(Clr(S[st])), [a |-> "AutoUpdate", st |-> st])
ASnap(st) ==
  /\ WithSnap
  /\ Do(st, TakeSnap(Clr(S[st])), [a |-> "Snapshot", st |-> st])
AClear(st) ==
  Do(st, Fresh, [a |-> "Clear", st |-> st])
ACopy(st) == \E src \in SID \ {st}, keep \in BOOLEAN, assign \in BOOLEAN :
  Do(st, CopyInto(S[st], S[src], keep, assign),
     [a |-> IF assign THEN "CopyAssign" ELSE "CopyConstruct", st |-> st, src |-> src, keep |-> keep])
\* The result of a copy depends only on the source record (and, for assignment, on the
\* destination's system stage versions), so the exhaustive configs explore "everything a
\* copy can do afterwards" with ONE object that is replaced by a copy of itself.
ACopySelf(st) == \E keep \in BOOLEAN, assign \in BOOLEAN :
  /\ SelfCopy
  /\ Do(st, CopyInto(S[st], S[st], keep, assign),
        [a |-> "CopySelf", st |-> st, keep |-> keep, assign |-> assign])
ASwap(st) == \E src \in SID \ {st} :
  /\ S' = [S EXCEPT ![st]  = [Clr(S[src]) EXCEPT !.snapSys = -1, !.chg = Infinity, !.snap = [g \in RStage |-> 0]],
                   ![src] = [Clr(S[st])  EXCEPT !.snapSys = -1, !.chg = Infinity, !.snap = [g \in RStage |-> 0]]]
  /\ act' = [a |-> "MoveAssign", st |-> st, src |-> src]
  /\ UNCHANGED cfg

Next == \E st \in SID :
  \/ ARealize(st) \/ AAdvanceSys(st) \/ AInvalidateAll(st) \/ AInvalidateCache(st)
  \/ AUpdT(st) \/ AUpdCV(st) \/ AUpdY(st) \/ AUpdW(st) \/ AUpdDV(st)
  \/ ASetCE(st) \/ AMarkValid(st) \/ AMarkInvalid(st) \/ AAutoUpdate(st)
  \/ ASnap(st) \/ AClear(st) \/ ACopy(st) \/ ASwap(st) \/ ACopySelf(st)

Init == /\ cfg \in Profiles
        /\ S = [st \in SID |-> Fresh]
        /\ act = [a |-> "Init"]
Spec == Init /\ [][Next]_vars

-----------------------------------------------------------------------------
\* Properties
SysStageLeMin == \A st \in SID, s \in Sub : S[st].sys <= S[st].stg[s]

\* the documented validity model and the coded version mechanism coincide
Refinement == \A st \in SID, c \in CEs : ImplValid(S[st], c) = ModelValid(S[st], c)

\* a recorded version never exceeds the current one (needed for copy's src+1 rule)
RecVerLeVer == \A st \in SID, c \in CEs :
  ExC(S[st], c) => S[st].recVer[c] <= S[st].ver[CEDef[c].own][CEDef[c].dep]

\* values held by the coded mechanism are the documented ones
ValuesAgree == \A st \in SID :
  /\ \A d \in DVs : S[st].dv[d] = S[st].mdv[d] /\ S[st].lastUpd[d] = S[st].mlu[d]
  /\ \A c \in CEs : S[st].ce[c] = S[st].mce[c]

\* the inductive form: for every existing entry the ghost flag and the coded pair agree
StrongRefinement == \A st \in SID, c \in CEs : ExC(S[st], c) =>
  (S[st].marked[c] <=> (S[st].recVer[c] = S[st].ver[CEDef[c].own][CEDef[c].dep] /\ S[st].utd[c]))

\* dependents never outlive their prerequisites
PrereqsExist == \A st \in SID, c \in CEs : ExC(S[st], c) =>
  \A p \in CEDef[c].pre : /\ p \in DV => ExD(S[st], p)
                          /\ p \in CE => ExC(S[st], p)

\* getLowestSystemStageDifference means "lowest stage invalidated since the snapshot"
DiffMeaning == \A st \in SID : S[st].snapSys >= 0 => DiffCoded(S[st]) = DiffGhost(S[st])

\* stale-value freedom at the value level: an entry that reads valid through
\* marking holds the value written before it was marked (tracked by the harness)
TypeOK == \A st \in SID :
  /\ S[st].sys \in 0..9
  /\ \A s \in Sub : S[st].stg[s] \in 0..9
  /\ S[st].t \in {NaNv} \cup Val

\* projection of one State object: everything observable through the public API
Proj(r) ==
  [ sys |-> r.sys, stg |-> r.stg, t |-> r.t,
    cv  |-> IF r.sys >= Model THEN r.cv ELSE [x \in CV |-> 0],
    exd |-> [d \in DVs |-> ExD(r, d)],
    exc |-> [c \in CEs |-> ExC(r, c)],
    dv  |-> [d \in DVs |-> r.mdv[d]],
    lu  |-> [d \in DVs |-> r.mlu[d]],
    ce  |-> [c \in CEs |-> r.mce[c]],
    valid |-> [c \in CEs |-> ModelValid(r, c)],
    diff  |-> IF r.snapSys >= 0 THEN DiffGhost(r) ELSE -1 ]

\* VIEW for exhaustive checking: act and the pure counters (which never feed back
\* into behaviour) are hidden
ViewRec(r) == [mdv |-> r.mdv, mlu |-> r.mlu, mce |-> r.mce, sys |-> r.sys, stg |-> r.stg, t |-> r.t, cv |-> r.cv, dv |-> r.dv,
               lastUpd |-> r.lastUpd, ce |-> r.ce, recVer |-> r.recVer, utd |-> r.utd,
               marked |-> r.marked, noReg |-> r.noReg,
               ver |-> [c \in CEs |-> r.ver[CEDef[c].own][CEDef[c].dep]],
               snapSys |-> r.snapSys, chg |-> r.chg,
               sdiff |-> [g \in RStage |-> g <= r.snapSys /\ r.sysVer[g] # r.snap[g]]]
View == <<[st \in SID |-> ViewRec(S[st])], cfg>>
=============================================================================
