------------------------------ MODULE StateGen ------------------------------
(* Generator: biased random walks of StateSpec; every chosen step is printed as a PROG line. *)
EXTENDS StateSpec, Json
P_lazy  == [dvs |-> {}, ces |-> {"c0", "c4"}]
P_comp  == [dvs |-> {"d1"}, ces |-> {"c1"}]
P_pre   == [dvs |-> {"d2"}, ces |-> {"c0", "c2"}]
P_q     == [dvs |-> {"d0"}, ces |-> {"c3"}]
P_auto  == [dvs |-> {"d3"}, ces |-> {"c5"}]
P_auto2 == [dvs |-> {"d4", "d1"}, ces |-> {"c6", "c7"}]
P_auto3 == [dvs |-> {"d3"}, ces |-> {"c5", "c8"}]
P_all   == [dvs |-> DV, ces |-> CE]
P_chain == [dvs |-> {"d1"}, ces |-> {"c7", "c9"}]
GenProfiles == {P_lazy, P_comp, P_pre, P_q, P_auto, P_auto2, P_auto3, P_chain, P_all}
GenDev == {}

Weight(a) == CASE a.a \in {"Realize", "AdvanceSys"} -> 100
               [] a.a = "InvalidateAll" -> IF a.g <= Instance THEN 1 ELSE 5
               [] a.a = "InvalidateCache" -> 4
               [] a.a = "Clear" -> 1
               [] a.a = "UpdCV" -> 6
               [] a.a = "UpdT" -> 25
               [] a.a = "UpdY" -> 10
               [] a.a = "UpdW" -> 8
               [] a.a = "UpdDV" -> 25
               [] a.a = "SetCE" -> 12
               [] a.a = "MarkValid" -> 70
               [] a.a = "MarkInvalid" -> 10
               [] a.a = "AutoUpdate" -> 60
               [] a.a = "Snapshot" -> 8
               [] a.a \in {"CopyAssign", "CopyConstruct"} -> IF a.keep THEN 12 ELSE 0
               [] a.a = "MoveAssign" -> 5
               [] OTHER -> 100
VARIABLE hist
GenInit == Init /\ hist = <<>>
GenNext == Next /\ hist' = Append(hist, act')
GenSpec == GenInit /\ [][GenNext]_<<vars, hist>>
Bias == RandomElement(1..100) <= Weight(act')
CONSTANT Depth
Emit == TLCGet("level") = Depth => PrintT("PROG " \o ToJson([cfg |-> cfg, prog |-> hist]))
=============================================================================
