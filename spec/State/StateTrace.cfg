SPECIFICATION TraceSpec
CONSTANTS
  SID = {1, 2}
  Profiles <- NoProfiles
  MaxVal = 2
  DEV <- NoDevT
  WithSnap = TRUE
  SelfCopy = FALSE
INVARIANTS SysStageLeMin Refinement StrongRefinement RecVerLeVer PrereqsExist DiffMeaning
POSTCONDITION TraceAccepted
CHECK_DEADLOCK FALSE
