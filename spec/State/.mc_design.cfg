SPECIFICATION Spec
CONSTANTS
  SID = {1}
  Profiles <- ProfChain
  MaxVal = 0
  DEV <- Dev_SkipUnflagged
  MaxVer = 3
  WithSnap = FALSE
  SelfCopy = TRUE
CONSTRAINT VerBound
VIEW View
INVARIANTS Refinement
CHECK_DEADLOCK FALSE
