SPECIFICATION Spec
CONSTANTS
  SID = {1}
  Profiles <- ProfNone
  MaxVal = 0
  DEV <- NoDev
  MaxVer = 3
  WithSnap = TRUE
  SelfCopy = TRUE
CONSTRAINT VerBound
VIEW View
INVARIANTS DiffMeaning SysStageLeMin
CHECK_DEADLOCK FALSE
