SPECIFICATION Spec
CONSTANTS
  SID = {1}
  Profiles <- ProfSmall
  MaxVal = 0
  DEV <- NoDev
  MaxVer = 4
  WithSnap = FALSE
  SelfCopy = TRUE
CONSTRAINT VerBound
VIEW View
INVARIANTS TypeOK SysStageLeMin Refinement StrongRefinement ValuesAgree RecVerLeVer PrereqsExist
CHECK_DEADLOCK FALSE
