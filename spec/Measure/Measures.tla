------------------------------ MODULE Measures ------------------------------
(***************************************************************************)
(* E4/C23: Measure::Extreme (Minimum / Maximum / MinAbs / MaxAbs) as       *)
(* implemented: an auto-update discrete variable  ext  holding the extreme *)
(* seen so far, an update cache entry filled when a realized state has a   *)
(* more extreme operand value, swapped into the variable by                *)
(* autoUpdateDiscreteVariables() at the start of the next internal step.   *)
(* The integrator realizes trial points, accepts or rejects them, and      *)
(* makes interpolated copies of the advanced state for reports.            *)
(* Property: at every realized state the measure's value is the extreme of *)
(* the operand over the ACCEPTED trajectory points so far and the point    *)
(* being looked at; rejected trial points never contribute.                *)
(* Operand values are small integers; "more extreme" is > (Maximum); the   *)
(* other three operations are the same machine under an order isomorphism. *)
(***************************************************************************)
EXTENDS Integers, FiniteSets, TLC

CONSTANTS Vals,       \* operand values
          MaxSteps,
          DEV         \* deviations

VARIABLES ext,        \* the auto-update variable
          updValid, upd,   \* update cache entry of ext (valid?, value)
          isNewValid,      \* the "is new extreme" cache entry has been computed for the current state
          accepted,   \* operand values at the accepted trajectory points so far
          cur,        \* operand value at the state currently held by the advanced State
          realized,   \* is that state realized (cache filled)?
          prev,       \* operand value at the start of the step in progress (for restoring)
          inTrial,    \* a trial step is in progress
          nsteps
vars == <<ext, updValid, upd, isNewValid, accepted, cur, realized, prev, inTrial, nsteps>>

Max(S) == CHOOSE x \in S : \A y \in S : x >= y
Better(v, e) == v > e

\* initialize(): realize, set ext to the operand's value
Init == \E v \in Vals :
        /\ ext = v /\ updValid = FALSE /\ upd = v /\ isNewValid = FALSE /\ accepted = {v} /\ cur = v /\ realized = FALSE
        /\ prev = v /\ inTrial = FALSE /\ nsteps = 0

\* realize(state, Acceleration): ensureExtremeHasBeenUpdated
Realize ==
  /\ ~realized
  /\ realized' = TRUE
  /\ IF isNewValid THEN UNCHANGED <<updValid, upd, isNewValid>>      \* already computed for "this" state
     ELSE /\ isNewValid' = TRUE
          /\ IF Better(cur, ext) THEN updValid' = TRUE /\ upd' = cur ELSE updValid' = FALSE /\ UNCHANGED upd
  /\ UNCHANGED <<ext, accepted, cur, prev, inTrial, nsteps>>

\* start of an internal step: the state is realized, then auto-update variables are swapped
StartStep ==
  /\ ~inTrial /\ realized /\ nsteps < MaxSteps
  /\ ext' = IF updValid THEN upd ELSE ext
  /\ updValid' = FALSE /\ isNewValid' = FALSE
  /\ prev' = cur /\ inTrial' = TRUE /\ nsteps' = nsteps + 1
  /\ UNCHANGED <<upd, accepted, cur, realized>>

\* the integrator moves the advanced state to a trial point (all cache above Time invalid)
Trial(v) ==
  /\ inTrial
  /\ cur' = v /\ realized' = FALSE
  /\ updValid' = (IF "KeepUpdateAcrossStateChange" \in DEV THEN updValid ELSE FALSE)
  /\ isNewValid' = (IF "KeepUpdateAcrossStateChange" \in DEV THEN isNewValid ELSE FALSE)
  /\ UNCHANGED <<ext, upd, accepted, prev, inTrial, nsteps>>

\* error test passed: the trial point becomes part of the trajectory
Accept ==
  /\ inTrial /\ realized
  /\ accepted' = accepted \cup {cur} /\ inTrial' = FALSE
  /\ UNCHANGED <<ext, updValid, upd, isNewValid, cur, realized, prev, nsteps>>

\* error test failed: restore the state at the start of the step and try again
Reject ==
  /\ inTrial /\ realized
  /\ cur' = prev /\ realized' = FALSE
  /\ updValid' = (IF "KeepUpdateAcrossStateChange" \in DEV THEN updValid ELSE FALSE)
  /\ isNewValid' = (IF "KeepUpdateAcrossStateChange" \in DEV THEN isNewValid ELSE FALSE)
  /\ UNCHANGED <<ext, upd, accepted, prev, inTrial, nsteps>>

Next == Realize \/ StartStep \/ (\E v \in Vals : Trial(v)) \/ Accept \/ Reject
Spec == Init /\ [][Next]_vars

\* value the measure reports at the current (realized) state
Value == IF updValid THEN upd ELSE ext
\* ... is the extreme over the accepted points and the current one
ValueRight == realized => Value = Max(accepted \cup {cur})
\* the variable itself never contains anything that is not on the accepted trajectory
ExtFromTrajectory == ext \in accepted
\* an interpolated report state is a COPY of the advanced state (variable ext, no update cache)
\* realized at a value v: it reports Max(ext, v)
ReportRight == \A v \in Vals : (IF Better(v, ext) THEN v ELSE ext) = Max({ext, v})
NoDev == {}
Dev_Keep == {"KeepUpdateAcrossStateChange"}
=============================================================================
