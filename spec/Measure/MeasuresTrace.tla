---------------------------- MODULE MeasuresTrace ----------------------------
(***************************************************************************)
(* Trace validation for C23.  An execution recorded by                     *)
(* harness/record_measure lists every state an integrator returned while   *)
(* returning every internal step: accepted trajectory points (not          *)
(* interpolated) and interpolated report states.  For one Extreme measure  *)
(* (Maximum / Minimum / MaxAbs / MinAbs) each point carries the identity f *)
(* of the operand's value and e of the measure's value among the distinct  *)
(* values of that execution; the Reset line carries the operation and, per *)
(* value identity, its rank and the rank of its absolute value.            *)
(* The measure must report, at an accepted point, the extreme over all     *)
(* accepted points so far, and at an interpolated report the extreme of    *)
(* those and the operand's value there (which does not become part of the  *)
(* trajectory).  Ties keep the earlier value, as the definition of "more   *)
(* extreme" is strict.  The flag ok carries the numeric checks of the      *)
(* other measures at that point (formulas, delay, derivative, integral).   *)
(***************************************************************************)
EXTENDS Integers, Sequences, TLC, Json, IOUtils
Log == ndJsonDeserialize(IOEnv.TRACE)
VARIABLES l, op, rk, ark, best, started
vars == <<l, op, rk, ark, best, started>>
Ev == Log[l]
Better(a, b) == CASE op = "max" -> rk[a] > rk[b] [] op = "min" -> rk[a] < rk[b]
                  [] op = "maxabs" -> ark[a] > ark[b] [] op = "minabs" -> ark[a] < ark[b]
Ext(a, b) == IF Better(a, b) THEN a ELSE b
TReset == Ev.e = "Reset" /\ l' = l + 1 /\ op' = Ev.op /\ rk' = Ev.rk /\ ark' = Ev.ark /\ best' = 1 /\ started' = FALSE
TPt == /\ Ev.e = "Pt" /\ l' = l + 1 /\ Ev.ok = 1 /\ UNCHANGED <<op, rk, ark>>
       /\ IF ~started
          THEN Ev.e2 = Ev.f /\ best' = Ev.f /\ started' = TRUE     \* initialize(): the operand's value
          ELSE IF Ev.interp = 1
               THEN Ev.e2 = Ext(Ev.f, best) /\ UNCHANGED <<best, started>>
               ELSE best' = Ext(Ev.f, best) /\ Ev.e2 = best' /\ UNCHANGED started
Next == l <= Len(Log) /\ (TReset \/ TPt)
Spec == (l = 1 /\ op = "max" /\ rk = <<>> /\ ark = <<>> /\ best = 1 /\ started = FALSE) /\ [][Next]_vars
ASSUME TLCSet(42, 0)
TrackL == IF l > TLCGet(42) THEN TLCSet(42, l) ELSE TRUE
Accepted == PrintT(<<"MAXL", TLCGet(42), Len(Log)>>)
=============================================================================
