SPECIFICATION Spec
INVARIANT TrackL
POSTCONDITION Accepted
CHECK_DEADLOCK FALSE
