------------------------------ MODULE RoundTrip ------------------------------
(***************************************************************************)
(* E5/C32 (round-trip clause): the structures whose text form must read    *)
(* back to the identical value.  A structure is a kind and a sequence of   *)
(* value tokens (indices into the harness's table of boundary values:      *)
(* +-0, denormals, extremes, NaN, +-Inf, 17-digit cases; for Xml: strings  *)
(* needing escapes).  The specification of the round trip is the identity: *)
(* Read(Write(v)) = v for every structure; TLC enumerates the structures.  *)
(***************************************************************************)
EXTENDS Integers, Sequences, TLC, Json
CONSTANTS NTok, MaxLen
Kinds == [double |-> {1}, float |-> {1}, int |-> {1}, bool |-> {1}, complex |-> {2}, Vec3 |-> {3}, Mat22 |-> {4},
          Vector |-> 0..MaxLen, Array |-> 0..MaxLen, Xml |-> 0..MaxLen]
VARIABLES kind, tok
Init == kind \in DOMAIN Kinds /\ tok = <<>>
Next == /\ Len(tok) < (CHOOSE m \in Kinds[kind] : \A n \in Kinds[kind] : m >= n)
        /\ \E t \in 0..(NTok - 1) : tok' = Append(tok, t)
        /\ UNCHANGED kind
Spec == Init /\ [][Next]_<<kind, tok>>
Emit == Len(tok) \in Kinds[kind] => PrintT("RT " \o ToJson([kind |-> kind, tok |-> tok]))
=============================================================================
