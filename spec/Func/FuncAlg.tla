------------------------------- MODULE FuncAlg -------------------------------
(***************************************************************************)
(* E10 / C41, C30, C40: Function objects, step helpers, interpolating      *)
(* splines, polynomials given by their roots, and quadratic maps with      *)
(* their Jacobians, on an exact sub-domain.                                *)
(*                                                                         *)
(* A function of the library is, on this sub-domain, a POLYNOMIAL with     *)
(* integer coefficients (or a polynomial composed with an affine map, or   *)
(* a sinusoid at a lattice phase), and "the derivative" is the formal      *)
(* derivative operator PDeriv applied to the polynomial that gives the     *)
(* VALUE: nothing about derivatives is stated separately, so a derivative  *)
(* the library reports is compared with the true derivative of the value   *)
(* it reports.  Arguments are rationals p/q; every result is an exact      *)
(* fraction [n, d].                                                        *)
(*                                                                         *)
(*   poly    Function::Polynomial: value and derivatives of every order    *)
(*   linear  Function::Linear in several arguments: value, every first     *)
(*           partial, every higher (mixed) partial = 0                     *)
(*   const   Function::Constant                                            *)
(*   sinus   Function::Sinusoid a sin(w t + p) with w t + p on the angle   *)
(*           lattice k*90deg + m*atan2(4,3): the n-th derivative is        *)
(*           a w^n sin(w t + p + n*90deg)  (the spec delivers the rational *)
(*           sine; w^n is applied by the checker because w holds pi)       *)
(*   step    stepUp / stepDown / stepAny and their three derivatives, and  *)
(*           Function::Step(y0, y1, x0, x1) inside, at the ends of and     *)
(*           outside the transition, for x0 < x1 and x0 > x1               *)
(*   spline  interpolating spline of odd degree 2m-1 (natural end          *)
(*           conditions, smoothing parameter 0) through samples of a       *)
(*           polynomial of degree < m: the spline IS that polynomial, so   *)
(*           its value and derivatives are the polynomial's everywhere in  *)
(*           the knot range; through arbitrary data it takes the data      *)
(*           values at the knots; for degree 1 it is the chord             *)
(*                                                                         *)
(*   roots   a polynomial GIVEN as lead * prod (q_i x - z_i), z_i Gaussian  *)
(*           integers: TLC expands the product (Vieta) and checks that     *)
(*           every z_i/q_i makes the expanded polynomial vanish; the root  *)
(*           finder applied to the coefficients must return these roots    *)
(*                                                                         *)
(*   diff    a quadratic map in several variables with its exact Jacobian   *)
(*           and curvatures: what finite differences of order 1 and 2 must  *)
(*           return (exact for affine maps; exact for quadratics with the   *)
(*           central formula; off by exactly h A_jj with the one-sided one) *)
(*                                                                         *)
(* The facts about the step polynomial S(x) = 10x^3 - 15x^4 + 6x^5 that    *)
(* the property names (end values, monotone, twice continuously            *)
(* differentiable when continued by constants) are checked here once, as   *)
(* polynomial identities (ASSUME StepDesign).                              *)
(***************************************************************************)
EXTENDS Integers, Sequences, TLC, Json, IOUtils
Log == ndJsonDeserialize(IOEnv.TRACE)
VARIABLE l

Max(a, b) == IF a > b THEN a ELSE b
RECURSIVE Pow(_, _)
Pow(b, n) == IF n = 0 THEN 1 ELSE b * Pow(b, n - 1)
RECURSIVE SumSeq(_, _)
SumSeq(s, i) == IF i > Len(s) THEN 0 ELSE s[i] + SumSeq(s, i + 1)
SumTo(f(_), a, b) == IF a > b THEN 0 ELSE SumSeq([k \in 1..(b - a + 1) |-> f(a + k - 1)], 1)

\* ---------------------------------------------------------------- polynomials: P[k+1] is the coefficient of x^k
Coef(P, k) == IF k >= 0 /\ k + 1 <= Len(P) THEN P[k + 1] ELSE 0
PAdd(P, Q) == [k \in 1..Max(Len(P), Len(Q)) |-> Coef(P, k - 1) + Coef(Q, k - 1)]
PScale(c, P) == [k \in 1..Len(P) |-> c * P[k]]
PMul(P, Q) == IF Len(P) = 0 \/ Len(Q) = 0 THEN <<>>
              ELSE [k \in 1..(Len(P) + Len(Q) - 1) |-> SumTo(LAMBDA i : Coef(P, i) * Coef(Q, k - 1 - i), 0, k - 1)]
PDeriv(P) == IF Len(P) <= 1 THEN <<>> ELSE [k \in 1..(Len(P) - 1) |-> k * P[k + 1]]
RECURSIVE PDerivN(_, _)
PDerivN(P, n) == IF n = 0 THEN P ELSE PDerivN(PDeriv(P), n - 1)
\* value at p/q as an exact fraction
PEval(P, p, q) == IF Len(P) = 0 THEN [n |-> 0, d |-> 1]
                  ELSE LET D == Len(P) - 1 IN
                       [n |-> SumTo(LAMBDA k : P[k + 1] * Pow(p, k) * Pow(q, D - k), 0, D), d |-> Pow(q, D)]
\* the library's Polynomial takes coefficients in order of DECREASING power
Rev(s) == [k \in 1..Len(s) |-> s[Len(s) + 1 - k]]
FScale(c, f) == [n |-> c * f.n, d |-> f.d]
FDiv(f, c) == IF c < 0 THEN [n |-> -f.n, d |-> f.d * (-c)] ELSE [n |-> f.n, d |-> f.d * c]
FAddInt(f, c) == [n |-> f.n + c * f.d, d |-> f.d]
FInt(c) == [n |-> c, d |-> 1]

\* ---------------------------------------------------------------- the step polynomial
S == <<0, 0, 0, 10, -15, 6>>
XXm1 == <<0, -1, 1>>                    \* x (x - 1)
At(P, x) == PEval(P, x, 1).n
StepDesign ==
  /\ At(S, 0) = 0 /\ At(S, 1) = 1                                          \* end values
  /\ PDeriv(S) = PScale(30, PMul(XXm1, XXm1))                              \* S' = 30 (x(x-1))^2 >= 0: monotone
  /\ At(PDeriv(S), 0) = 0 /\ At(PDeriv(S), 1) = 0                          \* continued by constants: C1 ...
  /\ At(PDerivN(S, 2), 0) = 0 /\ At(PDerivN(S, 2), 1) = 0                  \* ... and C2
  /\ PDerivN(S, 2) = PMul(<<0, 60>>, PAdd(<<1>>, PMul(<<0, 1>>, <<-3, 2>>)))   \* the forms the code uses
  /\ PDerivN(S, 3) = PAdd(<<60>>, PScale(360, XXm1))
ASSUME StepDesign

\* Function::Step(y0, y1, x0, x1) at x = p/q, derivative order k (0..3); integers y0, y1, x0 # x1
StepFn(y0, y1, x0, x1, p, q, k) ==
  LET sg == IF x1 > x0 THEN 1 ELSE -1
      before == (p - x0 * q) * sg <= 0        \* (x - x0) sign <= 0
      after == (p - x1 * q) * sg >= 0
      \* xadj = (x - x0)/(x1 - x0) = (p - x0 q) / (q (x1 - x0)), written with a positive denominator
      P == (p - x0 * q) * sg
      Q == q * (x1 - x0) * sg
      v == PEval(PDerivN(S, k), P, Q)
  IN IF before THEN (IF k = 0 THEN FInt(y0) ELSE FInt(0))
     ELSE IF after THEN (IF k = 0 THEN FInt(y1) ELSE FInt(0))
     ELSE IF k = 0 THEN FAddInt(FScale(y1 - y0, v), y0)
     ELSE FDiv(FScale(y1 - y0, v), Pow(x1 - x0, k))

\* ---------------------------------------------------------------- lattice angles: cos and sin of k*90deg + m*atan2(4,3)
RECURSIVE CPow(_)
CPow(m) == IF m = 0 THEN <<1, 0>> ELSE LET z == CPow(m - 1) IN <<3 * z[1] - 4 * z[2], 4 * z[1] + 3 * z[2]>>
RECURSIVE Turn(_, _)
Turn(z, k) == IF k = 0 THEN z ELSE Turn(<<-z[2], z[1]>>, k - 1)
CS(k, m) == LET am == IF m < 0 THEN -m ELSE m
                z0 == CPow(am)
                z1 == IF m < 0 THEN <<z0[1], -z0[2]>> ELSE z0
                z == Turn(z1, k % 4)
            IN [c |-> [n |-> z[1], d |-> Pow(5, am)], s |-> [n |-> z[2], d |-> Pow(5, am)]]

\* ---------------------------------------------------------------- polynomials from their roots (C30)
\* Complex integers are pairs <<re, im>>; a complex polynomial is a sequence of them, P[k+1] the coefficient of x^k.
\* A polynomial is GIVEN by its leading factor and its linear factors (q x - z), z = a + b i: the roots are z/q with
\* their multiplicities by construction, and expanding the product is Vieta's relations.
ZAdd(x, y) == <<x[1] + y[1], x[2] + y[2]>>
ZMul(x, y) == <<x[1] * y[1] - x[2] * y[2], x[1] * y[2] + x[2] * y[1]>>
ZNeg(x) == <<-x[1], -x[2]>>
ZCoef(P, k) == IF k >= 1 /\ k <= Len(P) THEN P[k] ELSE <<0, 0>>
\* (TLCEval: TLC evaluates function constructors lazily; without it the nested products are recomputed per coefficient)
MulLin(P, q, z) == TLCEval([k \in 1..(Len(P) + 1) |-> ZAdd(ZMul(<<q, 0>>, ZCoef(P, k - 1)), ZNeg(ZMul(z, ZCoef(P, k))))])
RECURSIVE FromFactors(_, _, _)
FromFactors(lead, F, i) == IF i > Len(F) THEN <<lead>>
                           ELSE LET rest == TLCEval(FromFactors(lead, F, i + 1)) IN MulLin(rest, F[i].q, <<F[i].a, F[i].b>>)
RECURSIVE ZPow(_, _)
ZPow(z, k) == IF k = 0 THEN <<1, 0>> ELSE ZMul(z, ZPow(z, k - 1))
RECURSIVE ZSum(_, _)
ZSum(s, i) == IF i > Len(s) THEN <<0, 0>> ELSE ZAdd(s[i], ZSum(s, i + 1))
\* q^n P(z/q) = sum c_k z^k q^(n-k)
ZEvalNum(P, z, q) == LET n == Len(P) - 1 IN ZSum([k \in 1..(n + 1) |-> ZMul(P[k], ZMul(ZPow(z, k - 1), <<Pow(q, n - (k - 1)), 0>>))], 1)
RECURSIVE ZProd(_, _)
ZProd(s, i) == IF i > Len(s) THEN <<1, 0>> ELSE ZMul(s[i], ZProd(s, i + 1))
RootsCase(c) ==
  LET lead == <<c.lead[1], c.lead[2]>>
      P == TLCEval(FromFactors(lead, c.factors, 1))
      n == Len(c.factors)
  IN [re |-> [k \in 1..(n + 1) |-> P[n + 2 - k][1]],          \* decreasing powers, as the library takes them
      im |-> [k \in 1..(n + 1) |-> P[n + 2 - k][2]],
      \* what the construction promises (checked by TLC for every case)
      vanish |-> \A i \in 1..n : ZEvalNum(P, <<c.factors[i].a, c.factors[i].b>>, c.factors[i].q) = <<0, 0>>,
      leading |-> P[n + 1] = ZMul(lead, ZProd([i \in 1..n |-> <<c.factors[i].q, 0>>], 1)),
      constant |-> P[1] = ZMul(lead, ZProd([i \in 1..n |-> <<-c.factors[i].a, -c.factors[i].b>>], 1)),
      realcoef |-> (c.real = 1) => \A k \in 1..(n + 1) : P[k][2] = 0]

\* ---------------------------------------------------------------- quadratic maps and their Jacobians (C40)
\* f_i(x) = sum_jk A[i][j][k] x_j x_k + sum_j B[i][j] x_j + C[i], integer A, B, C, argument x_j = xp[j]/q.
\* The Jacobian is the formal derivative: J_ij = sum_k (A[i][j][k] + A[i][k][j]) x_k + B[i][j]; the second derivative along
\* x_j is 2 A[i][j][j], so a one-sided difference with step h is off by exactly h A[i][j][j] and a central difference is exact.
DiffCase(c) ==
  LET nf == Len(c.B)  ny == Len(c.xp)
      F(i) == SumTo(LAMBDA j : SumTo(LAMBDA k : c.A[i][j][k] * c.xp[j] * c.xp[k], 1, ny), 1, ny)
              + c.q * SumTo(LAMBDA j : c.B[i][j] * c.xp[j], 1, ny) + c.q * c.q * c.C[i]
      Jn(i, j) == SumTo(LAMBDA k : (c.A[i][j][k] + c.A[i][k][j]) * c.xp[k], 1, ny) + c.q * c.B[i][j]
  IN [f |-> [i \in 1..nf |-> [n |-> F(i), d |-> c.q * c.q]],
      J |-> [i \in 1..nf |-> [j \in 1..ny |-> [n |-> Jn(i, j), d |-> c.q]]],
      curv |-> [i \in 1..nf |-> [j \in 1..ny |-> c.A[i][j][j]]],
      \* evaluations of the user function one differentiation costs (given the unperturbed value): one per variable for
      \* the one-sided formula, two for the central one
      calls |-> [forward |-> ny, central |-> 2 * ny]]

\* ---------------------------------------------------------------- cases
Orders(P, p, q, nmax) == [k \in 1..(nmax + 1) |-> PEval(PDerivN(P, k - 1), p, q)]
Case(c) ==
  CASE c.kind = "poly" ->       \* coef: decreasing powers; x = p/q; orders 0..nmax
         [v |-> Orders(Rev(c.coef), c.p, c.q, c.nmax)]
    [] c.kind = "linear" ->     \* coef: n argument coefficients then the constant; x[i] = xp[i]/q; derivs: lists of argument indices (0-based)
         LET n == Len(c.coef) - 1 IN
         [v |-> [n |-> SumTo(LAMBDA i : c.coef[i] * c.xp[i], 1, n) + c.coef[n + 1] * c.q, d |-> c.q],
          dv |-> [j \in 1..Len(c.derivs) |-> IF Len(c.derivs[j]) = 1 THEN FInt(c.coef[c.derivs[j][1] + 1]) ELSE FInt(0)]]
    [] c.kind = "const" -> [v |-> FInt(c.value), dv |-> [j \in 1..Len(c.derivs) |-> FInt(0)]]
    [] c.kind = "sinus" ->      \* a sin(angle + n 90deg) for n = 0..nmax (the factor w^n is the checker's)
         [v |-> [k \in 1..(c.nmax + 1) |-> FScale(c.a, CS(c.ang.k + (k - 1), c.ang.m).s)]]
    [] c.kind = "stepup" ->     \* stepUp and its derivatives at p/q in [0,1]
         [v |-> Orders(S, c.p, c.q, 3)]
    [] c.kind = "stepfn" ->     \* Function::Step / stepAny
         [v |-> [k \in 1..4 |-> StepFn(c.y0, c.y1, c.x0, c.x1, c.p, c.q, k - 1)]]
    [] c.kind = "spline" ->     \* samples of the polynomial `coef` (decreasing powers) at integer knots; evaluated at p/q
         [v |-> Orders(Rev(c.coef), c.p, c.q, c.nmax),
          knots |-> [j \in 1..Len(c.knots) |-> PEval(Rev(c.coef), c.knots[j], 1).n]]
    [] c.kind = "chord" ->      \* degree-1 spline through (knots[j], y[j]) at p/q inside the segment i (1-based) : value and slope
         LET i == c.seg  x0 == c.knots[i]  x1 == c.knots[i + 1]  y0 == c.y[i]  y1 == c.y[i + 1] IN
         [v |-> [n |-> y0 * c.q * (x1 - x0) + (y1 - y0) * (c.p - x0 * c.q), d |-> c.q * (x1 - x0)],
          slope |-> [n |-> y1 - y0, d |-> x1 - x0]]

    [] c.kind = "roots" -> RootsCase(c)
    [] c.kind = "diff" -> DiffCase(c)
    [] c.kind = "interp" -> [knots |-> c.y]      \* an interpolating spline takes the data values at the knots

AInit == l = 1
ANext == l <= Len(Log) /\ l' = l + 1
ASpec == AInit /\ [][ANext]_l
EmitAlg == l > 1 => LET r == Case(Log[l - 1]) IN
                      /\ PrintT("OUT " \o ToJson([i |-> l - 1, r |-> r]))
                      /\ (Log[l - 1].kind = "roots" => r.vanish /\ r.leading /\ r.constant /\ r.realcoef)
=============================================================================
