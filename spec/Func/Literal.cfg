SPECIFICATION Spec
CONSTANTS
  MaxLen = 3
  Alphabet <- QuickAlphabet
INVARIANT Emit
CHECK_DEADLOCK FALSE
