------------------------------- MODULE Literal -------------------------------
(***************************************************************************)
(* E5/C32 (recogniser clause): which strings convert to a value of type T. *)
(* String.h: conversion succeeds exactly for strings that consist of       *)
(* optional white space, one literal of the requested type, optional white *)
(* space, and nothing else; non-finite floating-point values are written   *)
(* nan, inf, infinity (any case, inf with an optional sign), bools also    *)
(* true / false (any case).                                                *)
(*                                                                         *)
(* Strings are sequences over a small alphabet of SYMBOLS, each standing   *)
(* for a piece of text.  The recognisers are deterministic automata        *)
(* written as recursive scans.  TLC enumerates every string up to MaxLen   *)
(* and prints it with the verdict for each type; the conformance harness   *)
(* feeds each to String::tryConvertTo<T>.                                  *)
(***************************************************************************)
EXTENDS Integers, Sequences, TLC, Json

CONSTANTS MaxLen, Alphabet
\* symbol classes
WS    == {" ", "\t"}
Digit == {"0", "1", "7"}
Sign  == {"+", "-"}

Trim(s) ==
  LET n == Len(s)
      lead == IF \A i \in 1..n : s[i] \in WS THEN n ELSE (CHOOSE i \in 0..n : (\A j \in 1..i : s[j] \in WS) /\ s[i + 1] \notin WS)
      rest == SubSeq(s, lead + 1, n)
      m == Len(rest)
      keep == IF m = 0 THEN 0 ELSE CHOOSE i \in 0..m : (\A j \in (i + 1)..m : rest[j] \in WS) /\ (i = 0 \/ rest[i] \notin WS)
  IN SubSeq(rest, 1, keep)

AllDigits(s) == Len(s) > 0 /\ \A i \in 1..Len(s) : s[i] \in Digit
\* optional sign then digits
IsInt(s) == LET b == IF Len(s) > 0 /\ s[1] \in Sign THEN SubSeq(s, 2, Len(s)) ELSE s IN AllDigits(b)
\* digits [. digits*] | . digits
IsMantissa(s) ==
  \/ AllDigits(s)
  \/ \E k \in 1..Len(s) : s[k] = "." /\ (\A i \in 1..Len(s) : i # k => s[i] \in Digit) /\ Len(s) > 1
IsDecimal(s) ==    \* [sign] mantissa [e [sign] digits]
  LET b == IF Len(s) > 0 /\ s[1] \in Sign THEN SubSeq(s, 2, Len(s)) ELSE s IN
  \/ IsMantissa(b)
  \/ \E k \in 2..(Len(b) - 1) : b[k] = "e" /\ IsMantissa(SubSeq(b, 1, k - 1)) /\ IsInt(SubSeq(b, k + 1, Len(b)))
IsNonFinite(s) ==
  \/ s = <<"nan">>
  \/ s \in {<<"inf">>, <<"Infinity">>}
  \/ (Len(s) = 2 /\ s[1] \in Sign /\ s[2] \in {"inf", "Infinity"})
IsFloat(s) == IsDecimal(s) \/ IsNonFinite(s)
\* bools: true / false (any case) and integer literals denoting 0 or 1
Denotes01(d) == AllDigits(d) /\ d[Len(d)] \in {"0", "1"} /\ \A i \in 1..(Len(d) - 1) : d[i] = "0"
IsBool(s) == s \in {<<"true">>, <<"FALSE">>}
             \/ Denotes01(s)
             \/ (Len(s) > 1 /\ s[1] = "+" /\ Denotes01(Tail(s)))
             \/ (Len(s) > 1 /\ s[1] = "-" /\ Denotes01(Tail(s)) /\ s[Len(s)] = "0")     \* -0 is 0, -1 is not a bool

Accepts(type, s) == LET c == Trim(s) IN
   CASE type = "int" -> IsInt(c) [] type = "double" -> IsFloat(c) [] type = "float" -> IsFloat(c) [] type = "bool" -> IsBool(c)

\* class of the value, for accepted floating-point strings
FClass(s) == LET c == Trim(s) IN
   IF c = <<"nan">> THEN "nan"
   ELSE IF IsNonFinite(c) THEN (IF c[1] = "-" THEN "-inf" ELSE "+inf")
   ELSE "finite"

RECURSIVE Text(_)
Text(s) == IF s = <<>> THEN "" ELSE s[1] \o Text(Tail(s))

VARIABLE str
Init == str = <<>>
Next == Len(str) < MaxLen /\ \E a \in Alphabet : str' = Append(str, a)
Spec == Init /\ [][Next]_str
Types == {"int", "double", "float", "bool"}
Emit == PrintT("LIT " \o ToJson([s |-> Text(str), acc |-> [t \in Types |-> Accepts(t, str)],
                                 cls |-> IF Accepts("double", str) THEN FClass(str) ELSE ""]))
QuickAlphabet == {" ", "+", "-", "1", "0", ".", "e", "x", "nan", "inf", "true", "FALSE"}
FullAlphabet == QuickAlphabet \cup {"\t", "7", "Infinity"}
=============================================================================
