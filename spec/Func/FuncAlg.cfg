SPECIFICATION ASpec
INVARIANT EmitAlg
CHECK_DEADLOCK FALSE
