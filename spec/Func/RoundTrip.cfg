SPECIFICATION Spec
CONSTANTS
  NTok = 16
  MaxLen = 2
INVARIANT Emit
CHECK_DEADLOCK FALSE
