------------------------------ MODULE LatticeLin ------------------------------
(***************************************************************************)
(* E7c / C24: matrices with an exactly known singular value / eigenvalue   *)
(* decomposition, over the numbers n/5^e of LatticeMech.                   *)
(*                                                                         *)
(* A matrix is GIVEN by its factors:  A = U S V'  with U (m x m) and V     *)
(* (n x n) direct sums of lattice rotations (3x3 products of elementary    *)
(* rotations, 2x2 plane rotations, 1x1 signs) with permuted rows -- so     *)
(* they are exactly orthogonal, which TLC checks for every case -- and S   *)
(* the m x n diagonal matrix of chosen non-negative integers.  By          *)
(* construction the singular values of A are those integers, its rank is   *)
(* the number of non-zero ones, its pseudo-inverse is V S^+ U' and the     *)
(* minimum-norm least-squares solution of A x = b is V S^+ U' b.  With     *)
(* V = U and signed integers D in place of S, A = U D U' is symmetric with *)
(* eigenvalues D and the columns of U as eigenvectors (positive D: A is    *)
(* symmetric positive definite).  TLC expands the products exactly and     *)
(* checks the identities the construction promises (U'U = I, V'V = I,      *)
(* A v_k = s_k u_k, symmetry); the library gets the expanded matrix.       *)
(***************************************************************************)
EXTENDS LatticeMech, Json, IOUtils
Log == ndJsonDeserialize(IOEnv.TRACE)
VARIABLE l

RECURSIVE SumR(_, _)
SumR(s, i) == IF i > Len(s) THEN Zero ELSE RAdd(s[i], SumR(s, i + 1))
\* general matrices: sequences of rows of numbers
GMul(A, B, inner, nc) == TLCEval([i \in 1..Len(A) |-> TLCEval([j \in 1..nc |-> SumR([k \in 1..inner |-> RMul(A[i][k], B[k][j])], 1)])])
GT(A, nr, nc) == TLCEval([j \in 1..nc |-> [i \in 1..nr |-> A[i][j]]])
GIdent(n) == [i \in 1..n |-> [j \in 1..n |-> IF i = j THEN One ELSE Zero]]

\* one orthogonal block
RECURSIVE RotSeq(_, _, _)
RotSeq(ax, ang, i) == IF i > Len(ax) THEN Ident ELSE MM(RotA(ax[i], ang[i]), RotSeq(ax, ang, i + 1))
Blk(b) == CASE b.t = "rot3" -> RotSeq(b.ax, b.ang, 1)
            [] b.t = "rot2" -> LET cs == CS(b.ang.k, b.ang.m) IN << <<cs[1], RNeg(cs[2])>>, <<cs[2], cs[1]>> >>
            [] b.t = "one" -> << <<R(b.s)>> >>
Size(b) == IF b.t = "rot3" THEN 3 ELSE IF b.t = "rot2" THEN 2 ELSE 1
RECURSIVE Off(_, _)
Off(B, k) == IF k = 1 THEN 0 ELSE Off(B, k - 1) + Size(B[k - 1])
Total(B) == Off(B, Len(B) + 1)
\* direct sum of the blocks, rows permuted by perm
Ortho(B, perm) ==
  LET NN == Total(B)
      Ms == TLCEval([k \in 1..Len(B) |-> Blk(B[k])])
      Of == TLCEval([k \in 1..Len(B) |-> Off(B, k)])
      BI(i) == CHOOSE k \in 1..Len(B) : Of[k] < i /\ i <= Of[k] + Size(B[k])
      D == TLCEval([i \in 1..NN |-> LET bi == BI(i) IN [j \in 1..NN |-> IF Of[bi] < j /\ j <= Of[bi] + Size(B[bi]) THEN Ms[bi][i - Of[bi]][j - Of[bi]] ELSE Zero]])
  IN TLCEval([i \in 1..NN |-> D[perm[i]]])
Min(a, b) == IF a < b THEN a ELSE b

Case(c) ==
  LET U == Ortho(c.U, c.pU)
      V == IF c.kind = "lin" THEN Ortho(c.V, c.pV) ELSE U
      m == Len(U)  n == Len(V)  r == Min(m, n)
      \* A[i][j] = sum_k U[i][k] s_k V[j][k]
      A == TLCEval([i \in 1..m |-> TLCEval([j \in 1..n |-> SumR([k \in 1..r |-> RMul(RMul(U[i][k], R(c.s[k])), V[j][k])], 1)])])
      AV == GMul(A, V, n, n)       \* columns: A v_k
  IN [A |-> A, U |-> U, V |-> V,
      orthoU |-> GMul(GT(U, m, m), U, m, m) = GIdent(m),
      orthoV |-> GMul(GT(V, n, n), V, n, n) = GIdent(n),
      \* A v_k = s_k u_k for k <= r, and A v_k = 0 beyond
      pairs |-> \A k \in 1..n : \A i \in 1..m : AV[i][k] = (IF k <= r THEN RMul(R(c.s[k]), U[i][k]) ELSE Zero),
      sym |-> (c.kind # "lin") => (\A i \in 1..m : \A j \in 1..n : A[i][j] = A[j][i])]

AInit == l = 1 /\ desc = <<>> /\ q = <<>> /\ u = <<>>
ANext == l <= Len(Log) /\ l' = l + 1 /\ UNCHANGED <<desc, q, u>>
ASpec == AInit /\ [][ANext]_<<desc, q, u, l>>
EmitLin == l > 1 => LET r == Case(Log[l - 1]) IN
                      /\ PrintT("OUT " \o ToJson([i |-> l - 1, r |-> [A |-> r.A, U |-> r.U, V |-> r.V]]))
                      /\ r.orthoU /\ r.orthoV /\ r.pairs /\ r.sym
=============================================================================
