----------------------------- MODULE LatticeEval -----------------------------
(* TLC as evaluator of LatticeMech: for every configuration in the input file (ndjson, env TRACE:   *)
(* tree description, lattice coordinates q, integer speeds u) the exact kinematics, Jacobian-based   *)
(* mass matrix, energies, momenta and inverse-dynamics bias are printed, and the identities of the  *)
(* spec (symmetry, KE = u'Mu/2, positive diagonal, proper rotations) are checked.                   *)
EXTENDS LatticeMech, Json, IOUtils
Log == ndJsonDeserialize(IOEnv.TRACE)
VARIABLE l
IV(v) == VI(v[1], v[2], v[3])
Load(c) == /\ desc' = [i \in 1..Len(c.desc) |->
                         [parent |-> c.desc[i].parent, type |-> c.desc[i].type, rev |-> c.desc[i].rev = 1,
                          RF |-> c.desc[i].RF, RM |-> c.desc[i].RM,
                          pF |-> IV(c.desc[i].pF), pM |-> IV(c.desc[i].pM), com |-> IV(c.desc[i].com),
                          mass |-> c.desc[i].mass, ic |-> c.desc[i].ic, opt |-> c.desc[i].opt]]
           /\ q' = c.q /\ u' = c.u
EInit == l = 1 /\ desc = <<>> /\ q = <<>> /\ u = <<>>
ENext == l <= Len(Log) /\ l' = l + 1 /\ Load(Log[l])
ESpec == EInit /\ [][ENext]_<<desc, q, u, l>>
\* evaluated as an invariant (unprimed context, so TLC caches the LET definitions)
EmitAndCheck == l > 1 => LET r == Eval(Log[l - 1].dyn = 1, Log[l - 1].ud, Log[l - 1].F, Log[l - 1].q2, Log[l - 1].u2, Log[l - 1].tasks, Log[l - 1].cons, Log[l - 1].felems, Log[l - 1].felems2) IN
                           /\ PrintT("OUT " \o ToJson([i |-> l - 1, r |-> r]))
                           /\ r.sym /\ r.keIsUMU /\ r.diagPos /\ r.proper /\ r.kaneLinear /\ r.rootBalance /\ r.aerrAffine /\ r.forceLaws
=============================================================================
