------------------------------ MODULE LatticeAlg ------------------------------
(***************************************************************************)
(* E7b / C27, C29: rotations, transforms, inertias and spatial algebra on  *)
(* the exact lattice of LatticeMech (numbers n/5^e, angles k*90deg +       *)
(* m*atan2(4,3), rational unit quaternions and rational unit axes).        *)
(* TLC evaluates, for every case in the input file, what the DEFINITIONS   *)
(* give: products of elementary rotations for body- and space-fixed angle  *)
(* sequences, the quaternion and Rodrigues formulas, composition and       *)
(* inversion of rotations and transforms, parallel-axis shifts and         *)
(* re-expression of inertias, spatial inertia times spatial velocity, and  *)
(* the validity conditions of an inertia matrix.                           *)
(***************************************************************************)
EXTENDS LatticeMech, Json, IOUtils
Log == ndJsonDeserialize(IOEnv.TRACE)
VARIABLE l

IVec(v) == VI(v[1], v[2], v[3])
\* a rotation given as an angle sequence: [bs, ax, ang]: bs = 0 body-fixed (R = R1 R2 R3), 1 space-fixed (R = R3 R2 R1)
RECURSIVE SeqRot(_, _, _, _)
SeqRot(bs, ax, ang, i) == IF i > Len(ax) THEN Ident
                          ELSE IF bs = 0 THEN MM(RotA(ax[i], ang[i]), SeqRot(bs, ax, ang, i + 1))
                          ELSE MM(SeqRot(bs, ax, ang, i + 1), RotA(ax[i], ang[i]))
RotOf(r) == SeqRot(r.bs, r.ax, r.ang, 1)
\* a rational unit axis [n, e]: n = integer numerators, each over 5^e
AxisOf(a) == << Red(a.n[1], a.e), Red(a.n[2], a.e), Red(a.n[3], a.e) >>
\* Rodrigues: R = c I + s [a]x + (1 - c) a a'
Rodrigues(ang, a) ==
  LET cs == CS(ang.k, ang.m)  c == cs[1]  s == cs[2]  omc == RSub(One, c)
      E(i, j) == RAdd(RAdd(IF i = j THEN c ELSE Zero, RMul(omc, RMul(a[i], a[j]))),
                      RMul(s, CASE <<i, j>> = <<1, 2>> -> RNeg(a[3]) [] <<i, j>> = <<2, 1>> -> a[3]
                                   [] <<i, j>> = <<1, 3>> -> a[2] [] <<i, j>> = <<3, 1>> -> RNeg(a[2])
                                   [] <<i, j>> = <<2, 3>> -> RNeg(a[1]) [] <<i, j>> = <<3, 2>> -> a[1] [] OTHER -> Zero))
  IN << <<E(1, 1), E(1, 2), E(1, 3)>>, <<E(2, 1), E(2, 2), E(2, 3)>>, <<E(3, 1), E(3, 2), E(3, 3)>> >>
Col(Rm, j) == << Rm[1][j], Rm[2][j], Rm[3][j] >>
AxisIdx(a) == IF a = "x" THEN 1 ELSE IF a = "y" THEN 2 ELSE 3
\* inertia algebra
Sym(Mx) == Mx
ShiftFromCom(Ic, m, c) == MAdd(Ic, PointInertia(m, c))
Reexp(Rm, D) == MM(MM(Rm, D), MT(Rm))          \* inertia given in B (as D), expressed in G with R_GB = Rm
Abs(x) == IF x < 0 THEN -x ELSE x
ValidInertia(d, p) ==        \* moments d = <<xx, yy, zz>>, products p = <<xy, xz, yz>> (integers)
  /\ d[1] >= 0 /\ d[2] >= 0 /\ d[3] >= 0
  /\ d[1] + d[2] >= d[3] /\ d[1] + d[3] >= d[2] /\ d[2] + d[3] >= d[1]
  /\ d[1] >= Abs(2 * p[3]) /\ d[2] >= Abs(2 * p[2]) /\ d[3] >= Abs(2 * p[1])

\* ---- angular velocity <-> coordinate derivatives (C28)
\* body-fixed x-y-z angles q, R = Rx Ry Rz.  The angular velocity of B in P for coordinate rates qd is, by composition of the three
\* elementary rotations, w_P = qd1 x + qd2 (Rx y) + qd3 (Rx Ry z)  (expressed in P)  and  w_B = R' w_P  (expressed in B):
\* the matrices Wp, Wb with those columns are what the library calls N^-1; their time derivatives follow from the rotating axes.
ColsToMat(c1, c2, c3) == << <<c1[1], c2[1], c3[1]>>, <<c1[2], c2[2], c3[2]>>, <<c1[3], c2[3], c3[3]>> >>
NXYZ(c) ==
  LET Rx == RotA("x", c.q[1])  Ry == RotA("y", c.q[2])  Rz == RotA("z", c.q[3])
      Rxy == MM(Rx, Ry)  Rm == MM(Rxy, Rz)
      qd == IVec(c.qd)  qdd == IVec(c.qdd)
      \* parent frame: axes x, y1 = Rx y, z2 = Rx Ry z; y1 turns with qd1 x, z2 with qd1 x + qd2 y1
      y1 == MV(Rx, Y1)  z2 == MV(Rxy, Z1)
      w1 == VScale(qd[1], X1)  w2 == VScale(qd[2], y1)
      Wp == ColsToMat(X1, y1, z2)
      Wpd == ColsToMat(VZero, Cross(w1, y1), Cross(VAdd(w1, w2), z2))
      wP == MV(Wp, qd)
      wPd == VAdd(MV(Wp, qdd), MV(Wpd, qd))
      \* body frame: w_B = R' w_P, columns R' x, R' y1, R' z2 = (Ry Rz)' x, Rz' y, z
      Wb == MM(MT(Rm), Wp)
      wB == MV(MT(Rm), wP)
      \* d/dt (R' v) = R' (vdot - w_P x v)
      Wbd == MM(MT(Rm), ColsToMat(VSub(VZero, Cross(wP, X1)), VSub(Cross(w1, y1), Cross(wP, y1)), VSub(Cross(VAdd(w1, w2), z2), Cross(wP, z2))))
      wBd == MV(MT(Rm), wPd)          \* (the derivative of w_B's measure numbers: R'(wPd - wP x wP) = R' wPd)
  IN [Wp |-> Wp, Wb |-> Wb, Wpd |-> Wpd, Wbd |-> Wbd, wP |-> wP, wB |-> wB, wPd |-> wPd, wBd |-> wBd,
      \* identity of the spec: R' maps the derivative correctly -- wBd computed from Wb, Wbd equals R' wPd
      consistent |-> VAdd(MV(Wb, qdd), MV(Wbd, qd)) = wBd]
\* quaternions (w, x, y, z), angular velocity w_P in the parent frame: qdot = (0, w_P) (x) q / 2; the spec works with 2 qdot and 4 qddot
QMul(a, b) == << RSub(RSub(RSub(RMul(a[1], b[1]), RMul(a[2], b[2])), RMul(a[3], b[3])), RMul(a[4], b[4])),
                 RAdd(RAdd(RMul(a[1], b[2]), RMul(a[2], b[1])), RSub(RMul(a[3], b[4]), RMul(a[4], b[3]))),
                 RAdd(RAdd(RMul(a[1], b[3]), RMul(a[3], b[1])), RSub(RMul(a[4], b[2]), RMul(a[2], b[4]))),
                 RAdd(RAdd(RMul(a[1], b[4]), RMul(a[4], b[1])), RSub(RMul(a[2], b[3]), RMul(a[3], b[2]))) >>
NQuat(c) ==
  LET qq == << QC(c.q[1]), QC(c.q[2]), QC(c.q[3]), QC(c.q[4]) >>
      w == IVec(c.w)  wd == IVec(c.wd)
      W4(v) == << Zero, v[1], v[2], v[3] >>
      qd2 == QMul(W4(w), qq)                                        \* 2 qdot
      qdd4 == [i \in 1..4 |-> RAdd(RMul(R(2), QMul(W4(wd), qq)[i]), QMul(W4(w), qd2)[i])]    \* 4 qddot = 2 (0,wd)(x)q + (0,w)(x)(2 qdot)
      \* the rotation matrix is quadratic in q: its derivative by the product rule, with qdot = qd2 / 2 (so this is 2 Rdot / 2 = Rdot)
      Rm == QuatRot(qq[1], qq[2], qq[3], qq[4])
      Dd(a, b, ad, bd) == RNeg(RMul(R(2), RAdd(RMul(a, ad), RMul(b, bd))))          \* d/dt [1 - 2(a^2 + b^2)] with 2 qdot: -2 (a ad + b bd)
      Td(a, b, ad, bd) == RAdd(RMul(ad, b), RMul(a, bd))                            \* d/dt [2 a b] with 2 qdot: ad b + a bd
      ww == qq[1]  x == qq[2]  y == qq[3]  z == qq[4]  wwd == qd2[1]  xd == qd2[2]  yd == qd2[3]  zd == qd2[4]
      Rd == << << Dd(y, z, yd, zd), RSub(Td(x, y, xd, yd), Td(ww, z, wwd, zd)), RAdd(Td(x, z, xd, zd), Td(ww, y, wwd, yd)) >>,
               << RAdd(Td(x, y, xd, yd), Td(ww, z, wwd, zd)), Dd(x, z, xd, zd), RSub(Td(y, z, yd, zd), Td(ww, x, wwd, xd)) >>,
               << RSub(Td(x, z, xd, zd), Td(ww, y, wwd, yd)), RAdd(Td(y, z, yd, zd), Td(ww, x, wwd, xd)), Dd(x, y, xd, yd) >> >>
      WxR == ColsToMat(Cross(w, Col(Rm, 1)), Cross(w, Col(Rm, 2)), Cross(w, Col(Rm, 3)))
  IN [qd2 |-> qd2, qdd4 |-> qdd4,
      \* identity of the spec: this qdot IS the time derivative of the coordinates of a rotation turning with w_P:  Rdot = w_P x R
      isDerivative |-> Rd = WxR]

Case(c) ==
  CASE c.kind = "nxyz" -> NXYZ(c)
    [] c.kind = "nquat" -> NQuat(c)
    [] c.kind = "seq" -> [R |-> RotOf(c.r)]
    [] c.kind = "quat" -> [R |-> QuatRot(QC(c.q[1]), QC(c.q[2]), QC(c.q[3]), QC(c.q[4]))]
    [] c.kind = "angleaxis" -> [R |-> Rodrigues(c.ang, AxisOf(c.axis))]
    [] c.kind = "twoaxes" ->      \* axis i along column i of R; axis j "approximately" along column j plus a multiple of column i
         LET Rm == RotOf(c.r) IN
         [R |-> Rm, u |-> Col(Rm, AxisIdx(c.ai)), v |-> VAdd(Col(Rm, AxisIdx(c.aj)), VScale(R(c.mix), Col(Rm, AxisIdx(c.ai))))]
    [] c.kind = "compose" ->
         LET R1 == RotOf(c.r1)  R2 == RotOf(c.r2)  p1 == IVec(c.p1)  p2 == IVec(c.p2)  v == IVec(c.v) IN
         [R12 |-> MM(R1, R2), Ri12 |-> MM(MT(R1), R2), R1i2 |-> MM(R1, MT(R2)),
          R1v |-> MV(R1, v), Ri1v |-> MV(MT(R1), v),
          X12R |-> MM(R1, R2), X12p |-> VAdd(p1, MV(R1, p2)),
          XiR |-> MT(R1), Xip |-> VNeg(MV(MT(R1), p1)),
          X1v |-> VAdd(p1, MV(R1, v)), Xi1v |-> MV(MT(R1), VSub(v, p1)),
          proper |-> MM(MM(R1, R2), MT(MM(R1, R2))) = Ident]
    [] c.kind = "inertia" ->
         LET Rm == RotOf(c.r)  D == Diag(c.ic[1], c.ic[2], c.ic[3])  cc == IVec(c.com)  m == R(c.mass)
             Io == ShiftFromCom(D, m, cc)                 \* about the body origin, body frame
             IoG == Reexp(Rm, Io)                         \* the same, expressed in G
             w == IVec(c.w)  v == IVec(c.v)
             \* spatial inertia about the origin times spatial velocity: [Io w + m c x v ; m (v + w x c)]
             Mw == VAdd(MV(Io, w), VScale(m, Cross(cc, v)))
             Mv == VScale(m, VAdd(v, Cross(w, cc)))
             \* shift of the whole mass properties to a new origin at s (vector from old origin to new origin)
             s == IVec(c.s)
             Ios == ShiftFromCom(D, m, VSub(cc, s))
         IN [Io |-> Io, Ic |-> D, IoG |-> IoG, IcG |-> Reexp(Rm, D), Mw |-> Mw, Mv |-> Mv,
             ke2 |-> RAdd(Dot(w, Mw), Dot(v, Mv)), Ios |-> Ios, coms |-> VSub(cc, s),
             comG |-> MV(Rm, cc)]
    [] c.kind = "valid" -> [ok |-> ValidInertia(c.d, c.p)]

AInit == l = 1 /\ desc = <<>> /\ q = <<>> /\ u = <<>>
ANext == l <= Len(Log) /\ l' = l + 1 /\ UNCHANGED <<desc, q, u>>
ASpec == AInit /\ [][ANext]_<<desc, q, u, l>>
EmitAlg == l > 1 => LET r == Case(Log[l - 1]) IN
                      /\ PrintT("OUT " \o ToJson([i |-> l - 1, r |-> r]))
                      /\ (Log[l - 1].kind = "nxyz" => r.consistent)
                      /\ (Log[l - 1].kind = "nquat" => r.isDerivative)
=============================================================================
