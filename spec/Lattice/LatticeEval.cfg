SPECIFICATION ESpec
INVARIANTS EmitAndCheck
CHECK_DEADLOCK FALSE
