SPECIFICATION ASpec
INVARIANT EmitLin
CHECK_DEADLOCK FALSE
