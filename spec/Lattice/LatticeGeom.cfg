SPECIFICATION ASpec
INVARIANT EmitGeom
CHECK_DEADLOCK FALSE
