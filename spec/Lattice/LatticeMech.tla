----------------------------- MODULE LatticeMech -----------------------------
(***************************************************************************)
(* E7: exact rigid-body mechanics on a finite rational lattice.            *)
(*                                                                         *)
(* Numbers are n / 5^e (records [n, e], kept reduced).  Angles are         *)
(* k*90deg + m*theta with theta = atan2(4,3): cos theta = 3/5,             *)
(* sin theta = 4/5, so every rotation matrix has entries in Z[1/5];        *)
(* quaternions are rational unit quaternions with denominators 5^e.        *)
(* Everything below is finite sums and products -- exact.                  *)
(*                                                                         *)
(* Source of the definitions: the DOCUMENTATION of the mobilizers          *)
(* (MobilizedBody_*.h): X_FM(q) and the meaning of u for each type, and    *)
(* the meaning of MobilizedBody::Reverse; rigid-body kinematics of a tree; *)
(* the system Jacobian column by column; M = sum J' M_b J; kinetic energy, *)
(* momentum, mass centre, inertia about the Ground origin; inverse         *)
(* dynamics by Kane's equations.                                           *)
(***************************************************************************)
EXTENDS Integers, Sequences, TLC

\* ---------------------------------------------------------------- numbers
RECURSIVE Pow5(_)
Pow5(k) == IF k = 0 THEN 1 ELSE 5 * Pow5(k - 1)
RECURSIVE Red(_, _)
Red(n, e) == IF n = 0 THEN [n |-> 0, e |-> 0]
             ELSE IF e > 0 /\ n % 5 = 0 THEN Red(n \div 5, e - 1) ELSE [n |-> n, e |-> e]
R(n) == [n |-> n, e |-> 0]
Zero == R(0)  One == R(1)
RAdd(a, b) == LET m == IF a.e > b.e THEN a.e ELSE b.e
              IN Red(a.n * Pow5(m - a.e) + b.n * Pow5(m - b.e), m)
RNeg(a) == [n |-> -a.n, e |-> a.e]
RSub(a, b) == RAdd(a, RNeg(b))
RMul(a, b) == Red(a.n * b.n, a.e + b.e)

\* ---------------------------------------------------------------- vectors, matrices (3, 3x3)
V3(x, y, z) == <<x, y, z>>
VI(x, y, z) == <<R(x), R(y), R(z)>>
VZero == VI(0, 0, 0)
VAdd(a, b) == << RAdd(a[1], b[1]), RAdd(a[2], b[2]), RAdd(a[3], b[3]) >>
VSub(a, b) == << RSub(a[1], b[1]), RSub(a[2], b[2]), RSub(a[3], b[3]) >>
VNeg(a) == << RNeg(a[1]), RNeg(a[2]), RNeg(a[3]) >>
VScale(s, a) == << RMul(s, a[1]), RMul(s, a[2]), RMul(s, a[3]) >>
Dot(a, b) == RAdd(RAdd(RMul(a[1], b[1]), RMul(a[2], b[2])), RMul(a[3], b[3]))
Cross(a, b) == << RSub(RMul(a[2], b[3]), RMul(a[3], b[2])),
                  RSub(RMul(a[3], b[1]), RMul(a[1], b[3])),
                  RSub(RMul(a[1], b[2]), RMul(a[2], b[1])) >>
MV(m, v) == << Dot(m[1], v), Dot(m[2], v), Dot(m[3], v) >>                       \* m = sequence of rows
MT(m) == << <<m[1][1], m[2][1], m[3][1]>>, <<m[1][2], m[2][2], m[3][2]>>, <<m[1][3], m[2][3], m[3][3]>> >>
MM(a, b) == LET bt == MT(b)  Row(i) == << Dot(a[i], bt[1]), Dot(a[i], bt[2]), Dot(a[i], bt[3]) >> IN << Row(1), Row(2), Row(3) >>
MAdd(a, b) == << VAdd(a[1], b[1]), VAdd(a[2], b[2]), VAdd(a[3], b[3]) >>
Ident == << VI(1, 0, 0), VI(0, 1, 0), VI(0, 0, 1) >>
Diag(a, b, c) == << VI(a, 0, 0), VI(0, b, 0), VI(0, 0, c) >>
\* m (|c|^2 I - c c')
PointInertia(m, c) == LET cc == Dot(c, c) IN
   LET E(i, j) == RMul(m, RSub(IF i = j THEN cc ELSE Zero, RMul(c[i], c[j]))) IN
   << <<E(1, 1), E(1, 2), E(1, 3)>>, <<E(2, 1), E(2, 2), E(2, 3)>>, <<E(3, 1), E(3, 2), E(3, 3)>> >>

\* ---------------------------------------------------------------- lattice angles
\* (cos, sin) of k*90 + m*theta
RECURSIVE CS(_, _)
CS(k, m) ==
  IF m > 0 THEN LET p == CS(k, m - 1) IN        \* multiply by (3 + 4i)/5
       << RSub(RMul(p[1], [n |-> 3, e |-> 1]), RMul(p[2], [n |-> 4, e |-> 1])),
          RAdd(RMul(p[1], [n |-> 4, e |-> 1]), RMul(p[2], [n |-> 3, e |-> 1])) >>
  ELSE IF m < 0 THEN LET p == CS(k, m + 1) IN   \* multiply by (3 - 4i)/5
       << RAdd(RMul(p[1], [n |-> 3, e |-> 1]), RMul(p[2], [n |-> 4, e |-> 1])),
          RSub(RMul(p[2], [n |-> 3, e |-> 1]), RMul(p[1], [n |-> 4, e |-> 1])) >>
  ELSE LET kk == k % 4 IN
       IF kk = 0 THEN <<One, Zero>> ELSE IF kk = 1 THEN <<Zero, One>>
       ELSE IF kk = 2 THEN <<R(-1), Zero>> ELSE <<Zero, R(-1)>>
Rot(axis, k, m) ==
  LET c == CS(k, m)[1]  s == CS(k, m)[2]  ms == RNeg(s) IN
  CASE axis = "x" -> << V3(One, Zero, Zero), V3(Zero, c, ms), V3(Zero, s, c) >>
    [] axis = "y" -> << V3(c, Zero, s), V3(Zero, One, Zero), V3(ms, Zero, c) >>
    [] axis = "z" -> << V3(c, ms, Zero), V3(s, c, Zero), V3(Zero, Zero, One) >>
RotA(axis, a) == Rot(axis, a.k, a.m)
\* a frame rotation: a record [ax, k, m] or the identity
FrameRot(f) == IF f.ax = "i" THEN Ident ELSE Rot(f.ax, f.k, f.m)
\* rotation matrix of the unit quaternion (w, x, y, z)
QuatRot(w, x, y, z) ==
  LET two == R(2)
      T(a, b) == RMul(two, RMul(a, b))
      D(a, b) == RSub(One, RMul(two, RAdd(RMul(a, a), RMul(b, b))))
  IN << V3(D(y, z), RSub(T(x, y), T(w, z)), RAdd(T(x, z), T(w, y))),
        V3(RAdd(T(x, y), T(w, z)), D(x, z), RSub(T(y, z), T(w, x))),
        V3(RSub(T(x, z), T(w, y)), RAdd(T(y, z), T(w, x)), D(x, y)) >>

\* ---------------------------------------------------------------- mobilizer definitions (from the documentation)
\* A coordinate is a record [k, m]: an angle k*90deg + m*theta, a length k, or a quaternion
\* component k / 5^m.  Speeds are integers.  Def(t, qq, uu) is the motion of the "outboard" frame
\* relative to the "inboard" one, expressed in the inboard frame: rotation R, origin p, angular
\* velocity w and origin velocity v for the speeds uu, and angular/linear acceleration aw, av for
\* speeds uu and speed derivatives ud.
Lin(a) == R(a.k)
QC(a) == Red(a.k, a.m)
X1 == VI(1, 0, 0)  Y1 == VI(0, 1, 0)  Z1 == VI(0, 0, 1)
NQ(t) == CASE t = "pin" -> 1 [] t = "slider" -> 1 [] t = "weld" -> 0 [] t = "universal" -> 2 [] t = "cylinder" -> 2
           [] t = "bendstretch" -> 2 [] t = "planar" -> 3 [] t = "translation" -> 3 [] t = "gimbal" -> 3
           [] t = "bushing" -> 6 [] t = "ball" -> 4 [] t = "free" -> 7 [] t = "balle" -> 3 [] t = "freee" -> 6 [] t = "euler5" -> 5 [] t = "spherical" -> 3 [] t = "ellipsoid" -> 4 [] t = "ellipsoide" -> 3
           [] t = "lineori" -> 4 [] t = "lineorie" -> 3 [] t = "freeline" -> 7 [] t = "freelinee" -> 6
NU(t) == CASE t = "ball" -> 3 [] t = "free" -> 6 [] t = "ellipsoid" -> 3 [] t \in {"lineori", "lineorie"} -> 2 [] t \in {"freeline", "freelinee"} -> 5 [] OTHER -> NQ(t)

\* opt: the mobilizer's construction options (SphericalCoords offsets / signs / radial axis, Ellipsoid radii); unused otherwise
Def(t, qq, uu, ud, opt) ==
  LET U(i) == R(uu[i])  A(i) == R(ud[i])
      Nothing == [R |-> Ident, p |-> VZero, w |-> VZero, v |-> VZero, aw |-> VZero, av |-> VZero]
  IN
  CASE t = "weld" -> Nothing
    [] t = "pin" -> [Nothing EXCEPT !.R = RotA("z", qq[1]), !.w = VScale(U(1), Z1), !.aw = VScale(A(1), Z1)]
    [] t = "slider" -> [Nothing EXCEPT !.p = VScale(Lin(qq[1]), X1), !.v = VScale(U(1), X1), !.av = VScale(A(1), X1)]
    [] t = "cylinder" -> [Nothing EXCEPT !.R = RotA("z", qq[1]), !.p = VScale(Lin(qq[2]), Z1),
                                         !.w = VScale(U(1), Z1), !.v = VScale(U(2), Z1),
                                         !.aw = VScale(A(1), Z1), !.av = VScale(A(2), Z1)]
    [] t = "planar" -> [Nothing EXCEPT !.R = RotA("z", qq[1]), !.p = V3(Lin(qq[2]), Lin(qq[3]), Zero),
                                       !.w = VScale(U(1), Z1), !.v = V3(U(2), U(3), Zero),
                                       !.aw = VScale(A(1), Z1), !.av = V3(A(2), A(3), Zero)]
    [] t = "translation" -> [Nothing EXCEPT !.p = V3(Lin(qq[1]), Lin(qq[2]), Lin(qq[3])), !.v = V3(U(1), U(2), U(3)),
                                            !.av = V3(A(1), A(2), A(3))]
    [] t = "bendstretch" ->
         \* rotate about z by q1, then slide along the rotated x by q2: p = Rz (q2, 0, 0)
         LET Rz == RotA("z", qq[1])  xm == MV(Rz, X1)  w == VScale(U(1), Z1)  p == VScale(Lin(qq[2]), xm)
             aw == VScale(A(1), Z1)
             \* v = w x p + u2 xm ;  a = aw x p + w x (w x p) + 2 u2 (w x xm) + ud2 xm
         IN [R |-> Rz, p |-> p, w |-> w, v |-> VAdd(Cross(w, p), VScale(U(2), xm)), aw |-> aw,
             av |-> VAdd(VAdd(Cross(aw, p), Cross(w, Cross(w, p))),
                         VAdd(VScale(RMul(R(2), U(2)), Cross(w, xm)), VScale(A(2), xm)))]
    [] t = "universal" ->
         \* Rx(q1) Ry(q2); u = qdot: w = u1 x + u2 (Rx y); aw = ud1 x + ud2 (Rx y) + u1 x  x  u2 (Rx y)
         LET Rx == RotA("x", qq[1])  y1 == MV(Rx, Y1)
             w1 == VScale(U(1), X1)  w2 == VScale(U(2), y1)
         IN [Nothing EXCEPT !.R = MM(Rx, RotA("y", qq[2])), !.w = VAdd(w1, w2),
                            !.aw = VAdd(VAdd(VScale(A(1), X1), VScale(A(2), y1)), Cross(w1, w2))]
    [] t \in {"gimbal", "bushing", "euler5"} ->
         \* body-fixed x-y-z: R = Rx Ry Rz; u = qdot
         LET Rx == RotA("x", qq[1])  Rxy == MM(Rx, RotA("y", qq[2]))
             y1 == MV(Rx, Y1)  z2 == MV(Rxy, Z1)
             w1 == VScale(U(1), X1)  w2 == VScale(U(2), y1)  w3 == VScale(U(3), z2)
             \* d/dt y1 = w1 x y1 ; d/dt z2 = (w1 + w2) x z2
             aw == VAdd(VAdd(VAdd(VScale(A(1), X1), VScale(A(2), y1)), VScale(A(3), z2)),
                        VAdd(Cross(w1, w2), Cross(VAdd(w1, w2), w3)))
             tr == t = "bushing"
             t5 == t = "euler5"       \* (user-defined only) three angles and x, y translation: five mobilities
         IN [R |-> MM(Rxy, RotA("z", qq[3])),
             p |-> IF tr THEN V3(Lin(qq[4]), Lin(qq[5]), Lin(qq[6])) ELSE IF t5 THEN V3(Lin(qq[4]), Lin(qq[5]), Zero) ELSE VZero,
             w |-> VAdd(VAdd(w1, w2), w3),
             v |-> IF tr THEN V3(U(4), U(5), U(6)) ELSE IF t5 THEN V3(U(4), U(5), Zero) ELSE VZero,
             aw |-> aw,
             av |-> IF tr THEN V3(A(4), A(5), A(6)) ELSE IF t5 THEN V3(A(4), A(5), Zero) ELSE VZero]
    [] t = "spherical" ->
         \* azimuth = s0 q1 + az0 about Fz, zenith = s1 q2 + ze0 about the rotated My, then radius = s2 q3 along Mz or Mx; u = qdot
         LET s0 == IF opt.azNeg = 1 THEN -1 ELSE 1  s1 == IF opt.zeNeg = 1 THEN -1 ELSE 1  s2 == IF opt.rNeg = 1 THEN -1 ELSE 1
             az == [k |-> s0 * qq[1].k + opt.azOff.k, m |-> s0 * qq[1].m + opt.azOff.m]
             ze == [k |-> s1 * qq[2].k + opt.zeOff.k, m |-> s1 * qq[2].m + opt.zeOff.m]
             Rz == RotA("z", az)  Rm == MM(Rz, RotA("y", ze))
             y1 == MV(Rz, Y1)
             e == MV(Rm, IF opt.axis = "x" THEN X1 ELSE Z1)
             tt == R(s2 * qq[3].k)  td == R(s2 * uu[3])  tdd == R(s2 * ud[3])
             w1 == VScale(R(s0 * uu[1]), Z1)  w2 == VScale(R(s1 * uu[2]), y1)
             w == VAdd(w1, w2)
             aw == VAdd(VAdd(VScale(R(s0 * ud[1]), Z1), VScale(R(s1 * ud[2]), y1)), Cross(w1, w2))
             we == Cross(w, e)
         IN [R |-> Rm, p |-> VScale(tt, e), w |-> w, v |-> VAdd(VScale(td, e), VScale(tt, we)), aw |-> aw,
             av |-> VAdd(VAdd(VScale(tdd, e), VScale(RMul(R(2), td), we)), VScale(tt, VAdd(Cross(aw, e), Cross(w, we))))]
    [] t \in {"ellipsoid", "ellipsoide"} ->
         \* orientation as for Ball (quaternion, or x-y-z angles with the Euler option), speeds u = w_FM in F; the M origin rides on the
         \* ellipsoid with semi-axes opt.radii fixed in F at p = (a n_x, b n_y, c n_z), n = M's z axis in F
         LET Rm == IF t = "ellipsoid" THEN QuatRot(QC(qq[1]), QC(qq[2]), QC(qq[3]), QC(qq[4]))
                   ELSE MM(MM(RotA("x", qq[1]), RotA("y", qq[2])), RotA("z", qq[3]))
             S(v) == << RMul(R(opt.radii[1]), v[1]), RMul(R(opt.radii[2]), v[2]), RMul(R(opt.radii[3]), v[3]) >>
             n == MV(Rm, Z1)
             w == V3(U(1), U(2), U(3))  aw == V3(A(1), A(2), A(3))
             nd == Cross(w, n)
         IN [R |-> Rm, p |-> S(n), w |-> w, v |-> S(nd), aw |-> aw, av |-> S(VAdd(Cross(aw, n), Cross(w, nd)))]
    [] t \in {"lineori", "lineorie", "freeline", "freelinee"} ->
         \* orientation as for Ball (quaternion, or x-y-z angles with the Euler option); only two rotational speeds: the x and y measure
         \* numbers of w_FM EXPRESSED IN M (no spin about Mz); FreeLine adds the translation and v_FM in F
         LET eul == t \in {"lineorie", "freelinee"}  fr == t \in {"freeline", "freelinee"}
             Rm == IF eul THEN MM(MM(RotA("x", qq[1]), RotA("y", qq[2])), RotA("z", qq[3]))
                   ELSE QuatRot(QC(qq[1]), QC(qq[2]), QC(qq[3]), QC(qq[4]))
             n0 == IF eul THEN 3 ELSE 4
         IN [R |-> Rm,
             p |-> IF fr THEN V3(Lin(qq[n0 + 1]), Lin(qq[n0 + 2]), Lin(qq[n0 + 3])) ELSE VZero,
             w |-> MV(Rm, V3(U(1), U(2), Zero)),
             v |-> IF fr THEN V3(U(3), U(4), U(5)) ELSE VZero,
             aw |-> MV(Rm, V3(A(1), A(2), Zero)),       \* d/dt [R (u1,u2,0)] = R (ud1,ud2,0) + w x w
             av |-> IF fr THEN V3(A(3), A(4), A(5)) ELSE VZero]
    [] t \in {"balle", "freee"} ->
         \* Ball / Free with the "use Euler angles" modelling option: orientation by body-fixed x-y-z angles as for a Gimbal,
         \* but the speeds keep their meaning: u = w_FM in F (and v_FM in F)
         LET fr == t = "freee" IN
         [R |-> MM(MM(RotA("x", qq[1]), RotA("y", qq[2])), RotA("z", qq[3])),
          p |-> IF fr THEN V3(Lin(qq[4]), Lin(qq[5]), Lin(qq[6])) ELSE VZero,
          w |-> V3(U(1), U(2), U(3)), v |-> IF fr THEN V3(U(4), U(5), U(6)) ELSE VZero,
          aw |-> V3(A(1), A(2), A(3)), av |-> IF fr THEN V3(A(4), A(5), A(6)) ELSE VZero]
    [] t \in {"ball", "free"} ->
         \* quaternion; u = w_FM in F (and v_FM in F)
         LET fr == t = "free" IN
         [R |-> QuatRot(QC(qq[1]), QC(qq[2]), QC(qq[3]), QC(qq[4])),
          p |-> IF fr THEN V3(Lin(qq[5]), Lin(qq[6]), Lin(qq[7])) ELSE VZero,
          w |-> V3(U(1), U(2), U(3)), v |-> IF fr THEN V3(U(4), U(5), U(6)) ELSE VZero,
          aw |-> V3(A(1), A(2), A(3)), av |-> IF fr THEN V3(A(4), A(5), A(6)) ELSE VZero]

\* Reverse: the definition above describes F relative to M (expressed in M); the motion of M in F is its inverse.
\*  R_FM = R_MF';  p_FM = -R_FM p_MF;  w_FM = -R_FM w_MF;  v_FM = w_FM x p_FM - R_FM v_MF
\*  aw_FM = -R_FM aw_MF (the derivative of a vector rotating with its own angular velocity needs no cross term)
\*  av_FM = aw_FM x p_FM + w_FM x v_FM - w_FM x (R_FM v_MF) - R_FM av_MF
Rel(t, rev, qq, uu, ud, opt) ==
  LET D == Def(t, qq, uu, ud, opt) IN
  IF ~rev THEN D
  ELSE LET Rfm == MT(D.R)
           p == VNeg(MV(Rfm, D.p))
           w == VNeg(MV(Rfm, D.w))
           rv == MV(Rfm, D.v)
           v == VSub(Cross(w, p), rv)
           aw == VNeg(MV(Rfm, D.aw))
           av == VSub(VSub(VAdd(Cross(aw, p), Cross(w, v)), Cross(w, rv)), MV(Rfm, D.av))
       IN [R |-> Rfm, p |-> p, w |-> w, v |-> v, aw |-> aw, av |-> av]

\* ---------------------------------------------------------------- the model
\* A tree of bodies 1..N (desc[i].parent < i, 0 = Ground).
\* desc[i] = [parent, type, rev, RF, pF, RM, pM, mass, com, ic]   (ic = central inertia diagonal, body frame)
\* state: q[i] = sequence of coordinates, u[i] = sequence of integer speeds
VARIABLES desc, q, u
N == Len(desc)
ZeroU == TLCEval([i \in 1..N |-> [k \in 1..NU(desc[i].type) |-> 0]])

Ground == [R |-> Ident, p |-> VZero, RF |-> Ident, pF |-> VZero, pM |-> VZero]
\* pose of body i given the poses X of the bodies before it
Pose(i, X, qq) ==
  LET P == IF desc[i].parent = 0 THEN Ground ELSE X[desc[i].parent]
      RGF == MM(P.R, FrameRot(desc[i].RF))
      pGF == VAdd(P.p, MV(P.R, desc[i].pF))
      D == Rel(desc[i].type, desc[i].rev, qq[i], ZeroU[i], ZeroU[i], desc[i].opt)
      RGM == MM(RGF, D.R)
      pGM == VAdd(pGF, MV(RGF, D.p))
      RGB == MM(RGM, MT(FrameRot(desc[i].RM)))
      pGB == VSub(pGM, MV(RGB, desc[i].pM))
  IN [R |-> RGB, p |-> pGB, RF |-> RGF, pF |-> pGF, pM |-> pGM]
RECURSIVE BuildX(_, _, _)
BuildX(i, X, qq) == IF i > N THEN X ELSE BuildX(i + 1, Append(X, Pose(i, X, qq)), qq)
PosesQ(qq) == BuildX(1, <<>>, qq)
Poses == PosesQ(q)

\* spatial velocity and acceleration of body i's frame for speeds uu and speed derivatives ud
GroundV == [w |-> VZero, v |-> VZero, aw |-> VZero, a |-> VZero]
Vel(i, X, V, qq, uu, ud) ==
  LET P == IF desc[i].parent = 0 THEN GroundV ELSE V[desc[i].parent]
      XP == IF desc[i].parent = 0 THEN Ground ELSE X[desc[i].parent]
      Xi == X[i]
      D == Rel(desc[i].type, desc[i].rev, qq[i], uu[i], ud[i], desc[i].opt)
      \* F origin (fixed in the parent)
      rF == VSub(Xi.pF, XP.p)
      vF == VAdd(P.v, Cross(P.w, rF))
      aF == VAdd(P.a, VAdd(Cross(P.aw, rF), Cross(P.w, Cross(P.w, rF))))
      \* M relative to F, re-expressed in Ground
      wr == MV(Xi.RF, D.w)   vr == MV(Xi.RF, D.v)   awr == MV(Xi.RF, D.aw)   avr == MV(Xi.RF, D.av)
      rM == VSub(Xi.pM, Xi.pF)
      wM == VAdd(P.w, wr)
      awM == VAdd(P.aw, VAdd(awr, Cross(P.w, wr)))
      vM == VAdd(VAdd(vF, Cross(P.w, rM)), vr)
      aM == VAdd(VAdd(aF, VAdd(Cross(P.aw, rM), Cross(P.w, Cross(P.w, rM)))),
                 VAdd(VScale(R(2), Cross(P.w, vr)), avr))
      \* body origin (fixed in M)
      rB == VSub(Xi.p, Xi.pM)
  IN [w |-> wM, v |-> VAdd(vM, Cross(wM, rB)), aw |-> awM,
      a |-> VAdd(aM, VAdd(Cross(awM, rB), Cross(wM, Cross(wM, rB))))]
RECURSIVE BuildV(_, _, _, _, _, _)
BuildV(i, X, V, qq, uu, ud) == IF i > N THEN V ELSE BuildV(i + 1, X, Append(V, Vel(i, X, V, qq, uu, ud)), qq, uu, ud)
VelsQ(X, qq, uu, ud) == BuildV(1, X, <<>>, qq, uu, ud)
Vels(X, uu, ud) == VelsQ(X, q, uu, ud)

\* the mobilities, flattened in body order
RECURSIVE DofsFrom(_)
DofsFrom(i) == IF i > N THEN <<>> ELSE TLCEval([k \in 1..NU(desc[i].type) |-> <<i, k>>]) \o DofsFrom(i + 1)
Dofs == TLCEval(DofsFrom(1))
UnitU(d) == TLCEval([i \in 1..N |-> [k \in 1..NU(desc[i].type) |-> IF <<i, k>> = d THEN 1 ELSE 0]])

\* mass properties in Ground
ComOff(i, X) == MV(X[i].R, desc[i].com)
ComG(i, X) == VAdd(X[i].p, ComOff(i, X))
IcG(i, X) == MM(MM(X[i].R, Diag(desc[i].ic[1], desc[i].ic[2], desc[i].ic[3])), MT(X[i].R))
\* per-body velocity data: angular velocity and mass-centre velocity/acceleration
BodyV(X, V) == TLCEval([b \in 1..N |-> LET c == ComOff(b, X) IN
                  [w |-> V[b].w, v |-> V[b].v, vc |-> VAdd(V[b].v, Cross(V[b].w, c)), aw |-> V[b].aw,
                   ac |-> VAdd(V[b].a, VAdd(Cross(V[b].aw, c), Cross(V[b].w, Cross(V[b].w, c))))]])
RECURSIVE SumRS(_, _)
SumRS(s, n) == IF n = 0 THEN Zero ELSE RAdd(SumRS(s, n - 1), s[n])
RECURSIVE SumVS(_, _)
SumVS(s, n) == IF n = 0 THEN VZero ELSE VAdd(SumVS(s, n - 1), s[n])
RECURSIVE SumMS(_, _)
SumMS(s, n) == IF n = 0 THEN Diag(0, 0, 0) ELSE MAdd(SumMS(s, n - 1), s[n])
Mass(b) == R(desc[b].mass)

\* bilinear form of the bodies' inertias: sum_b m vc1.vc2 + w1 . Ic w2
Bilin(X, B1, B2) == SumRS(TLCEval([b \in 1..N |-> RAdd(RMul(Mass(b), Dot(B1[b].vc, B2[b].vc)), Dot(B1[b].w, MV(IcG(b, X), B2[b].w)))]), N)

\* spatial forces ("wrenches") [t, f]: torque about a stated point and force
WZero == [t |-> VZero, f |-> VZero]
WAdd(a, b) == [t |-> VAdd(a.t, b.t), f |-> VAdd(a.f, b.f)]
WSub(a, b) == [t |-> VSub(a.t, b.t), f |-> VSub(a.f, b.f)]
\* the same wrench about a point displaced by r from the current reference point: t' = t - r x f
WShift(a, r) == [t |-> VSub(a.t, Cross(r, a.f)), f |-> a.f]
RECURSIVE SumKids(_, _, _)
SumKids(i, c, acc) == IF c > N THEN WZero
                      ELSE IF desc[c].parent = i THEN WAdd(acc[c], SumKids(i, c + 1, acc)) ELSE SumKids(i, c + 1, acc)
\* mobilizer reactions about the Ground origin, tip to base: R_b = Hdot_b - Applied_b + sum of the children's R
RECURSIVE BuildR(_, _, _, _)
BuildR(i, Hd, App, acc) == IF i = 0 THEN acc
                           ELSE BuildR(i - 1, Hd, App, [acc EXCEPT ![i] = WAdd(WSub(Hd[i], App[i]), SumKids(i, i + 1, acc))])

\* everything the harness compares, computed once per configuration.
\* dyn: evaluate the dynamics quantities too; ud: integer speed derivatives per mobility (same shape as u);
\* F: applied spatial force per body, in Ground, torque and force at the body origin (integers);
\* q2, u2: a second set of coordinates and speeds per mobilizer -- the targets of the fitting operations;
\* tasks: a list of task frames [b, st, f, T]: body (0 = Ground, repeats allowed), station in the body frame, and an
\* integer force f / torque T applied there (in Ground) for the transpose operators;
\* cons: constraints [type, b1, b2, ...] whose errors are polynomial in the kinematics:
\*   "pip"    PointInPlane: plane fixed in body b1 (normal n, height h), point st of body b2:  perr = n . (p_S - p_B1o) - h
\*   "cang"   ConstantAngle: axis a1 fixed in b1, axis a2 fixed in b2:                          perr = a1 . a2 - cosine
\*   "cspeed" ConstantSpeed: speed k of mobilizer b1 held at s (nonholonomic):                 verr = u - s
\*   "rod"    Rod: distance between station st of b1 and station st2 of b2 held at d: its errors need a square root,
\*            r = |p|, perr = r - d, verr = (p . pdot) / r, aerr = (p . pddot + pdot . pdot) / r - (p . pdot)^2 / r^3;
\*            the spec delivers the exact polynomial ingredients p.p, p.pdot, p.pddot + pdot.pdot in the perr / verr / aerr slots
\* velocity and acceleration errors are the time derivatives, written out with the bodies' w, v, aw, a;
\* felems / felems2: force elements with their DOCUMENTED laws (first parameter set; second set applied to the same State):
\*   "gravity"  m g at every non-excluded body's mass centre, PE = - sum m g . p_com        "ugravity" the same, no exclusions
\*   "cforce"   constant force f (in G) at a body station          "ctorque" constant torque (in G) on a body
\*   "mcf"      constant force on one mobility                     "mls" -k (q - q0) on a translational coordinate, PE = k (q - q0)^2 / 2
\*   "mld"      -c u on one mobility                               "gdamper" -c u on every mobility
\*   "tpls" / "tpld" / "tpcf"  TwoPointLinearSpring / Damper / ConstantForce between station st of b1 and st2 of b2 (either may be
\*            Ground): equal and opposite forces along the line between the points -- f d on point 1, -f d on point 2, d the unit
\*            vector from 1 to 2, f = k (x - x0), c xdot, -force respectively.  The unit vector needs a square root: the spec delivers the
\*            exact ingredients (p, p . pdot, the two lever arms) and the checker finishes; these elements are left out of the exact sums
\*   "lbush"  LinearBushing across a Bushing mobilizer with the same frames: generalized force -(k_i q_i + c_i qdot_i) on that mobilizer's six
\*            mobilities, PE = sum k_i q_i^2 / 2; three of the q are angles (irrational): the checker evaluates the law from the lattice coordinates
\*   "cable"  CableSpring along a CablePath through points fixed on bodies (origin, via points -- some disabled --, termination): a
\*            uniform tension acts along every straight segment between consecutive active points; the spec delivers the exact
\*            position, velocity and lever arm of every point, the checker finishes lengths and unit vectors (square roots)
\* an element with on = 0 is disabled and contributes nothing
Eval(dyn, ud, F, q2, u2, tasks, cons, felems, felems2) ==
  LET X == TLCEval(Poses)
      Vu == TLCEval(Vels(X, u, ZeroU))
      Bu == BodyV(X, Vu)
      ND == Len(Dofs)
      Cols == TLCEval([j \in 1..ND |-> BodyV(X, Vels(X, UnitU(Dofs[j]), ZeroU))])
      M == TLCEval([j \in 1..ND |-> TLCEval([k \in 1..ND |-> Bilin(X, Cols[j], Cols[k])])])
      uf == TLCEval([j \in 1..ND |-> R(u[Dofs[j][1]][Dofs[j][2]])])
      uMu == SumRS(TLCEval([j \in 1..ND |-> SumRS(TLCEval([k \in 1..ND |-> RMul(RMul(uf[j], uf[k]), M[j][k])]), ND)]), ND)
      ke2 == Bilin(X, Bu, Bu)
      \* Kane: generalized inertia force of a motion B: f_j = sum_b vc_j . m ac + w_j . (Ic aw + w x Ic w)
      Fstar(B) == TLCEval([b \in 1..N |-> [f |-> VScale(Mass(b), B[b].ac),
                                t |-> VAdd(MV(IcG(b, X), B[b].aw), Cross(B[b].w, MV(IcG(b, X), B[b].w)))]])
      Kane(FS) == TLCEval([j \in 1..ND |-> SumRS(TLCEval([b \in 1..N |-> RAdd(Dot(Cols[j][b].vc, FS[b].f), Dot(Cols[j][b].w, FS[b].t))]), N)])
      bias == Kane(Fstar(Bu))                      \* udot = 0
      \* the motion with the given speed derivatives, the applied forces and what balances them
      Va == TLCEval(Vels(X, u, ud))
      Ba == BodyV(X, Va)
      FSa == Fstar(Ba)
      Fb == TLCEval([b \in 1..N |-> [t |-> VI(F[b].t[1], F[b].t[2], F[b].t[3]), f |-> VI(F[b].f[1], F[b].f[2], F[b].f[3])]])
      JtF == TLCEval([j \in 1..ND |-> SumRS(TLCEval([b \in 1..N |-> RAdd(Dot(Cols[j][b].w, Fb[b].t), Dot(Cols[j][b].v, Fb[b].f))]), N)])
      MudPlusBias == Kane(FSa)
      tau == TLCEval([j \in 1..ND |-> RSub(MudPlusBias[j], JtF[j])])      \* mobility forces that produce udot = ud
      \* rate of change of each body's momentum about the Ground origin, and the applied forces about it
      Hd == TLCEval([b \in 1..N |-> [f |-> FSa[b].f, t |-> VAdd(FSa[b].t, Cross(ComG(b, X), FSa[b].f))]])
      App == TLCEval([b \in 1..N |-> [f |-> Fb[b].f, t |-> VAdd(Fb[b].t, Cross(X[b].p, Fb[b].f))]])
      RO == TLCEval(BuildR(N, Hd, App, [b \in 1..N |-> WZero]))
      \* body-level accessors with Ground as body 0
      BodyK(K, b) == IF b = 0 THEN GroundV ELSE K[b]
      BodyR(b) == IF b = 0 THEN Ident ELSE X[b].R
      BodyP(b) == IF b = 0 THEN VZero ELSE X[b].p
      \* ---- force elements
      IV3(v) == VI(v[1], v[2], v[3])
      \* (su: the speeds at which the velocity-dependent laws, the power and dPE/dt are evaluated)
      ForceEval(FL, su, XX, qq) ==
        LET NF == Len(FL)
            Vs == TLCEval(VelsQ(XX, qq, su, ZeroU))
            Bs == BodyV(XX, Vs)
            BR(b) == IF b = 0 THEN Ident ELSE XX[b].R
            BP(b) == IF b = 0 THEN VZero ELSE XX[b].p
            sf == TLCEval([j \in 1..ND |-> R(su[Dofs[j][1]][Dofs[j][2]])])
            On(e) == e.on = 1
            Grav(e, b) == (e.type = "ugravity") \/ (e.type = "gravity" /\ e.ex[b] = 0)
            BodyW(e, b) ==       \* the element's spatial force on body b at the body origin
              IF ~On(e) THEN WZero
              ELSE IF e.type \in {"gravity", "ugravity"} THEN
                     (IF Grav(e, b) THEN LET f == VScale(Mass(b), IV3(e.g)) IN [t |-> Cross(ComOff(b, XX), f), f |-> f] ELSE WZero)
              ELSE IF e.type = "cforce" /\ e.b = b THEN [t |-> Cross(MV(XX[b].R, IV3(e.st)), IV3(e.f)), f |-> IV3(e.f)]
              ELSE IF e.type = "ctorque" /\ e.b = b THEN [t |-> IV3(e.f), f |-> VZero]
              ELSE WZero
            MobF(e, j) ==        \* the element's generalized force on the flattened mobility j
              LET d == Dofs[j] IN
              IF ~On(e) THEN Zero
              ELSE IF e.type = "gdamper" THEN R(-(e.c * su[d[1]][d[2]]))
              ELSE IF e.type = "lbush" THEN Zero           \* (its angles are irrational: finished by the checker from the lattice coordinates)
              ELSE IF e.type \in {"mcf", "mls", "mld"} /\ e.b = d[1] /\ e.k = d[2] THEN
                     (IF e.type = "mcf" THEN R(e.c) ELSE IF e.type = "mld" THEN R(-(e.c * su[d[1]][d[2]])) ELSE R(-(e.c * (qq[d[1]][e.k].k - e.q0))))
              ELSE Zero
            PE2(e) ==            \* twice the potential energy
              IF ~On(e) THEN Zero
              ELSE IF e.type \in {"gravity", "ugravity"} THEN
                     SumRS(TLCEval([b \in 1..N |-> IF Grav(e, b) THEN RMul(R(-2), RMul(Mass(b), Dot(IV3(e.g), ComG(b, XX)))) ELSE Zero]), N)
              ELSE IF e.type = "mls" THEN LET dq == qq[e.b][e.k].k - e.q0 IN R(e.c * dq * dq)
              ELSE Zero
            DPE(e) ==            \* d/dt of the potential energy
              IF ~On(e) THEN Zero
              ELSE IF e.type \in {"gravity", "ugravity"} THEN
                     SumRS(TLCEval([b \in 1..N |-> IF Grav(e, b) THEN RNeg(RMul(Mass(b), Dot(IV3(e.g), Bs[b].vc))) ELSE Zero]), N)
              ELSE IF e.type = "mls" THEN R(e.c * (qq[e.b][e.k].k - e.q0) * su[e.b][e.k])
              ELSE Zero
            Power(e) == RAdd(SumRS(TLCEval([b \in 1..N |-> LET W == BodyW(e, b) IN RAdd(Dot(W.t, Vs[b].w), Dot(W.f, Vs[b].v))]), N),
                             SumRS(TLCEval([j \in 1..ND |-> RMul(MobF(e, j), sf[j])]), ND))
            Cons(e) == e.type \in {"gravity", "ugravity", "mls"}
            Diss(e) == e.type \in {"mld", "gdamper"}
            TwoPt(e) ==
              IF e.type \in {"tpls", "tpld", "tpcf"} THEN
                LET B1 == BodyK(Vs, e.b)  B2 == BodyK(Vs, e.b2)
                    r1 == MV(BR(e.b), IV3(e.st))  r2 == MV(BR(e.b2), IV3(e.st2))
                    pp == VSub(VAdd(BP(e.b2), r2), VAdd(BP(e.b), r1))
                    pd == VSub(VAdd(B2.v, Cross(B2.w, r2)), VAdd(B1.v, Cross(B1.w, r1)))
                IN [p |-> pp, pv |-> Dot(pp, pd), r1 |-> r1, r2 |-> r2, o1 |-> BP(e.b), o2 |-> BP(e.b2),
                    v1 |-> VAdd(B1.v, Cross(B1.w, r1)), v2 |-> VAdd(B2.v, Cross(B2.w, r2))]
              ELSE [p |-> VZero, pv |-> Zero, r1 |-> VZero, r2 |-> VZero, o1 |-> VZero, o2 |-> VZero, v1 |-> VZero, v2 |-> VZero]
            CablePts(e) ==
              IF e.type = "cable" THEN
                [i \in 1..Len(e.pts) |-> LET pt == e.pts[i]  B == BodyK(Vs, pt.b)  r == MV(BR(pt.b), IV3(pt.st)) IN
                                          [p |-> VAdd(BP(pt.b), r), v |-> VAdd(B.v, Cross(B.w, r)), r |-> r]]
              ELSE <<>>
        IN [twopt |-> [k \in 1..NF |-> TwoPt(FL[k])],
            cable |-> [k \in 1..NF |-> CablePts(FL[k])],
            body |-> [b \in 1..N |-> LET W == [k \in 1..NF |-> BodyW(FL[k], b)] IN
                                      [t |-> SumVS(TLCEval([k \in 1..NF |-> W[k].t]), NF), f |-> SumVS(TLCEval([k \in 1..NF |-> W[k].f]), NF)]],
            mob |-> [j \in 1..ND |-> SumRS(TLCEval([k \in 1..NF |-> MobF(FL[k], j)]), NF)],
            pe2 |-> SumRS(TLCEval([k \in 1..NF |-> PE2(FL[k])]), NF),
            power |-> [k \in 1..NF |-> Power(FL[k])],
            \* C12 on the spec itself: an element with a potential delivers power -dPE/dt; a damper never delivers positive power
            powerIsMinusDPE |-> \A k \in 1..NF : Cons(FL[k]) => Power(FL[k]) = RNeg(DPE(FL[k])),
            dampersDissipate |-> \A k \in 1..NF : Diss(FL[k]) => Power(FL[k]).n <= 0]
      XQ2 == TLCEval(PosesQ(q2))
      FZ1 == ForceEval(felems, u, X, q)
      FZ2 == ForceEval(felems2, u, X, q)
      FZ3 == ForceEval(felems2, u2, X, q)      \* the same State after a u-only change (second parameter set still in force)
      FZ4 == ForceEval(felems2, u2, XQ2, q2)   \* ... and then after a q-only change (time and parameters untouched)
      \* ---- constraints
      NC == Len(cons)
      AxisV(a) == << Red(a.n[1], a.e), Red(a.n[2], a.e), Red(a.n[3], a.e) >>
      \* errors of constraint c for body kinematics K (records w, v, aw, a per body), speeds uu and speed derivatives udd
      ConsErr(c, K, uu, udd) ==
        CASE c.type = "pip" ->
               LET B == BodyK(K, c.b1)  Fk == BodyK(K, c.b2)
                   n == MV(BodyR(c.b1), AxisV(c.n))
                   rS == MV(BodyR(c.b2), VI(c.st[1], c.st[2], c.st[3]))           \* station offset from the follower's origin
                   r == VSub(VAdd(BodyP(c.b2), rS), BodyP(c.b1))
                   vS == VAdd(Fk.v, Cross(Fk.w, rS))
                   aS == VAdd(Fk.a, VAdd(Cross(Fk.aw, rS), Cross(Fk.w, Cross(Fk.w, rS))))
                   nd == Cross(B.w, n)
                   ndd == VAdd(Cross(B.aw, n), Cross(B.w, nd))
                   rd == VSub(vS, B.v)
                   rdd == VSub(aS, B.a)
               IN [perr |-> RSub(Dot(n, r), R(c.h)),
                   verr |-> RAdd(Dot(nd, r), Dot(n, rd)),
                   aerr |-> RAdd(RAdd(Dot(ndd, r), RMul(R(2), Dot(nd, rd))), Dot(n, rdd))]
          [] c.type = "cang" ->
               LET B == BodyK(K, c.b1)  Fk == BodyK(K, c.b2)
                   b == MV(BodyR(c.b1), AxisV(c.a1))  f == MV(BodyR(c.b2), AxisV(c.a2))
                   bd == Cross(B.w, b)  fd == Cross(Fk.w, f)
                   bdd == VAdd(Cross(B.aw, b), Cross(B.w, bd))  fdd == VAdd(Cross(Fk.aw, f), Cross(Fk.w, fd))
               IN [perr |-> RSub(Dot(b, f), Red(c.cosn, c.cose)),
                   verr |-> RAdd(Dot(bd, f), Dot(b, fd)),
                   aerr |-> RAdd(RAdd(Dot(bdd, f), RMul(R(2), Dot(bd, fd))), Dot(b, fdd))]
          [] c.type = "rod" ->
               LET B1 == BodyK(K, c.b1)  B2 == BodyK(K, c.b2)
                   r1 == MV(BodyR(c.b1), VI(c.st[1], c.st[2], c.st[3]))  r2 == MV(BodyR(c.b2), VI(c.st2[1], c.st2[2], c.st2[3]))
                   p == VSub(VAdd(BodyP(c.b2), r2), VAdd(BodyP(c.b1), r1))
                   pd == VSub(VAdd(B2.v, Cross(B2.w, r2)), VAdd(B1.v, Cross(B1.w, r1)))
                   pdd == VSub(VAdd(B2.a, VAdd(Cross(B2.aw, r2), Cross(B2.w, Cross(B2.w, r2)))),
                               VAdd(B1.a, VAdd(Cross(B1.aw, r1), Cross(B1.w, Cross(B1.w, r1)))))
               IN [perr |-> Dot(p, p), verr |-> Dot(p, pd), aerr |-> RAdd(Dot(p, pdd), Dot(pd, pd))]
          [] c.type = "ballc" ->
               \* one component (c.comp) of a Ball between station st of b1 and station st2 of b2, expressed in the Ancestor frame c.anc
               \* (the outmost common ancestor of the two bodies), as the library documents it:  perr = p_AS - p_AP;  verr = v_AS - v_AC and
               \* aerr = a_AS - a_AC for the MATERIAL POINT C of b1 that coincides with S, velocities and accelerations measured in A
               LET B1 == BodyK(K, c.b1)  B2 == BodyK(K, c.b2)  A == BodyK(K, c.anc)
                   RA == MT(BodyR(c.anc))
                   rP == MV(BodyR(c.b1), VI(c.st[1], c.st[2], c.st[3]))  rS == MV(BodyR(c.b2), VI(c.st2[1], c.st2[2], c.st2[3]))
                   pS == VAdd(BodyP(c.b2), rS)
                   rC == VSub(pS, BodyP(c.b1))                               \* C: the point of b1 now at S
                   dv == VSub(VAdd(B2.v, Cross(B2.w, rS)), VAdd(B1.v, Cross(B1.w, rC)))
                   da == VSub(VAdd(B2.a, VAdd(Cross(B2.aw, rS), Cross(B2.w, Cross(B2.w, rS)))),
                              VAdd(B1.a, VAdd(Cross(B1.aw, rC), Cross(B1.w, Cross(B1.w, rC)))))
                   i == c.comp + 1
               IN [perr |-> MV(RA, VSub(pS, VAdd(BodyP(c.b1), rP)))[i],
                   verr |-> MV(RA, dv)[i],
                   aerr |-> MV(RA, VSub(da, VScale(R(2), Cross(A.w, dv))))[i]]
          [] c.type = "noslip" ->
               \* NoSlip1D: contact point P (station st) and direction n fixed in case body b1; the material points of bodies b2 and b3 now at P
               \* must have no relative velocity along n.  As the library documents it, with velocities and accelerations measured in the
               \* Ancestor frame c.anc:  verr = (v_AP1 - v_AP0) . n,  aerr = (a_AP1 - a_AP0 - w_AC x (v_AP1 - v_AP0)) . n
               LET C == BodyK(K, c.b1)  B0 == BodyK(K, c.b2)  B1 == BodyK(K, c.b3)  A == BodyK(K, c.anc)
                   n == MV(BodyR(c.b1), AxisV(c.n))
                   pP == VAdd(BodyP(c.b1), MV(BodyR(c.b1), VI(c.st[1], c.st[2], c.st[3])))
                   r0 == VSub(pP, BodyP(c.b2))  r1 == VSub(pP, BodyP(c.b3))
                   dv == VSub(VAdd(B1.v, Cross(B1.w, r1)), VAdd(B0.v, Cross(B0.w, r0)))
                   da == VSub(VAdd(B1.a, VAdd(Cross(B1.aw, r1), Cross(B1.w, Cross(B1.w, r1)))),
                              VAdd(B0.a, VAdd(Cross(B0.aw, r0), Cross(B0.w, Cross(B0.w, r0)))))
                   \* two material points at the same place: in A their accelerations differ by da - 2 w_A x dv; and w_AC = w_C - w_A
               IN [perr |-> Zero, verr |-> Dot(dv, n), aerr |-> Dot(VSub(da, Cross(VAdd(A.w, C.w), dv)), n)]
          [] c.type = "ccoord" ->      \* ConstantCoordinate on a translational coordinate k (whose rate is speed k): perr = q - s
               [perr |-> R(q[c.b1][c.k].k - c.s), verr |-> R(uu[c.b1][c.k]), aerr |-> R(udd[c.b1][c.k])]
          [] c.type = "cacc" ->        \* ConstantAcceleration (acceleration-only): aerr = udot - s
               [perr |-> Zero, verr |-> Zero, aerr |-> R(udd[c.b1][c.k] - c.s)]
          [] c.type = "cspeed" ->
               [perr |-> Zero, verr |-> R(uu[c.b1][c.k] - c.s), aerr |-> R(udd[c.b1][c.k])]
      ConsAt0 == TLCEval([k \in 1..NC |-> ConsErr(cons[k], Vu, u, ZeroU)])          \* the state's errors; aerr for udot = 0
      ConsAtUd == TLCEval([k \in 1..NC |-> ConsErr(cons[k], Va, u, ud)])
      \* the same configuration with only the speeds replaced by the second set (the real State is re-used after a u-only change)
      ConsAtU2 == TLCEval([k \in 1..NC |-> ConsErr(cons[k], VelsQ(X, q, u2, ZeroU), u2, ZeroU)])
      \* G, one row per constraint: the velocity error is affine in u, its linear part column by column
      VerrZero == TLCEval([k \in 1..NC |-> ConsErr(cons[k], Vels(X, ZeroU, ZeroU), ZeroU, ZeroU).verr])
      G == TLCEval([k \in 1..NC |-> TLCEval([j \in 1..ND |->
              IF cons[k].type = "cacc" THEN (IF Dofs[j] = <<cons[k].b1, cons[k].k>> THEN One ELSE Zero)      \* acceleration-only: d aerr / d udot
              ELSE RSub(ConsErr(cons[k], Vels(X, UnitU(Dofs[j]), ZeroU), UnitU(Dofs[j]), ZeroU).verr, VerrZero[k])])])
      \* the SAME model at the second coordinate / speed set (the real State object is re-used for it)
      X2 == TLCEval(PosesQ(q2))
      V2 == TLCEval(VelsQ(X2, q2, u2, ZeroU))
      \* composite body: body b together with everything outboard of it, about b's origin, in Ground
      InSub(c, b) == LET RECURSIVE In(_) In(x) == x = b \/ (x > b /\ desc[x].parent # 0 /\ In(desc[x].parent)) IN In(c)
      Comp(b) == LET mem == TLCEval([c \in 1..N |-> InSub(c, b)])
                     rel(c) == VSub(ComG(c, X), X[b].p) IN
                 [mass |-> SumRS(TLCEval([c \in 1..N |-> IF mem[c] THEN Mass(c) ELSE Zero]), N),
                  mcom |-> SumVS(TLCEval([c \in 1..N |-> IF mem[c] THEN VScale(Mass(c), rel(c)) ELSE VZero]), N),
                  I |-> SumMS(TLCEval([c \in 1..N |-> IF mem[c] THEN MAdd(IcG(c, X), PointInertia(Mass(c), rel(c))) ELSE Diag(0, 0, 0)]), N)]
      \* task (station / frame) Jacobians: J*u is the velocity of the task frame; J'*F collects the task forces
      NT == Len(tasks)
      StG(k) == IF tasks[k].b = 0 THEN VZero ELSE MV(X[tasks[k].b].R, VI(tasks[k].st[1], tasks[k].st[2], tasks[k].st[3]))
      TaskVel(B, k) == IF tasks[k].b = 0 THEN [w |-> VZero, v |-> VZero]
                       ELSE [w |-> B[tasks[k].b].w, v |-> VAdd(B[tasks[k].b].v, Cross(B[tasks[k].b].w, StG(k)))]
      TF(k) == VI(tasks[k].f[1], tasks[k].f[2], tasks[k].f[3])
      TT(k) == VI(tasks[k].T[1], tasks[k].T[2], tasks[k].T[3])
      JStF == TLCEval([j \in 1..ND |-> SumRS(TLCEval([k \in 1..NT |-> Dot(TaskVel(Cols[j], k).v, TF(k))]), NT)])
      JFtF == TLCEval([j \in 1..ND |-> SumRS(TLCEval([k \in 1..NT |-> RAdd(Dot(TaskVel(Cols[j], k).w, TT(k)), Dot(TaskVel(Cols[j], k).v, TF(k)))]), NT)])
  IN [X |-> [b \in 1..N |-> [R |-> X[b].R, p |-> X[b].p]],
      V |-> [b \in 1..N |-> [w |-> Vu[b].w, v |-> Vu[b].v]],
      A0 |-> IF dyn THEN [b \in 1..N |-> [aw |-> Vu[b].aw, a |-> Vu[b].a]] ELSE <<>>,   \* accelerations when udot = 0 (Jdot u)
      M |-> M, ke2 |-> ke2, uMu |-> uMu, bias |-> IF dyn THEN bias ELSE <<>>,
      A |-> IF dyn THEN [b \in 1..N |-> [aw |-> Va[b].aw, a |-> Va[b].a]] ELSE <<>>,
      tau |-> IF dyn THEN tau ELSE <<>>,
      JtF |-> IF dyn THEN JtF ELSE <<>>,
      \* reaction of each mobilizer on its body at the M origin, and on the parent at the F origin (both in Ground)
      reactM |-> IF dyn THEN [b \in 1..N |-> WShift(RO[b], X[b].pM)] ELSE <<>>,
      reactF |-> IF dyn THEN [b \in 1..N |-> LET w == WShift(RO[b], X[b].pF) IN [t |-> VNeg(w.t), f |-> VNeg(w.f)]] ELSE <<>>,
      \* pose and velocity of M in F (expressed in F) for the coordinates q2 and speeds u2: what a mobilizer fitted to
      \* them must reproduce
      forces |-> [body |-> FZ1.body, mob |-> FZ1.mob, pe2 |-> FZ1.pe2, power |-> FZ1.power, twopt |-> FZ1.twopt, cable |-> FZ1.cable],
      forces2 |-> [body |-> FZ2.body, mob |-> FZ2.mob, pe2 |-> FZ2.pe2, power |-> FZ2.power, twopt |-> FZ2.twopt, cable |-> FZ2.cable],
      forces3 |-> [body |-> FZ3.body, mob |-> FZ3.mob, pe2 |-> FZ3.pe2, power |-> FZ3.power, twopt |-> FZ3.twopt, cable |-> FZ3.cable],
      forces4 |-> [body |-> FZ4.body, mob |-> FZ4.mob, pe2 |-> FZ4.pe2, power |-> FZ4.power, twopt |-> FZ4.twopt, cable |-> FZ4.cable],
      forceLaws |-> FZ1.powerIsMinusDPE /\ FZ1.dampersDissipate /\ FZ2.powerIsMinusDPE /\ FZ2.dampersDissipate /\ FZ3.powerIsMinusDPE /\ FZ3.dampersDissipate
                    /\ FZ4.powerIsMinusDPE /\ FZ4.dampersDissipate,
      cons |-> [k \in 1..NC |-> [perr |-> ConsAt0[k].perr, verr |-> ConsAt0[k].verr, aerr0 |-> ConsAt0[k].aerr, aerr |-> ConsAtUd[k].aerr,
                                  verrU2 |-> ConsAtU2[k].verr, aerr0U2 |-> ConsAtU2[k].aerr]],
      G |-> G,
      \* the acceleration error is affine in udot with the same G:  aerr(ud) = aerr(0) + G ud   (identity of the spec)
      aerrAffine |-> \A k \in 1..NC : ConsAtUd[k].aerr = RAdd(ConsAt0[k].aerr, SumRS(TLCEval([j \in 1..ND |-> RMul(G[k][j], R(ud[Dofs[j][1]][Dofs[j][2]]))]), ND)),
      X2 |-> [b \in 1..N |-> [R |-> X2[b].R, p |-> X2[b].p]],
      V2 |-> [b \in 1..N |-> [w |-> V2[b].w, v |-> V2[b].v]],
      comp |-> [b \in 1..N |-> Comp(b)],
      taskV |-> [k \in 1..NT |-> TaskVel(Bu, k)],
      taskA0 |-> IF dyn THEN [k \in 1..NT |-> IF tasks[k].b = 0 THEN [aw |-> VZero, a |-> VZero]
                                ELSE LET B == Vu[tasks[k].b]  r == StG(k) IN
                                     [aw |-> B.aw, a |-> VAdd(B.a, VAdd(Cross(B.aw, r), Cross(B.w, Cross(B.w, r))))]] ELSE <<>>,
      JStF |-> JStF, JFtF |-> JFtF,
      fit |-> [b \in 1..N |-> LET D == Rel(desc[b].type, desc[b].rev, q2[b], u2[b], ZeroU[b], desc[b].opt) IN [R |-> D.R, p |-> D.p, w |-> D.w, v |-> D.v]],
      P |-> SumVS(TLCEval([b \in 1..N |-> VScale(Mass(b), Bu[b].vc)]), N),
      L |-> SumVS(TLCEval([b \in 1..N |-> VAdd(MV(IcG(b, X), Bu[b].w), VScale(Mass(b), Cross(ComG(b, X), Bu[b].vc)))]), N),
      mcom |-> SumVS(TLCEval([b \in 1..N |-> VScale(Mass(b), ComG(b, X))]), N),
      mass |-> SumRS(TLCEval([b \in 1..N |-> Mass(b)]), N),
      IO |-> SumMS(TLCEval([b \in 1..N |-> MAdd(IcG(b, X), PointInertia(Mass(b), ComG(b, X)))]), N),
      \* identities of the spec itself
      sym |-> \A j \in 1..ND, k \in 1..ND : M[j][k] = M[k][j],
      keIsUMU |-> uMu = ke2,
      diagPos |-> \A j \in 1..ND : M[j][j].n > 0,
      proper |-> \A b \in 1..N : MM(X[b].R, MT(X[b].R)) = Ident,
      \* Kane's equations are linear in udot: (M ud + bias) computed from the motion = M*ud + bias computed separately
      kaneLinear |-> (~dyn) \/ \A j \in 1..ND :
                       MudPlusBias[j] = RAdd(bias[j], SumRS(TLCEval([k \in 1..ND |-> RMul(M[j][k], R(ud[Dofs[k][1]][Dofs[k][2]]))]), ND)),
      \* the reactions at the base mobilizers balance the whole system: sum over root bodies of R = total Hdot - total applied
      rootBalance |-> (~dyn) \/ LET roots == TLCEval([b \in 1..N |-> IF desc[b].parent = 0 THEN RO[b] ELSE WZero])
                                    tot(S) == [t |-> SumVS(TLCEval([b \in 1..N |-> S[b].t]), N), f |-> SumVS(TLCEval([b \in 1..N |-> S[b].f]), N)]
                                IN tot(roots) = WSub(tot(Hd), tot(App))]
=============================================================================
