------------------------------ MODULE LatticeGeom ------------------------------
(***************************************************************************)
(* E7d / C35: sphere - sphere and half-space - sphere contact at lattice   *)
(* poses.  The surfaces' frames are lattice transforms (products of        *)
(* elementary lattice rotations, integer origins), radii are integers, so  *)
(* "the shapes overlap" is an exact comparison of rationals:               *)
(*    spheres:     |c2 - c1|^2 < (r1 + r2)^2                               *)
(*    half space (occupying x > 0 of its frame H) and sphere:              *)
(*                 x_H(c) + r > 0                                          *)
(* and everything a detector reports is a function of exact ingredients    *)
(* (the centre-to-centre vector in the first surface's frame, its squared  *)
(* length; the sphere centre in H).  Moving BOTH surfaces by the same      *)
(* rigid motion must change nothing that is expressed in a surface frame:  *)
(* the spec applies a lattice motion to both and checks (as a TLC          *)
(* invariant, per case) that its ingredients are unchanged; the harness    *)
(* gives the detectors the original and the moved pair.                    *)
(***************************************************************************)
EXTENDS LatticeMech, Json, IOUtils
Log == ndJsonDeserialize(IOEnv.TRACE)
VARIABLE l

RECURSIVE RotSeq(_, _, _)
RotSeq(ax, ang, i) == IF i > Len(ax) THEN Ident ELSE MM(RotA(ax[i], ang[i]), RotSeq(ax, ang, i + 1))
XR(x) == RotSeq(x.ax, x.ang, 1)
XP(x) == VI(x.p[1], x.p[2], x.p[3])
Less(a, b) == RSub(a, b).n < 0            \* a < b for numbers n/5^e

Case(c) ==
  LET R1 == XR(c.X1)  p1 == XP(c.X1)  R2 == XR(c.X2)  p2 == XP(c.X2)
      Rc == XR(c.Xc)  pc == XP(c.Xc)
      \* both surfaces moved by the same motion
      R1m == MM(Rc, R1)  p1m == VAdd(MV(Rc, p1), pc)
      R2m == MM(Rc, R2)  p2m == VAdd(MV(Rc, p2), pc)
      delta == VSub(p2, p1)  deltam == VSub(p2m, p1m)
      d2 == Dot(delta, delta)
      in1 == MV(MT(R1), delta)             \* centre of surface 2 in the frame of surface 1
      in1m == MV(MT(R1m), deltam)
      in2 == MV(MT(R2), VNeg(delta))       \* centre of surface 1 in the frame of surface 2 (roles swapped)
      rr == R((c.r1 + c.r2) * (c.r1 + c.r2))
      depthH == RAdd(in1[1], R(c.r2))      \* half space: depth of the sphere below the plane x = 0 of H
      \* brick (half-dimensions c.h) against the half space: x_H of each of the eight vertices (vertex v: bit 4 = +x, 2 = +y, 1 = +z)
      Sg(v, b) == IF (v \div b) % 2 = 1 THEN 1 ELSE -1
      VPos(v) == IF c.kind = "hb" THEN VI(Sg(v, 4) * c.h[1], Sg(v, 2) * c.h[2], Sg(v, 1) * c.h[3]) ELSE VZero
      XH(RH, pH, RB, pB, v) == MV(MT(RH), VSub(VAdd(pB, MV(RB, VPos(v))), pH))[1]
      xs == [v \in 1..8 |-> XH(R1, p1, R2, p2, v - 1)]
      xsm == [v \in 1..8 |-> XH(R1m, p1m, R2m, p2m, v - 1)]
      RECURSIVE MaxX(_)
      MaxX(k) == IF k = 1 THEN xs[1] ELSE LET m == MaxX(k - 1) IN IF Less(m, xs[k]) THEN xs[k] ELSE m
      depthB == MaxX(8)
  IN [R1 |-> R1, p1 |-> p1, R2 |-> R2, p2 |-> p2, R1m |-> R1m, p1m |-> p1m, R2m |-> R2m, p2m |-> p2m, Rc |-> Rc, pc |-> pc,
      delta |-> delta, d2 |-> d2, in1 |-> in1, in2 |-> in2,
      overlap |-> IF c.kind = "ss" THEN Less(d2, rr) ELSE IF c.kind = "hs" THEN Less(Zero, depthH) ELSE Less(Zero, depthB),
      touching |-> IF c.kind = "ss" THEN d2 = rr ELSE IF c.kind = "hs" THEN depthH = Zero ELSE depthB = Zero,
      depthH |-> depthH, xs |-> xs, depthB |-> depthB,
      lowest |-> {v \in 0..7 : xs[v + 1] = depthB},
      \* a common rigid motion changes nothing that is expressed in a surface frame
      invariant |-> in1m = in1 /\ Dot(deltam, deltam) = d2 /\ MM(MT(R1m), R2m) = MM(MT(R1), R2) /\ xsm = xs]

AInit == l = 1 /\ desc = <<>> /\ q = <<>> /\ u = <<>>
ANext == l <= Len(Log) /\ l' = l + 1 /\ UNCHANGED <<desc, q, u>>
ASpec == AInit /\ [][ANext]_<<desc, q, u, l>>
EmitGeom == l > 1 => LET r == Case(Log[l - 1]) IN
                       /\ PrintT("OUT " \o ToJson([i |-> l - 1, r |-> r]))
                       /\ r.invariant
=============================================================================
