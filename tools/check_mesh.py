#!/usr/bin/env python3
"""C36, topology and file-loading clauses (engine E11).

spec/Mesh/MeshTopo.tla is a state machine over closed oriented triangle meshes (tetrahedron; split face, split edge,
flip edge); TLC explores every mesh within the vertex bound, checks on each what consistent adjacency means
(each directed edge in exactly one face, its reverse in exactly one other, V - E + F = 2, ...) and prints it.  Every
reachable mesh is built with the real ContactGeometry::TriangleMesh (from arrays, from a PolygonalMesh, and from a
PolygonalMesh parsed from OBJ text with absolute and relative indices); the vertex / edge / face adjacency the
library reports must be the one the faces define, and loading must preserve vertices and faces.
"""
import json, os, sys, subprocess
sys.path.insert(0, os.path.dirname(os.path.abspath(__file__)))
import vlib
from vlib import VERIF

SPEC = os.path.join(VERIF, "spec", "Mesh")


def main():
    pid = "C36"
    tier, replay = "quick", None
    args = sys.argv[1:]
    while args:
        a = args.pop(0)
        if a == "--tier":
            tier = args.pop(0)
        elif a == "--replay":
            replay = args.pop(0)
    tier = os.environ.get("VERIF_TIER", tier)
    rep = vlib.Report(pid, tier)
    work = vlib.workdir("mesh-" + pid)
    vlib.build_repo()
    binpath = vlib.compile_harness(os.path.join(VERIF, "harness", "replay_mesh.cpp"), os.path.join(VERIF, ".build", "bin", "replay_mesh"),
                                   extra=["-I" + os.path.join(VERIF, "harness")], libs=("SimTKmath", "SimTKcommon"))
    cov = {"states": 0, "transitions": 0, "traces_validated_against_impl": 0, "samples": []}
    if replay:
        meshes = [json.load(open(replay))["replay"]["mesh"]]
    else:
        maxv = 6 if tier == "quick" else 7
        with open(os.path.join(SPEC, ".mesh.cfg"), "w") as f:
            f.write("SPECIFICATION Spec\nCONSTANT MaxV = %d\nINVARIANTS Proper Manifold AllUsed Euler Counts Emit\nCHECK_DEADLOCK FALSE\n" % maxv)
        r = vlib.run_tlc(SPEC, "MeshTopo.tla", ".mesh.cfg", "mesh-" + pid, workers=8, timeout=3000, xmx="8g")
        if r.violated:
            rep.violation("design/" + r.violated, {}, "MeshTopo: invariant %s violated by a reachable mesh" % r.violated)
        if r.error and not r.violated:
            raise vlib.Infra("MeshTopo: %s\n%s" % (r.error, r.out[-1500:]))
        seen, meshes = set(), []
        for s in vlib.tla_strings(r.out, "MESH "):
            if s not in seen:
                seen.add(s); meshes.append(json.loads(s))
        cov["states"] = r.distinct
        cov["transitions"] = r.states
        cov["vertex_bound"] = maxv
        if not meshes:
            raise vlib.Infra("MeshTopo produced no meshes\n" + r.out[-1500:])
    pfile, ofile = os.path.join(work, "meshes.ndjson"), os.path.join(work, "out.ndjson")
    with open(pfile, "w") as f:
        for m in meshes:
            f.write(json.dumps(m) + "\n")
    pr = subprocess.run(["timeout", "300", binpath, pfile, ofile], capture_output=True, text=True)      # (a broken adjacency can make findVertexEdges walk forever)
    outs = vlib.read_ndjson(ofile)
    if pr.returncode != 0 or len(outs) != len(meshes):
        rep.violation("crash", {"stderr": pr.stderr[-300:], "mesh": meshes[len(outs)] if len(outs) < len(meshes) else None}, "harness died (exit %s) after %d results: %s" % (pr.returncode, len(outs), pr.stderr[-300:]))
    for o in outs:
        m = meshes[o["i"] - 1]
        cov["traces_validated_against_impl"] += 1
        faces = [[v - 1 for v in f] for f in m["faces"]]
        nv = m["nv"]
        E = {}
        for fi, f in enumerate(faces):
            for k in range(3):
                E.setdefault(frozenset((f[k], f[(k + 1) % 3])), set()).add(fi)

        def bad(what, msg):
            rep.violation(what, {"mesh": m}, "%s: %s (mesh with %d vertices, faces %s)" % (what, msg, nv, m["faces"]))
        if o["exc"]:
            bad("exception", o["exc"])
            continue
        for route in ("arrays", "polygonal", "fromobj"):
            t = o[route]
            tag = route + "/"
            if (t["nv"], t["nf"]) != (nv, len(faces)):
                bad(tag + "counts", "%d vertices and %d faces reported" % (t["nv"], t["nf"])); continue
            if t["ne"] != m["ne"] or t["ne"] != len(E):
                bad(tag + "number-of-edges", "%d edges reported, the faces define %d" % (t["ne"], m["ne"])); continue
            # (built from a PolygonalMesh, a mesh that is wound inwards for its vertex positions is re-oriented as a whole:
            # documented; the spec's orientation is topological, so either all faces as given or all with the first two vertices swapped)
            flipped = [[f[1], f[0], f[2]] for f in faces]
            if [fc["v"] for fc in t["faces"]] != faces and not (route != "arrays" and [fc["v"] for fc in t["faces"]] == flipped):
                bad(tag + "face-vertices", "faces reported as %s" % [fc["v"] for fc in t["faces"]]); continue
            pairs = [frozenset(e["v"]) for e in t["edges"]]
            if set(pairs) != set(E) or len(set(pairs)) != len(pairs):
                bad(tag + "edge-vertices", "the edges' vertex pairs %s are not the %d edges of the faces, each once" % ([sorted(p) for p in pairs], len(E))); continue
            ok = True
            for ei, e in enumerate(t["edges"]):
                if set(e["f"]) != E[pairs[ei]] or len(set(e["f"])) != 2:
                    bad(tag + "edge-faces", "edge %d (%s) reports faces %s, the faces containing it are %s" % (ei, sorted(pairs[ei]), e["f"], sorted(E[pairs[ei]]))); ok = False; break
            if not ok:
                continue
            for fi, fc in enumerate(t["faces"]):
                want = {frozenset((faces[fi][k], faces[fi][(k + 1) % 3])) for k in range(3)}
                if any(not 0 <= x < len(pairs) for x in fc["e"]) or {pairs[x] for x in fc["e"]} != want:
                    bad(tag + "face-edges", "face %d %s reports edges %s" % (fi, faces[fi], fc["e"])); ok = False; break
                # documented slots: edge 0 connects the face's vertices 0 and 1, edge 1 connects 1 and 2, edge 2 connects 2 and 0
                slot = [k for k in range(3) if pairs[fc["e"][k]] != frozenset((fc["v"][k], fc["v"][(k + 1) % 3]))]
                if slot:
                    bad(tag + "face-edge-slots", "face %d with vertices %s: edge slot %d holds the edge %s" % (fi, fc["v"], slot[0], sorted(pairs[fc["e"][slot[0]]]))); ok = False; break
            if not ok:
                continue
            for v in range(nv):
                want = {ei for ei, p in enumerate(pairs) if v in p}
                if set(t["vedges"][v]) != want or len(t["vedges"][v]) != len(want) or len(want) != m["degree"][v]:
                    bad(tag + "vertex-edges", "vertex %d reports edges %s, incident are %s (degree %d in the spec)" % (v, t["vedges"][v], sorted(want), m["degree"][v])); break
        ob = o["obj"]
        if ob["nv"] != nv or ob["faces"] != faces or ob["vmaxdiff"] > 1e-12:
            bad("obj/round-trip", "OBJ text with %d vertices and faces %s was loaded as %d vertices, faces %s (vertex positions off by %g)" % (nv, faces, ob["nv"], ob["faces"], ob["vmaxdiff"]))
    cov["meshes"] = len(meshes)
    cov["meshes_by_vertex_count"] = {str(k): sum(1 for m in meshes if m["nv"] == k) for k in sorted({m["nv"] for m in meshes})}
    cov["samples"] = [{"mesh": meshes[0]}, {"mesh": meshes[-1]}]
    cov["invariants_checked_by_TLC_on_every_reachable_mesh"] = ["Proper", "Manifold (each directed edge once, its reverse once)", "AllUsed", "Euler V-E+F=2", "2E = 3F"]
    cov["uncovered"] = ["the geometric clauses of the property: nearest-point / ray / inside-outside queries against brute force, bounding volumes (OBB, OBB-tree nodes, bounding spheres)",
                        "open or non-manifold meshes (the TriangleMesh constructor rejects them), genus > 0", "VTP and STL files; OBJ features beyond vertices and triangular faces"]
    cov["exhaustive"] = True
    return rep.finish("model_checking", cov, assumptions=["closed oriented genus-0 triangle meshes reachable from the tetrahedron by face splits, edge splits and edge flips within the vertex bound; vertices placed at distinct points of the unit sphere"])


if __name__ == "__main__":
    try:
        sys.exit(main())
    except vlib.Infra as e:
        print("INFRA-ERROR: %s" % e)
        sys.exit(2)
