#!/usr/bin/env python3
"""C46 -- simulation is deterministic and isolated; C31 -- random generators are deterministic and in
range (engine E8).  Invoked as  check_isolation.py C46|C31.

spec/Isolation/Isolation.tla: instances are sequential programs of segments, the only freedom inside a
process is the schedule, and the digest of an instance after its k-th segment is a function of (i, k).
TLC enumerates EVERY schedule of the bounded configuration; harness/record_isolation executes each
schedule in one process with fresh instances (simulations with different models/integrators incl.
compliant contact and CPodes; Random::Uniform / Gaussian streams) and records a 64-bit digest of the
whole observable state after every segment; TLC validates every execution against the reference
table recorded from solo runs (spec/Isolation/IsolationTrace.tla).
For C31 the instances are random generators only, plus range / reseed checks for TLC-enumerated ranges.
"""
import json, os, re, sys, subprocess, random
sys.path.insert(0, os.path.dirname(os.path.abspath(__file__)))
import vlib
from vlib import VERIF

SPEC = os.path.join(VERIF, "spec", "Isolation")
SIMS = [("contact", "RKM"), ("loop", "CPodes"), ("pend", "Verlet"), ("loop", "RKF"), ("contact", "SEE2"), ("pend", "RK3")]


def schedules(ninst, nseg, name, reps=1):
    with open(os.path.join(SPEC, ".gen.cfg"), "w") as f:
        f.write("SPECIFICATION Spec\nCONSTANTS\n  NInst = %d\n  NSeg = %d\n  Reps = %d\nINVARIANT Emit\nCHECK_DEADLOCK FALSE\n" % (ninst, nseg, reps))
    r = vlib.run_tlc(SPEC, "Isolation.tla", ".gen.cfg", name, workers=1, timeout=1500, xmx="8g")
    sc = [json.loads(s) for s in vlib.tla_strings(r.out, "SCHED ")]
    if r.error or not sc:
        raise vlib.Infra("schedule enumeration failed: %s\n%s" % (r.error, r.out[-1200:]))
    return sc, r


def main():
    pid = sys.argv[1]
    tier, replay = "quick", None
    args = sys.argv[2:]
    while args:
        a = args.pop(0)
        if a == "--tier":
            tier = args.pop(0)
        elif a == "--replay":
            replay = args.pop(0)
    tier = os.environ.get("VERIF_TIER", tier)
    rep = vlib.Report(pid, tier)
    rnd = random.Random(vlib.seed())
    work = vlib.workdir(pid)
    vlib.build_repo()
    binpath = vlib.compile_harness(os.path.join(VERIF, "harness", "record_isolation.cpp"), os.path.join(VERIF, ".build", "bin", "record_isolation"),
                                   extra=["-I" + os.path.join(VERIF, "harness")])
    cov = {"states": 0, "transitions": 0, "traces_validated_against_impl": 0, "samples": []}
    configs = []     # (instances, nseg, schedules)
    if pid == "C46":
        s32, r = schedules(3, 2, pid + "-g1")
        cov["states"] += r.distinct; cov["transitions"] += r.states
        s33, r = schedules(3, 3, pid + "-g2")
        cov["states"] += r.distinct; cov["transitions"] += r.states
        cov["schedules_enumerated"] = {"3x2": len(s32), "3x3": len(s33)}
        for trio in ([0, 1, 2], [3, 4, 5]) if tier == "quick" else ([0, 1, 2], [3, 4, 5], [0, 3, 5], [1, 2, 4]):
            inst = [{"type": "sim", "model": SIMS[i][0], "integ": SIMS[i][1]} for i in trio]
            inst[2 if tier == "quick" else rnd.randrange(3)] = dict(inst[2])   # keep
            configs.append((inst, 2, s32))
            configs.append((inst, 3, rnd.sample(s33, 60) if tier == "quick" else s33))
        # repeats on the SAME objects (TimeStepper + Integrator, or TimeStepper with a new Integrator), interleaved:
        # 2 instances x 2 segments x 2 repetitions
        s222, r = schedules(2, 2, pid + "-g3", reps=2)
        cov["states"] += r.distinct; cov["transitions"] += r.states
        cov["schedules_enumerated"]["2x2x2 (repeat on the same objects)"] = len(s222)
        for a, b in ((0, 1), (2, 3), (4, 5)) if tier == "quick" else ((0, 1), (2, 3), (4, 5), (1, 4), (0, 5), (3, 2)):
            inst = [{"type": "sim", "model": SIMS[a][0], "integ": SIMS[a][1], "reuse": "all"}, {"type": "sim", "model": SIMS[b][0], "integ": SIMS[b][1], "reuse": "ts"}]
            configs.append((inst, 2, s222))
        # a simulation interleaved with random generators and a second copy of the SAME simulation
        inst = [{"type": "sim", "model": "contact", "integ": "RKM"}, {"type": "rng", "dist": "gaussian", "seed": 11},
                {"type": "sim", "model": "contact", "integ": "RKM"}]
        configs.append((inst, 2, s32))
    else:
        s32, r = schedules(3, 3, pid + "-g1")
        cov["states"] += r.distinct; cov["transitions"] += r.states
        cov["schedules_enumerated"] = {"3x3": len(s32)}
        for seeds in ((7, 7, 9), (0, 123456789, 7)):
            inst = [{"type": "rng", "dist": "uniform", "seed": seeds[0]}, {"type": "rng", "dist": "gaussian", "seed": seeds[1]},
                    {"type": "rng", "dist": "uniform", "seed": seeds[2]}]
            configs.append((inst, 3, s32 if tier != "quick" else rnd.sample(s32, 300)))
        s222, r = schedules(2, 2, pid + "-g3", reps=2)      # reseeding restarts the stream
        cov["states"] += r.distinct; cov["transitions"] += r.states
        configs.append(([{"type": "rng", "dist": "uniform", "seed": 5}, {"type": "rng", "dist": "gaussian", "seed": 5}], 2, s222))
        for da, db in ((1, 3), (7, 2), (5, 50), (9, 4)):      # odd and even numbers of draws before the reseed
            configs.append(([{"type": "rng", "dist": "gaussian", "seed": 5, "draws": da}, {"type": "rng", "dist": "gaussian", "seed": 9, "draws": db}], 2, s222))
            configs.append(([{"type": "rng", "dist": "uniform", "seed": 5, "draws": da}, {"type": "rng", "dist": "gaussian", "seed": 5, "draws": da + 2}], 2, s222))
    runs = []
    for inst, nseg, scheds in configs:
        runs.append({"mode": "solo", "nseg": nseg, "instances": inst})
        for s in scheds:
            runs.append({"mode": "sched", "nseg": nseg, "sched": s, "instances": inst})
    ranges = []
    if pid == "C31":
        # ranges: negative, width one, tiny, large, straddling zero
        for lo, hi in ((-3, -2), (0, 1), (5, 6), (-1e-9, 1e-9), (-7, 11), (1e6, 1e6 + 3), (-2.5, 2.5), (0, 1e-300), (3, 1000)):
            for seed in (1, 42) if tier == "quick" else (1, 42, 7, 99999):
                ranges.append({"mode": "range", "lo": lo, "hi": hi, "seed": seed, "n": 2000 if tier == "quick" else 200000})
    pfile, ofile = os.path.join(work, "runs.ndjson"), os.path.join(work, "out.ndjson")
    with open(pfile, "w") as f:
        for r1 in runs + ranges:
            f.write(json.dumps(r1) + "\n")
    pr = subprocess.run(["timeout", "3000", binpath, pfile, ofile], capture_output=True, text=True)
    outs = vlib.read_ndjson(ofile)
    if pr.returncode != 0:
        rep.violation("crash", {"stderr": pr.stderr[-300:]}, "harness died (exit %s): %s" % (pr.returncode, pr.stderr[-200:]))
    errs = [o for o in outs if o.get("e") == "Error"]
    if errs:
        rep.violation("exception", {"error": errs[0]}, "exception while running instances: %s" % errs[0].get("exc"))
    for rg, o in zip(ranges, [o for o in outs if o.get("mode") == "range"]):
        cov["traces_validated_against_impl"] += 1
        for k, what in (("inRange", "a value outside [min, max)"), ("intRange", "an integer outside [min, max)"),
                        ("same", "two generators with the same seed disagree"), ("reseed", "setSeed does not restart the sequence")):
            if not o[k]:
                rep.violation("random/%s/lo=%s/hi=%s" % (k, rg["lo"], rg["hi"]), {"range": rg}, "Random with range [%s, %s) seed %d: %s" % (rg["lo"], rg["hi"], rg["seed"], what))
    lines = [o for o in outs if o.get("e") in ("Reset", "Ref", "Seg")]
    tfile = os.path.join(work, "trace.ndjson")
    with open(tfile, "w") as f:
        for o in lines:
            f.write(json.dumps({"e": o["e"], "i": o["i"], "k": o["k"], "h": o["h"]}) + "\n")
    r = vlib.run_tlc(SPEC, "IsolationTrace.tla", "IsoTrace.cfg", pid + "-t", workers=1, timeout=3000, env={"TRACE": tfile}, xmx="8g")
    m = re.search(r'"MAXL", (\d+), (\d+)', r.out)
    if not m:
        raise vlib.Infra("trace validation did not run: %s\n%s" % (r.error, r.out[-2000:]))
    maxl, total = int(m.group(1)), int(m.group(2))
    cov["transitions"] += r.states
    cov["segments_recorded"] = sum(1 for o in lines if o["e"] == "Seg")
    if maxl != total + 1:
        bad = lines[maxl - 1]
        # which run
        k, cur = 0, None
        for r1 in runs:
            n = 1 + (r1["nseg"] * len(r1["instances"]) if r1["mode"] == "solo" else len(r1["sched"]))
            if k < maxl <= k + n:
                cur = r1
                break
            k += n
        what = cur["instances"][bad["i"] - 1] if cur else {}
        rep.violation("schedule-dependent/%s/seg=%d" % (json.dumps(what, sort_keys=True), bad["k"]), {"run": cur, "line": bad},
                      ("the state of %s after its segment %d depends on what else ran in the process" if not (cur and bad["k"] > cur["nseg"]) else
                       "repeating %s on the same objects (re-initialised / reseeded) does not reproduce it at segment %d")
                      % (json.dumps(what), bad["k"]) + ": digest %s differs from the solo run (schedule %s)" % (bad["h"], cur.get("sched") if cur else None))
    else:
        cov["traces_validated_against_impl"] += sum(1 for r1 in runs if r1["mode"] == "sched")
    cov["samples"] = [{"instances": configs[0][0], "schedule": configs[0][2][1], "digests": [o for o in lines if o["e"] == "Seg"][:6]}]
    cov["uncovered"] = ["multi-threaded force evaluation (excluded by the property)", "geometry-only query batches as instances"] if pid == "C46" else \
                       ["mean and variance (statistics)", "the SFMT reference vector (bit-level fidelity is not a model-checking question)"]
    return rep.finish("model_checking", cov, assumptions=["a 64-bit FNV digest of time, y, ydot, multipliers, energy and step count stands for 'bit-identical trajectories and results'"])


if __name__ == "__main__":
    try:
        sys.exit(main())
    except vlib.Infra as e:
        print("INFRA-ERROR: %s" % e)
        sys.exit(2)
