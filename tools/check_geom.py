#!/usr/bin/env python3
"""C35 (collision detection) for sphere - sphere, half-space - sphere and half-space - brick pairs at lattice poses (engine E7d).

spec/Lattice/LatticeGeom.tla evaluates exactly, per case, whether the shapes overlap (a comparison of rationals), the
centre of each surface in the other's frame and the squared centre distance, and checks that a common rigid motion
changes none of them.  harness/replay_geom runs ContactTracker::SphereSphere / HalfSpaceSphere and
CollisionDetectionAlgorithm::SphereSphere / HalfSpaceSphere on the pair as given, on the moved pair and (spheres) with
the roles swapped; this script compares: a contact is reported exactly when the shapes overlap (touching
configurations may go either way), depth, normal, contact point and effective radius are those of the exact
geometry, roles swapped reverse the normal, a common motion changes nothing in surface frames and moves ground-frame
results along.
"""
import json, os, sys, subprocess, random, math
sys.path.insert(0, os.path.dirname(os.path.abspath(__file__)))
import vlib
from vlib import VERIF
from check_lattice import conv

SPEC = os.path.join(VERIF, "spec", "Lattice")
AX = "xyz"


def ang(r):
    return {"k": r.randrange(4), "m": r.choice([0, 0, 1, -1])}


def pose(r, span):
    n = r.choice([0, 1, 2, 2])
    ax = []
    while len(ax) < n:
        a = r.choice(AX)
        if not ax or a != ax[-1]:
            ax.append(a)
    return {"ax": ax, "ang": [ang(r) for _ in ax], "p": [r.randint(-span, span) for _ in range(3)]}


def generate(tier, seed):
    r = random.Random(seed)
    cases = []
    n = 150 if tier == "quick" else 3000
    for _ in range(n):
        r1, r2 = r.randint(1, 4), r.randint(1, 4)
        X1 = pose(r, 3)
        style = r.random()
        X2 = pose(r, 3)
        if style < 0.3:        # touching or nearly so: centres at a Pythagorean distance r1 + r2 (or one unit off)
            d = r1 + r2 + r.choice([0, 0, 1, -1])
            off = r.choice([[d, 0, 0], [0, -d, 0], [0, 0, d]] + ([[3 * d // 5, 4 * d // 5, 0]] if d % 5 == 0 else []))
            X2["p"] = [a + b for a, b in zip(X1["p"], off)]
        cases.append({"kind": "ss", "r1": r1, "r2": r2, "X1": X1, "X2": X2, "Xc": pose(r, 4)})
    for _ in range(n):
        cases.append({"kind": "hs", "r1": 0, "r2": r.randint(1, 4), "X1": pose(r, 3), "X2": pose(r, 4), "Xc": pose(r, 4)})
    for _ in range(n):      # bricks: faces, edges and corners down (ties between vertices when a face or an edge is parallel to the plane)
        cases.append({"kind": "hb", "r1": 0, "r2": 0, "h": [r.randint(1, 3) for _ in range(3)], "X1": pose(r, 3), "X2": pose(r, 4), "Xc": pose(r, 4)})
    return cases


def mv(R, v):
    return [sum(R[i][k] * v[k] for k in range(3)) for i in range(3)]


def tr(R):
    return [[R[j][i] for j in range(3)] for i in range(3)]


def main():
    pid = "C35"
    tier, replay = "quick", None
    args = sys.argv[1:]
    while args:
        a = args.pop(0)
        if a == "--tier":
            tier = args.pop(0)
        elif a == "--replay":
            replay = args.pop(0)
    tier = os.environ.get("VERIF_TIER", tier)
    rep = vlib.Report(pid, tier)
    work = vlib.workdir("geom-" + pid)
    vlib.build_repo()
    binpath = vlib.compile_harness(os.path.join(VERIF, "harness", "replay_geom.cpp"), os.path.join(VERIF, ".build", "bin", "replay_geom"),
                                   extra=["-I" + os.path.join(VERIF, "harness")], libs=("SimTKmath", "SimTKcommon"))
    cov = {"states": 0, "transitions": 0, "traces_validated_against_impl": 0, "samples": []}
    cases = [json.load(open(replay))["replay"]["case"]] if replay else generate(tier, vlib.seed())
    KEEP = ("kind", "r1", "r2", "X1", "X2", "Xc", "h")
    cases = [{k: c[k] for k in KEEP if k in c} for c in cases]
    pfile = os.path.join(work, "cases.ndjson")
    with open(pfile, "w") as f:
        for c in cases:
            f.write(json.dumps(c) + "\n")
    r = vlib.run_tlc(SPEC, "LatticeGeom.tla", "LatticeGeom.cfg", "geom-" + pid, workers=1, timeout=3000, xmx="4g", env={"TRACE": pfile})
    got = [json.loads(s) for s in vlib.tla_strings(r.out, "OUT ")]
    if r.violated:
        rep.violation("design/" + r.violated, {"case": cases[len(got) - 1] if got else None}, "LatticeGeom: invariance under a common rigid motion fails in the definition itself")
    if r.error or len(got) != len(cases):
        raise vlib.Infra("LatticeGeom evaluation failed (%d of %d): %s\n%s" % (len(got), len(cases), r.error, r.out[-1500:]))
    cov["states"] += r.distinct
    cov["transitions"] += r.states
    want = [conv(g["r"]) for g in got]
    flags = [(g["r"]["overlap"], g["r"]["touching"]) for g in got]
    full = []
    for c, w in zip(cases, want):
        d = dict(c)
        for k in ("R1", "p1", "R2", "p2", "R1m", "p1m", "R2m", "p2m"):
            d[k] = w[k]
        full.append(d)
    with open(pfile, "w") as f:
        for c in full:
            f.write(json.dumps(c) + "\n")
    ofile = os.path.join(work, "out.ndjson")
    pr = subprocess.run(["timeout", "1200", binpath, pfile, ofile], capture_output=True, text=True)
    outs = vlib.read_ndjson(ofile)
    if pr.returncode != 0 or len(outs) != len(cases):
        rep.violation("crash", {"stderr": pr.stderr[-300:]}, "harness died (exit %s) after %d results: %s" % (pr.returncode, len(outs), pr.stderr[-300:]))
    stats = {"overlapping": 0, "separated": 0, "touching": 0}
    for o in outs:
        c, w = cases[o["i"] - 1], want[o["i"] - 1]
        overlap, touching = flags[o["i"] - 1]
        cov["traces_validated_against_impl"] += 1
        stats["touching" if touching else "overlapping" if overlap else "separated"] += 1
        kind = c["kind"]

        def bad(what, msg):
            rep.violation("%s/%s" % (kind, what), {"case": c}, "%s: %s (case %s)" % (what, msg, json.dumps(c)[:260]))

        def close(what, a, b, sc=1.0):
            fa = a if isinstance(a, list) else [a]
            fb = b if isinstance(b, list) else [b]
            d = max(abs(x - y) if y == y else float("inf") for x, y in zip(fa, fb))
            if not d <= 1e-12 * max(1.0, sc):
                bad(what, "exact geometry gives %s, reported %s (difference %.3g)" % (fa, fb, d))
        if o["exc"]:
            bad("exception", o["exc"])
            continue
        r1, r2 = c["r1"], c["r2"]
        if kind == "ss":
            d = math.sqrt(w["d2"])
            depth = r1 + r2 - d
            coincident = d == 0
            n1 = [x / d for x in w["in1"]] if d else None          # in S1
            n2 = [x / d for x in w["in2"]] if d else None          # in S2 (roles swapped)
            nG = [x / d for x in w["delta"]] if d else None
            variants = (("tracked", n1, r1, r2), ("trackedMoved", n1, r1, r2), ("trackedSwapped", n2, r2, r1))
            for name, nrm, ra, rb in variants:
                t = o[name]
                if coincident:
                    continue                      # no normal exists; the tracker reports failure (documented TODO)
                if not t["ok"]:
                    bad(name + "/failed", "trackContact returned false")
                    continue
                if not touching and bool(t["contact"]) != bool(overlap):
                    bad(name + "/contact-iff-overlap", "overlap is %s (centre distance^2 %s, radii %d + %d) but contact reported = %s" % (overlap, w["d2"], r1, r2, t["contact"]))
                    continue
                if t["contact"]:
                    close(name + "/depth", depth, t["depth"], r1 + r2)
                    close(name + "/normal", nrm, t["normal"])
                    close(name + "/contact-point", [(ra - depth / 2) * x for x in nrm], t["origin"], r1 + r2)
                    close(name + "/effective-radius", ra * rb / (ra + rb), t["reff"])
                    close(name + "/radii", [ra, rb], [t["r1"], t["r2"]])
                    close(name + "/centre-of-the-other-surface", [x * d for x in nrm], t["p12"], 10)
            for name, p1, nn, ra in (("detected", w["p1"], nG, r1), ("detectedMoved", w["p1m"], None if nG is None else mv(w["Rc"], nG), r1),
                                     ("detectedSwapped", w["p2"], None if nG is None else [-x for x in nG], r2)):
                t = o[name]
                if coincident:
                    continue
                if not touching and (t["n"] == 1) != bool(overlap):
                    bad(name + "/contact-iff-overlap", "overlap is %s but %d contacts reported" % (overlap, t["n"]))
                    continue
                if t["n"] == 1:
                    close(name + "/depth", depth, t["depth"], r1 + r2)
                    close(name + "/normal", nn, t["normal"])
                    close(name + "/contact-point", [a + (ra - depth / 2) * x for a, x in zip(p1, nn)], t["location"], 20)
                    close(name + "/effective-radius", r1 * r2 / (r1 + r2), t["radius"])
                    if (t["s1"], t["s2"]) != (0, 1):
                        bad(name + "/surface-indices", "surfaces reported as (%s, %s)" % (t["s1"], t["s2"]))
                elif t["n"] > 1:
                    bad(name + "/several-contacts", "%d contacts for one pair" % t["n"])
        elif kind == "hb":
            depth = w["depthB"]
            lowest = set(int(v) for v in got[o["i"] - 1]["r"]["lowest"])
            for name in ("tracked", "trackedMoved"):
                t = o[name]
                if not t["ok"]:
                    bad(name + "/failed", "trackContact returned false")
                    continue
                if not touching and bool(t["contact"]) != bool(overlap):
                    bad(name + "/contact-iff-overlap", "overlap is %s (deepest vertex at depth %s) but contact reported = %s" % (overlap, depth, t["contact"]))
                    continue
                if t["contact"]:
                    close(name + "/depth", depth, t["depth"], 10)
                    if t["vertex"] not in lowest:
                        bad(name + "/lowest-vertex", "vertex %s reported, the deepest vertices are %s (x_H of the eight vertices: %s)" % (t["vertex"], sorted(lowest), w["xs"]))
                    close(name + "/brick-origin-in-H", w["in1"], t["pHB"], 10)
        else:
            depth = w["depthH"]
            c_in_h = w["in1"]
            for name in ("tracked", "trackedMoved"):
                t = o[name]
                if not t["ok"]:
                    bad(name + "/failed", "trackContact returned false")
                    continue
                if not touching and bool(t["contact"]) != bool(overlap):
                    bad(name + "/contact-iff-overlap", "overlap is %s (depth %s) but contact reported = %s" % (overlap, depth, t["contact"]))
                    continue
                if t["contact"]:
                    close(name + "/depth", depth, t["depth"], 10)
                    close(name + "/normal", [-1.0, 0.0, 0.0], t["normal"])
                    close(name + "/contact-point", [depth / 2, c_in_h[1], c_in_h[2]], t["origin"], 10)
                    close(name + "/effective-radius", r2, t["reff"])
                    close(name + "/centre-of-the-sphere-in-H", c_in_h, t["p12"], 10)
            for name, R, p in (("detected", w["R1"], w["p1"]), ("detectedMoved", w["R1m"], w["p1m"])):
                t = o[name]
                if not touching and (t["n"] == 1) != bool(overlap):
                    bad(name + "/contact-iff-overlap", "overlap is %s but %d contacts reported" % (overlap, t["n"]))
                    continue
                if t["n"] == 1:
                    close(name + "/depth", depth, t["depth"], 10)
                    close(name + "/normal", mv(R, [-1.0, 0.0, 0.0]), t["normal"])
                    close(name + "/contact-point", [a + b for a, b in zip(p, mv(R, [depth / 2, c_in_h[1], c_in_h[2]]))], t["location"], 20)
                    close(name + "/effective-radius", r2, t["radius"])
    cov["cases"] = len(cases)
    cov["configurations"] = stats
    cov["invariant_checked_by_TLC_per_case"] = "a common rigid motion leaves the centre-to-centre vector in surface frames, the centre distance and the relative orientation unchanged"
    cov["samples"] = [{"case": cases[0], "expected": {k: want[0][k] for k in ("d2", "in1", "delta")}, "overlap": flags[0][0]}]
    cov["uncovered"] = ["ellipsoids, bricks, meshes, implicit surfaces (real-valued or iterative geometry)", "poses off the lattice", "the tolerance band around touching (touching configurations are generated but either verdict is accepted)",
                        "contact histories (BrokenContact after a tracked contact), the broad phase and clique exclusion of the contact subsystems"]
    cov["exhaustive"] = False
    if len(rep.violations) > 30:
        rep.violations = rep.violations[:30]
    return rep.finish("model_checking", cov, assumptions=["surface frames are lattice transforms with integer origins, radii integers 1..4; results compared within 1e-12 relative"])


if __name__ == "__main__":
    try:
        sys.exit(main())
    except vlib.Infra as e:
        print("INFRA-ERROR: %s" % e)
        sys.exit(2)
