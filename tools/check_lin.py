#!/usr/bin/env python3
"""C24 (matrix factorizations) on matrices with an exactly known decomposition (engine E7c).

spec/Lattice/LatticeLin.tla builds A = U S V' (or U D U') from exactly orthogonal factors over the lattice numbers
and chosen integer singular values / eigenvalues, checks per case that the factors are orthogonal and that
A v_k = s_k u_k, and delivers A, U, V exactly.  harness/replay_lin factors A with the real FactorLU, FactorLLT,
FactorQTZ, FactorSVD and Eigen in double, float and complex<double>, and this script compares with what the
construction implies: solutions A^+ b (minimum norm, least squares), inverses / pseudo-inverses, rank, singular
values, reconstruction, orthonormal factors, eigenpairs.
"""
import json, os, sys, subprocess, random, math
sys.path.insert(0, os.path.dirname(os.path.abspath(__file__)))
import vlib
from vlib import VERIF
from check_lattice import conv

SPEC = os.path.join(VERIF, "spec", "Lattice")
AX = "xyz"


def ang(r):
    return {"k": r.randrange(4), "m": r.choice([0, 1, -1, 1, -1])}


def blocks(r, n):
    """a direct sum of orthogonal blocks of total size n"""
    B, left = [], n
    while left:
        t = r.choice([b for b in ("rot3", "rot3", "rot2", "one") if {"rot3": 3, "rot2": 2, "one": 1}[b] <= left])
        if t == "rot3":
            k = r.choice([1, 2, 2])
            ax = [r.choice(AX)]
            while len(ax) < k:
                a = r.choice(AX)
                if a != ax[-1]:
                    ax.append(a)
            B.append({"t": "rot3", "ax": ax, "ang": [ang(r) for _ in ax]}); left -= 3
        elif t == "rot2":
            B.append({"t": "rot2", "ang": ang(r)}); left -= 2
        else:
            B.append({"t": "one", "s": r.choice([1, -1])}); left -= 1
    r.shuffle(B)
    p = list(range(1, n + 1)); r.shuffle(p)
    return B, p


def generate(tier, seed):
    r = random.Random(seed)
    cases = []
    reps = 1 if tier == "quick" else 10
    shapes = [(1, 1), (2, 2), (3, 3), (4, 4), (5, 5), (6, 6), (3, 2), (2, 3), (5, 3), (3, 5), (6, 4), (4, 6), (6, 1), (1, 5)] + ([(8, 8), (9, 6), (6, 9)] if tier != "quick" else [])
    for m, n in shapes:
        for style in ("full", "deficient", "zero") if min(m, n) > 1 else ("full", "zero"):
            for _ in range(3 * reps if style != "zero" else 1):
                k = min(m, n)
                s = [r.choice([1, 2, 3, 4, 5, 7, 10, 20]) for _ in range(k)]
                if style == "deficient":
                    for i in r.sample(range(k), r.randint(1, k - 1)):
                        s[i] = 0
                if style == "zero":
                    s = [0] * k
                U, pU = blocks(r, m); V, pV = blocks(r, n)
                cases.append({"kind": "lin", "U": U, "pU": pU, "V": V, "pV": pV, "s": s, "b": [[r.randint(-5, 5) for _ in range(m)] for _ in range(2)], "spd": 0, "style": style})
    for n in (1, 2, 3, 4, 5, 6) + ((8,) if tier != "quick" else ()):
        for style in ("spd", "indefinite", "repeated", "singular"):
            for _ in range(3 * reps):
                if style == "spd":
                    d = [r.choice([1, 2, 3, 5, 8, 10]) for _ in range(n)]
                elif style == "indefinite":
                    d = [r.choice([-7, -3, -1, 1, 2, 4, 6]) for _ in range(n)]
                elif style == "repeated":
                    v = r.choice([-2, 1, 3]); d = [v if r.random() < 0.6 else r.choice([-5, 4, 7]) for _ in range(n)]
                else:
                    d = [r.choice([-4, 2, 5]) for _ in range(n)]; d[r.randrange(n)] = 0
                U, pU = blocks(r, n)
                cases.append({"kind": "sym", "U": U, "pU": pU, "s": d, "b": [[r.randint(-5, 5) for _ in range(n)] for _ in range(2)], "spd": int(style == "spd"), "style": style})
    return cases


def matmul(A, B):
    return [[sum(A[i][k] * B[k][j] for k in range(len(B))) for j in range(len(B[0]))] for i in range(len(A))]


def transpose(A):
    return [list(r) for r in zip(*A)] if A else []


def cplx(M):       # [[re, im]] matrices / vectors -> complex
    if M and isinstance(M[0][0], list):
        return [[complex(a, b) for a, b in row] for row in M]
    return [complex(a, b) for a, b in M]


def main():
    pid = "C24"
    tier, replay = "quick", None
    args = sys.argv[1:]
    while args:
        a = args.pop(0)
        if a == "--tier":
            tier = args.pop(0)
        elif a == "--replay":
            replay = args.pop(0)
    tier = os.environ.get("VERIF_TIER", tier)
    rep = vlib.Report(pid, tier)
    work = vlib.workdir("lin-" + pid)
    vlib.build_repo()
    binpath = vlib.compile_harness(os.path.join(VERIF, "harness", "replay_lin.cpp"), os.path.join(VERIF, ".build", "bin", "replay_lin"),
                                   extra=["-I" + os.path.join(VERIF, "harness")], libs=("SimTKmath", "SimTKcommon"))
    cov = {"states": 0, "transitions": 0, "traces_validated_against_impl": 0, "samples": []}
    cases = [json.load(open(replay))["replay"]["case"]] if replay else generate(tier, vlib.seed())
    for c in cases:
        c.pop("A", None)
    pfile = os.path.join(work, "cases.ndjson")
    with open(pfile, "w") as f:
        for c in cases:
            f.write(json.dumps(c) + "\n")
    r = vlib.run_tlc(SPEC, "LatticeLin.tla", "LatticeLin.cfg", "lin-" + pid, workers=1, timeout=3000, xmx="6g", env={"TRACE": pfile})
    got = [json.loads(s) for s in vlib.tla_strings(r.out, "OUT ")]
    if r.violated:
        rep.violation("design/" + r.violated, {"case": cases[len(got) - 1] if got else None}, "LatticeLin: the construction's own identity %s fails" % r.violated)
    if r.error or len(got) != len(cases):
        raise vlib.Infra("LatticeLin evaluation failed (%d of %d): %s\n%s" % (len(got), len(cases), r.error, r.out[-1500:]))
    cov["states"] += r.distinct
    cov["transitions"] += r.states
    want = [conv(g["r"]) for g in got]
    for c, w in zip(cases, want):
        c["A"] = w["A"]
    with open(pfile, "w") as f:
        for c in cases:
            f.write(json.dumps(c) + "\n")
    ofile = os.path.join(work, "out.ndjson")
    pr = subprocess.run(["timeout", "1200", binpath, pfile, ofile], capture_output=True, text=True)
    outs = vlib.read_ndjson(ofile)
    if pr.returncode != 0 or len(outs) != len(cases):
        rep.violation("crash", {"stderr": pr.stderr[-300:], "case": cases[len(outs)] if len(outs) < len(cases) else None}, "harness died (exit %s) after %d results: %s" % (pr.returncode, len(outs), pr.stderr[-300:]))
    worst, kinds = {}, {}
    for o in outs:
        c, w = cases[o["i"] - 1], want[o["i"] - 1]
        A, U, V = w["A"], w["U"], w["V"]
        m, n = len(A), len(A[0])
        k = min(m, n)
        s = c["s"]
        cov["traces_validated_against_impl"] += 1
        kinds["%s/%s" % (c["kind"], c["style"])] = kinds.get("%s/%s" % (c["kind"], c["style"]), 0) + 1
        # what the construction implies
        rank = sum(1 for x in s if x != 0)
        pinv = [[sum(V[i][t] * (1.0 / s[t]) * U[j][t] for t in range(k) if s[t] != 0) for j in range(m)] for i in range(n)]
        B = transpose(c["b"])                          # m x nrhs
        X = matmul(pinv, B) if m and n else []
        smax = max([abs(x) for x in s] + [1])
        smin = min([abs(x) for x in s if x != 0] + [smax])
        cond = smax / smin
        bsc = max(1.0, max(abs(v) for row in c["b"] for v in row))
        for key, res in o.items():
            if "/" not in key:
                continue
            prec, what = key.split("/")
            eps = 1.2e-7 if prec == "float" else 2.3e-16
            tag = "%s/%s/%s/%s" % (what, prec, c["kind"], c["style"])

            def chk(name, a, b, sc):
                fa = [x for row in a for x in row] if a and isinstance(a[0], list) else list(a)
                fb = [x for row in b for x in row] if b and isinstance(b[0], list) else list(b)
                if len(fa) != len(fb):
                    rep.violation(tag + "/" + name + "/shape", {"case": c}, "%s: %d values expected, %d returned" % (name, len(fa), len(fb)))
                    return
                d = max([abs(x - y) if y == y else float("inf") for x, y in zip(fa, fb)] + [0.0])
                allow = 200 * eps * sc * max(m, n)
                worst[tag + "/" + name] = max(worst.get(tag + "/" + name, 0.0), d / allow)
                if not d <= allow:
                    rep.violation(tag + "/" + name, {"case": c}, "%s(%s) on the %dx%d matrix U diag%s V' (%s): %s differs from what the construction implies by %.3g (allowed %.3g); expected %s, got %s"
                                  % (what, prec, m, n, s, c["style"], name, d, allow, json.dumps(fa)[:150], json.dumps([str(x) for x in fb])[:150]))
            if "exc" in res:
                rep.violation(tag + "/exception", {"case": c}, "%s(%s) on the %dx%d matrix U diag%s V' raised: %s" % (what, prec, m, n, s, res["exc"]))
                continue
            xsc = cond * bsc / smin * smax          # size of the solution times conditioning
            if what == "LU":
                # (an exactly singular matrix may leave a pivot of rounding size: only the converse is demanded)
                if res["singular"] and rank == n:
                    rep.violation(tag + "/isSingular", {"case": c}, "FactorLU(%s).isSingular() = %s for a matrix of rank %d of %d" % (prec, res["singular"], rank, n))
                if not res["singular"] and rank == n:
                    chk("solve-vector", [row[0] for row in X], cplx(res["x"]), xsc)
                    chk("solve-after-factor()", [row[0] for row in X], cplx(res["x2"]), xsc)
                    chk("solve-matrix", X, cplx(res["X"]), xsc)
                    chk("inverse", pinv, cplx(res["inv"]), cond / smin)
            elif what == "LLT":
                chk("solve-vector", [row[0] for row in X], cplx(res["x"]), xsc)
                chk("solve-matrix", X, cplx(res["X"]), xsc)
                chk("inverse", pinv, cplx(res["inv"]), cond / smin)
                L = cplx(res["L"])
                LLt = [[sum(L[i][t] * L[j][t].conjugate() for t in range(n) if t <= min(i, j)) for j in range(n)] for i in range(n)]
                chk("L-times-L'", A, LLt, smax)
            elif what in ("QTZ", "SVD"):
                if res["rank"] != rank:
                    rep.violation(tag + "/rank", {"case": c}, "%s(%s).getRank() = %d for the %dx%d matrix U diag%s V'" % (what, prec, res["rank"], m, n, s))
                    continue
                chk("minimum-norm-least-squares-solve-vector", [row[0] for row in X], cplx(res["x"]), xsc)
                chk("minimum-norm-least-squares-solve-matrix", X, cplx(res["X"]), xsc)
                if "inv" in res and (rank == min(m, n) and m == n or what == "SVD"):
                    chk("inverse" if rank == n == m else "pseudo-inverse", pinv, cplx(res["inv"]), cond / smin)
                if what == "SVD":
                    sv = sorted([abs(x) for x in s], reverse=True)
                    chk("singular-values-descending", sv, [x[0] for x in res["sv"]], smax)
                    chk("singular-values-descending(with vectors)", sv, [x[0] for x in res["sv2"]], smax)
                    if any(x[0] < 0 for x in res["sv"]):
                        rep.violation(tag + "/negative-singular-value", {"case": c}, "singular values %s" % res["sv"])
                    Um, Vt = cplx(res["U"]), cplx(res["Vt"])
                    svl = [x[0] for x in res["sv2"]]
                    rec = [[sum(Um[i][t] * svl[t] * Vt[t][j] for t in range(len(svl))) for j in range(n)] for i in range(m)]
                    chk("U-S-V'-reconstructs-A", A, rec, smax)
                    UtU = [[sum(Um[t][i].conjugate() * Um[t][j] for t in range(len(Um))) for j in range(len(Um[0]))] for i in range(len(Um[0]))]
                    chk("U-orthonormal", [[1.0 if i == j else 0.0 for j in range(len(UtU))] for i in range(len(UtU))], UtU, 1.0)
                    VVt = [[sum(Vt[i][t] * Vt[j][t].conjugate() for t in range(len(Vt[0]))) for j in range(len(Vt))] for i in range(len(Vt))]
                    chk("V-orthonormal", [[1.0 if i == j else 0.0 for j in range(len(VVt))] for i in range(len(VVt))], VVt, 1.0)
            elif what == "Eigen":
                vals = cplx(res["vals"]); vecs = cplx(res["vecs"])
                # eigenvalues: the multiset D (matched greedily)
                left = list(vals); worstd = 0.0
                for dval in sorted(s):
                    j = min(range(len(left)), key=lambda j: abs(left[j] - dval))
                    worstd = max(worstd, abs(left[j] - dval)); left.pop(j)
                chk("eigenvalues", [0.0], [worstd], smax * n)
                left = list(cplx(res["vals2"])); worstd = 0.0
                for dval in sorted(s):
                    j = min(range(len(left)), key=lambda j: abs(left[j] - dval))
                    worstd = max(worstd, abs(left[j] - dval)); left.pop(j)
                chk("eigenvalues(values only)", [0.0], [worstd], smax * n)
                # A v = lambda v for every returned pair, v not zero
                resid, vmin = 0.0, 1e9
                for j in range(n):
                    v = [vecs[i][j] for i in range(n)]
                    Av = [sum(A[i][t] * v[t] for t in range(n)) for i in range(n)]
                    resid = max(resid, max(abs(Av[i] - vals[j] * v[i]) for i in range(n)))
                    vmin = min(vmin, math.sqrt(sum(abs(x) ** 2 for x in v)))
                chk("A-v-equals-lambda-v", [0.0], [resid], smax * n)
                if vmin < 0.5:
                    rep.violation(tag + "/eigenvector-not-normalised", {"case": c}, "an eigenvector of norm %.3g was returned" % vmin)
    cov["cases"] = len(cases)
    cov["cases_by_kind_and_style"] = kinds
    cov["largest_error_over_allowed_seen"] = {k: float("%.3g" % v) for k, v in sorted(worst.items(), key=lambda kv: -kv[1])[:12]}
    cov["invariants_checked_by_TLC_per_case"] = ["U'U = I", "V'V = I", "A v_k = s_k u_k (and A v_k = 0 beyond min(m, n))", "A symmetric for U D U'"]
    cov["samples"] = [{"case": {k: v for k, v in cases[0].items() if k != "A"}, "expected_A": want[0]["A"]}]
    cov["uncovered"] = ["matrices whose factors are not lattice rotations; nearly singular matrices (condition numbers above ~30); sizes above 9", "complex matrices that are not real ones stored as complex",
                        "non-symmetric eigenproblems, the getFew* selections, condition estimates and determinants"]
    cov["exhaustive"] = False
    if len(rep.violations) > 30:
        rep.violations = rep.violations[:30]
    return rep.finish("model_checking", cov, assumptions=["factors are direct sums of lattice rotations with permuted rows, singular values / eigenvalues small integers (condition number <= 20)",
                                                          "results compared within 200 eps max(m,n) times the size and conditioning of the quantity (eps of the element type)"])


if __name__ == "__main__":
    try:
        sys.exit(main())
    except vlib.Infra as e:
        print("INFRA-ERROR: %s" % e)
        sys.exit(2)
