"""Normalise raw record_exec output: thread ids, scenario splitting."""
import json

def scenarios(path):
    cur = None
    for line in open(path):
        o = json.loads(line)
        if "kind" in o:
            if cur: yield cur
            cur = (o, [])
        else:
            cur[1].append(o)
    if cur: yield cur

def thread_ids(events):
    """tid -> 0 for main, info.index+1 for executor workers (learned from PE.* events)."""
    ids = {}
    for e in events:
        if e["main"]:
            ids[e["tid"]] = 0
        elif e["e"].startswith("PE.") and e["e"] not in ("PE.publish", "PE.return", "PE.shut", "PE.joined",
                                                          "PE.inline", "PE.inlineDone"):
            ids.setdefault(e["tid"], e["a"] + 1)
    return ids
