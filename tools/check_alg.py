#!/usr/bin/env python3
"""C27 (rotations / transforms) and C29 (inertia / spatial algebra) on the exact lattice (engine E7b).

spec/Lattice/LatticeAlg.tla evaluates exactly, for every generated case, what the DEFINITIONS give (products
of elementary rotations for body- / space-fixed sequences over all axis sequences, quaternion and Rodrigues
formulas, two-axis construction, composition / inversion of rotations and transforms; parallel-axis shift and
re-expression of inertias and mass properties, spatial inertia times spatial velocity, kinetic energy,
validity conditions).  harness/replay_alg evaluates the same cases with the real classes in double and float,
plus the round trips (angles, quaternion, angle-axis, body-fixed XYZ) of every rotation, and this script
compares.
"""
import json, os, sys, subprocess, random, itertools
sys.path.insert(0, os.path.dirname(os.path.abspath(__file__)))
import vlib
from vlib import VERIF
from check_lattice import conv, maxdiff

SPEC = os.path.join(VERIF, "spec", "Lattice")
AXES = "xyz"
SEQS = [s for n in (1, 2, 3) for s in itertools.product(AXES, repeat=n) if all(s[i] != s[i + 1] for i in range(n - 1))]
QUATS = [([1, 0, 0, 0], 0), ([0, 1, 0, 0], 0), ([0, 0, 0, 1], 0), ([0, 0, -1, 0], 0), ([3, 4, 0, 0], 1), ([3, 0, -4, 0], 1), ([0, 3, 0, 4], 1),
         ([4, 0, 0, 3], 1), ([0, 0, 3, -4], 1), ([1, 2, 2, 4], 1), ([2, -1, 4, 2], 1), ([-2, 4, 1, 2], 1), ([-1, -2, -2, -4], 1), ([0, -3, -4, 0], 1),
         ([7, 24, 0, 0], 2), ([0, 7, 0, -24], 2), ([9, 12, 20, 0], 2)]
UAXES = [([1, 0, 0], 0), ([0, 1, 0], 0), ([0, 0, -1], 0), ([3, 4, 0], 1), ([0, 3, 4], 1), ([4, 0, 3], 1), ([-3, 0, 4], 1), ([0, -4, 3], 1), ([15, 20, 0], 2), ([9, 12, 20], 2)]
INERTIAS = [[2, 3, 4], [4, 3, 2], [2, 2, 3], [1, 1, 1], [3, 4, 2], [0, 2, 2], [2, 2, 0], [1, 1, 2]]    # incl. thin rod / disc limits


def ang(r, singular=None):
    if singular is not None:
        return {"k": singular, "m": 0}
    return {"k": r.randrange(4), "m": r.choice([0, 1, -1, 1, -1, 2, -2])}


def seqrot(r, seq=None, bs=None, maxm=3):
    seq = seq or r.choice(SEQS)
    a = [ang(r) for _ in seq]
    while sum(abs(x["m"]) for x in a) > maxm:
        a[r.randrange(len(a))]["m"] = 0
    return {"bs": r.randint(0, 1) if bs is None else bs, "ax": list(seq), "ang": a}


def vec(r, lo=-2, hi=2):
    return [r.randint(lo, hi) for _ in range(3)]


def generate(tier, seed):
    r = random.Random(seed)
    cases = []
    reps = 4 if tier == "quick" else 40
    for s in SEQS:
        for bs in (0, 1):
            for _ in range(reps):
                cases.append({"kind": "seq", "r": seqrot(r, s, bs)})
            if len(s) == 3:      # the singular neighbourhood: middle angle at every multiple of 90 degrees
                for k in range(4):
                    c = seqrot(r, s, bs)
                    c["ang"][1] = ang(r, k)
                    cases.append({"kind": "seq", "r": c})
    for comp, e in QUATS:
        cases.append({"kind": "quat", "q": [{"k": v, "m": e} for v in comp]})
    for ax, e in UAXES:
        for _ in range(reps):
            a = ang(r)
            cases.append({"kind": "angleaxis", "ang": a, "axis": {"n": ax, "e": e}})
    for _ in range(12 * reps):
        ai, aj = r.sample(AXES, 2)
        cases.append({"kind": "twoaxes", "r": seqrot(r, maxm=2), "ai": ai, "aj": aj, "mix": r.randint(-2, 2)})
    for _ in range(15 * reps):
        cases.append({"kind": "compose", "r1": seqrot(r, maxm=2), "r2": seqrot(r, maxm=2), "p1": vec(r), "p2": vec(r), "v": vec(r, -3, 3)})
    for _ in range(15 * reps):
        cases.append({"kind": "inertia", "r": seqrot(r, maxm=2), "ic": r.choice(INERTIAS), "mass": r.choice([2, 3, 5, 1]), "com": vec(r), "w": vec(r), "v": vec(r), "s": vec(r)})
    # angular-velocity helpers (C28): body-fixed x-y-z angles away from the singular middle angle; rational unit quaternions
    for _ in range(25 * reps):
        q = [ang(r), ang(r), ang(r)]
        if q[1]["m"] == 0:
            q[1]["k"] = r.choice([0, 2])
        while sum(abs(x["m"]) for x in q) > 3:
            q[r.choice([0, 2])]["m"] = 0
        cases.append({"kind": "nxyz", "q": q, "qd": vec(r, -3, 3), "qdd": vec(r, -3, 3)})
    for comp, e in QUATS:
        for _ in range(max(1, reps // 2)):
            cases.append({"kind": "nquat", "q": [{"k": v, "m": e} for v in comp], "w": vec(r, -3, 3), "wd": vec(r, -3, 3)})
    if tier == "quick":
        for _ in range(1500):
            cases.append({"kind": "valid", "d": [r.randint(-1, 4) for _ in range(3)], "p": vec(r)})
    else:
        for d in itertools.product(range(-1, 5), repeat=3):
            for p in itertools.product(range(-2, 3), repeat=3):
                cases.append({"kind": "valid", "d": list(d), "p": list(p)})
    return cases


def nq_times(c, o):
    """N(q) * wd computed here from the quaternion (N is linear in q: the library's N is checked through the rate)"""
    q = [x["k"] / 5.0 ** x["m"] for x in c["q"]]
    e = [x / 2 for x in q]
    N = [[-e[1], -e[2], -e[3]], [e[0], e[3], -e[2]], [-e[3], e[0], e[1]], [e[2], -e[1], e[0]]]
    return [sum(N[i][k] * c["wd"][k] for k in range(3)) for i in range(4)]


def main():
    pid = sys.argv[1]
    tier, replay = "quick", None
    args = sys.argv[2:]
    while args:
        a = args.pop(0)
        if a == "--tier":
            tier = args.pop(0)
        elif a == "--replay":
            replay = args.pop(0)
    tier = os.environ.get("VERIF_TIER", tier)
    rep = vlib.Report(pid, tier)
    work = vlib.workdir("alg-" + pid)
    vlib.build_repo()
    binpath = vlib.compile_harness(os.path.join(VERIF, "harness", "replay_alg.cpp"), os.path.join(VERIF, ".build", "bin", "replay_alg"),
                                   extra=["-I" + os.path.join(VERIF, "harness")], libs=("SimTKcommon",))
    cov = {"states": 0, "transitions": 0, "traces_validated_against_impl": 0, "samples": []}
    mine = ("seq", "quat", "angleaxis", "twoaxes", "compose") if pid == "C27" else ("nxyz", "nquat") if pid == "C28" else ("inertia", "valid")
    cases = [json.load(open(replay))["replay"]["case"]] if replay else [c for c in generate(tier, vlib.seed()) if c["kind"] in mine]
    pfile = os.path.join(work, "cases.ndjson")
    with open(pfile, "w") as f:
        for c in cases:
            f.write(json.dumps(c) + "\n")
    r = vlib.run_tlc(SPEC, "LatticeAlg.tla", "LatticeAlg.cfg", "alg-" + pid, workers=1, timeout=3000, xmx="8g", env={"TRACE": pfile})
    got = [json.loads(s) for s in vlib.tla_strings(r.out, "OUT ")]
    if r.error or len(got) != len(cases):
        raise vlib.Infra("LatticeAlg evaluation failed (%d of %d): %s\n%s" % (len(got), len(cases), r.error, r.out[-1500:]))
    cov["states"] += r.distinct
    cov["transitions"] += r.states
    want = [conv(g["r"]) for g in got]
    for c, w in zip(cases, want):
        if c["kind"] == "twoaxes":
            c["uvec"], c["vvec"] = w["u"], w["v"]
        if c["kind"] == "nxyz":
            c["wB"], c["wBd"], c["wP"], c["wPd"] = w["wB"], w["wBd"], w["wP"], w["wPd"]
        if c["kind"] == "nquat":
            c["qdot"] = [x / 2 for x in w["qd2"]]
    with open(pfile, "w") as f:
        for c in cases:
            f.write(json.dumps(c) + "\n")
    ofile = os.path.join(work, "out.ndjson")
    pr = subprocess.run(["timeout", "1200", binpath, pfile, ofile], capture_output=True, text=True)
    outs = vlib.read_ndjson(ofile)
    if pr.returncode != 0 or len(outs) != 2 * len(cases):
        rep.violation("crash", {"stderr": pr.stderr[-300:]}, "harness died (exit %s) after %d results: %s" % (pr.returncode, len(outs), pr.stderr[-300:]))
    kinds = {}
    for o in outs:
        c, w = cases[o["i"] - 1], want[o["i"] - 1]
        kinds[c["kind"]] = kinds.get(c["kind"], 0) + 1
        cov["traces_validated_against_impl"] += 1
        tol = 1e-9 if o["prec"] == "double" else 3e-5
        tag = c["kind"] + ("/" + ("space-" if c["r"]["bs"] else "body-") + "".join(c["r"]["ax"]) if c["kind"] == "seq" else "")

        def chk(what, a, b, factor=1.0):
            d, sc = maxdiff(a, b)
            if not d <= tol * factor * sc:
                rep.violation("%s/%s/%s" % (tag, what, o["prec"]), {"case": c},
                              "%s of %s (%s precision): the definition gives %s, the library %s (max difference %.3g)" % (what, json.dumps(c)[:300], o["prec"], json.dumps(a)[:200], json.dumps(b)[:200], d))
        if o.get("exc"):
            rep.violation("%s/exception/%s" % (tag, o["prec"]), {"case": c}, "%s raised: %s" % (json.dumps(c)[:300], o["exc"]))
            continue
        if c["kind"] in ("seq", "quat", "angleaxis", "twoaxes"):
            chk("matrix", w["R"], o["R"])
            chk("round-trip", w["R"], o["Rrt"], 10)
            chk("quaternion-round-trip", w["R"], o["Rq"], 10)
            chk("angle-axis-round-trip", w["R"], o["Raa"], 10)
            chk("body-xyz-round-trip", w["R"], o["Rb"], 100)
            if not o["ortho"] <= tol * 10:
                rep.violation("%s/not-orthonormal/%s" % (tag, o["prec"]), {"case": c}, "a rotation produced for %s is not proper orthonormal (error %.3g)" % (json.dumps(c)[:300], o["ortho"]))
            if abs(o["qnorm"] - 1) > tol * 10:
                rep.violation("%s/quaternion-not-unit/%s" % (tag, o["prec"]), {"case": c}, "quaternion norm %.17g" % o["qnorm"])
        elif c["kind"] == "nxyz":
            mm = lambda A, B: [[sum(A[i][k] * B[k][j] for k in range(3)) for j in range(3)] for i in range(3)]
            mv = lambda A, v: [sum(A[i][k] * v[k] for k in range(3)) for i in range(3)]
            I3 = [[1.0, 0, 0], [0, 1.0, 0], [0, 0, 1.0]]
            neg = lambda A: [[-x for x in row] for row in A]
            f = 50.0     # 1/cos of the middle angle enters
            chk("NInv-body-is-the-kinematic-map", w["Wb"], o["NinvB"], f)
            chk("NInv-parent-is-the-kinematic-map", w["Wp"], o["NinvP"], f)
            chk("N-times-NInv-body", I3, mm(o["NB"], w["Wb"]), f)
            chk("N-times-NInv-parent", I3, mm(o["NP"], w["Wp"]), f)
            chk("NDot-body-is-the-derivative-of-N", neg(mm(mm(o["NB"], w["Wbd"]), o["NB"])), o["NdotB"], f * f)
            chk("NDot-parent-is-the-derivative-of-N", neg(mm(mm(o["NP"], w["Wpd"]), o["NP"])), o["NdotP"], f * f)
            chk("angular-velocity-from-angle-rates", w["wB"], o["wB"], f)
            chk("angle-rates-from-angular-velocity-body", c["qd"], o["qdB"], f)
            chk("angle-accelerations-body", c["qdd"], o["qddB"], f * f)
            chk("angle-rates-from-angular-velocity-parent", c["qd"], o["qdP"], f)
            chk("angle-accelerations-parent", c["qdd"], o["qddP"], f * f)
            probe = [1.0, -2.0, 3.0]
            WpT = [[w["Wp"][j][i] for j in range(3)] for i in range(3)]
            chk("multiplyBy-NInv", mv(w["Wp"], probe), o["mNinv"], f)
            chk("multiplyBy-NInvT", mv(WpT, probe), o["mNinvT"], f)
            chk("multiplyBy-N", probe, mv(w["Wp"], o["mN"]), f)
            chk("multiplyBy-NT", probe, mv(WpT, o["mNT"]), f)
        elif c["kind"] == "nquat":
            I3 = [[1.0, 0, 0], [0, 1.0, 0], [0, 0, 1.0]]
            chk("quaternion-rate", [x / 2 for x in w["qd2"]], o["qd"])
            chk("quaternion-acceleration", [x / 4 for x in w["qdd4"]], o["qdd"], 10)
            chk("NDot-times-w", [a - b for a, b in zip([x / 4 for x in w["qdd4"]], [sum(0 for _ in ()) for _ in range(4)])], [a + b for a, b in zip(o["Ndw"], nq_times(c, o))], 10)
            chk("angular-velocity-from-quaternion-rate", c["w"], o["wback"])
            chk("NInv-times-N", I3, o["NiN"])
            chk("NInv-times-N-unnormalised", [[4.0 * x for x in row] for row in I3], o["NiN2"])
        elif c["kind"] == "compose":
            for k in ("R12", "Ri12", "R1i2", "R1v", "Ri1v", "X12R", "X12p", "XiR", "Xip", "X1v", "Xi1v"):
                chk(k, w[k], o[k])
            if not o["ortho"] <= tol * 10:
                rep.violation("compose/not-orthonormal/%s" % o["prec"], {"case": c}, "a composed rotation is not proper orthonormal (error %.3g)" % o["ortho"])
        elif c["kind"] == "inertia":
            for k, ok in (("Io", "Io"), ("Ic", "Ic"), ("Ic", "Ic2"), ("IoG", "IoG"), ("IoG", "IoG2"), ("comG", "comG"), ("IcG", "IcG"), ("Mw", "Mw"), ("Mv", "Mv"),
                          ("ke2", "ke2"), ("ke2", "ke2s"), ("Ios", "Ios"), ("Ios", "Ios2"), ("coms", "coms"), ("coms", "coms2")):
                chk(ok, w[k], o[ok], 10)
            if not o["valid"]:
                rep.violation("inertia/valid-inertia-rejected/%s" % o["prec"], {"case": c}, "the shifted inertia of %s is reported invalid" % json.dumps(c)[:300])
        elif c["kind"] == "valid":
            if bool(o["ok"]) != bool(got[o["i"] - 1]["r"]["ok"]):
                rep.violation("valid/%s/%s" % ("accepts-invalid" if o["ok"] else "rejects-valid", o["prec"]), {"case": c},
                              "isValidInertiaMatrix(moments %s, products %s) = %s but the conditions (nonnegative moments, triangle inequalities, product limits) say %s"
                              % (c["d"], c["p"], bool(o["ok"]), bool(got[o["i"] - 1]["r"]["ok"])))
    cov["cases"] = len(cases)
    cov["cases_by_kind_and_precision"] = kinds
    cov["axis_sequences"] = len(SEQS) * 2
    cov["samples"] = [{"case": cases[0], "expected": want[0]}, {"case": cases[-1], "expected": want[-1]}]
    cov["uncovered"] = ["rotations off the lattice; nearly-orthogonal input matrices (closest-rotation fitting); neighbourhoods (not exact points) of the singular configurations",
                        "ArticulatedInertia"] if pid == "C27" else ["orientations off the lattice", "the body-fixed 3-2-1 helpers", "unnormalised quaternions other than 2q"] if pid == "C28" else ["inertias off the lattice", "ArticulatedInertia", "rejection by throwing (compiled out under NDEBUG; the predicate isValidInertiaMatrix is compared instead)"]
    cov["exhaustive"] = False
    if len(rep.violations) > 30:
        rep.violations = rep.violations[:30]
    return rep.finish("model_checking", cov, assumptions=["lattice values only; double compared within 1e-9, float within 3e-5 (relative to magnitude; looser for round trips)"])


if __name__ == "__main__":
    try:
        sys.exit(main())
    except vlib.Infra as e:
        print("INFRA-ERROR: %s" % e)
        sys.exit(2)
