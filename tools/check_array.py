#!/usr/bin/env python3
"""C26 -- Array_ and pointer wrappers have value semantics (engine E6).

spec/Data/ArrayModel.tla gives every mutator of Array_/ArrayView_ its std::vector meaning over two
arrays of element values; spec/Data/PtrModel.tla gives ClonePtr, CloneOnWritePtr, ReferencePtr,
ResetOnCopy and ReinitOnCopy their documented copy semantics over three handles.  TLC checks the
models (type invariants, independence of ClonePtr copies) and generates behaviours (random walks with
the expected post-state after every action); harness/replay_array executes them on Array_<T> for a
counting element type (constructions/destructions, double destruction aborts), int and a move-only
type, harness/replay_ptr on the real wrappers; contents, order, sizes, capacity >= size, the number of
live element objects (= total size: each element constructed and destroyed exactly once) and the
handles' projections (null, value, use count) are compared after EVERY action.
"""
import json, os, sys, subprocess, random, hashlib
sys.path.insert(0, os.path.dirname(os.path.abspath(__file__)))
import vlib
from vlib import VERIF

SPEC = os.path.join(VERIF, "spec", "Data")


def walks(module, cfgtext, name, num, depth, seed):
    with open(os.path.join(SPEC, ".gen.cfg"), "w") as f:
        f.write(cfgtext)
    r = vlib.run_tlc(SPEC, module, ".gen.cfg", name, workers=4, timeout=1500, simulate="num=%d" % num,
                     extra=["-depth", str(depth + 1), "-seed", str(seed)])
    out, seen = [], set()
    for s in vlib.tla_strings(r.out, "PROG "):
        h = hashlib.sha1(s.encode()).hexdigest()
        if h not in seen:
            seen.add(h)
            out.append(json.loads(s))
    if not out:
        raise vlib.Infra("generator %s produced nothing\n%s" % (module, r.out[-1500:]))
    return out


def main():
    tier, replay = "quick", None
    args = sys.argv[1:]
    while args:
        a = args.pop(0)
        if a == "--tier":
            tier = args.pop(0)
        elif a == "--replay":
            replay = args.pop(0)
    tier = os.environ.get("VERIF_TIER", tier)
    rep = vlib.Report("C26", tier)
    seed = vlib.seed()
    rnd = random.Random(seed)
    work = vlib.workdir("C26")
    vlib.build_repo()
    abin = vlib.compile_harness(os.path.join(VERIF, "harness", "replay_array.cpp"), os.path.join(VERIF, ".build", "bin", "replay_array"),
                                extra=["-I" + os.path.join(VERIF, "harness")], libs=("SimTKcommon",))
    pbin = vlib.compile_harness(os.path.join(VERIF, "harness", "replay_ptr.cpp"), os.path.join(VERIF, ".build", "bin", "replay_ptr"),
                                extra=["-I" + os.path.join(VERIF, "harness")], libs=("SimTKcommon",))
    cov = {"states": 0, "transitions": 0, "traces_validated_against_impl": 0, "samples": []}
    # design checks
    with open(os.path.join(SPEC, ".mc.cfg"), "w") as f:
        f.write("SPECIFICATION Spec\nCONSTANTS\n  MaxLen = 2\n  Vals = {1, 2}\nINVARIANT TypeOK\nVIEW View\nCHECK_DEADLOCK FALSE\n")
    r = vlib.run_tlc(SPEC, "ArrayModel.tla", ".mc.cfg", "C26-mc", workers=16, timeout=1500, xmx="8g")
    if r.error or r.violated:
        raise vlib.Infra("ArrayModel design check: %s %s" % (r.error, r.violated))
    cov["states"] += r.distinct
    cov["transitions"] += r.states
    with open(os.path.join(SPEC, ".mc.cfg"), "w") as f:
        f.write("SPECIFICATION Spec\nCONSTANTS\n  Kinds <- AllKinds\n  Vals = {1, 2}\nINVARIANT CloneIndependent\nCONSTRAINT Small\nCHECK_DEADLOCK FALSE\n")
    r = vlib.run_tlc(SPEC, "PtrMC.tla", ".mc.cfg", "C26-mcp", workers=16, timeout=1500, xmx="8g")
    if r.error or r.violated:
        raise vlib.Infra("PtrModel design check: %s %s" % (r.error, r.violated))
    cov["states"] += r.distinct
    cov["transitions"] += r.states
    n, d = (60, 80) if tier == "quick" else (500, 300)
    MOPS = ["push_back", "emplace_back", "pop_back", "erase", "eraseRange", "eraseFast", "reserve", "shrink_to_fit", "clear",
            "swap", "moveAssign", "setElt", "handle"]
    AOPS = MOPS + ["insert", "insertN", "insertRange", "resize", "resizeV", "assignN", "assignRange", "copyAssign", "copyConstruct",
                   "viewFill", "viewAssign"]

    def gen_prog(ops, length):
        """random action list; arguments are drawn against the checker's own bookkeeping of the two
        LENGTHS only (values and the meaning of every action come from the specification)"""
        ln = {"a": 0, "b": 0}
        prog = []
        while len(prog) < length:
            op = rnd.choice(ops) if rnd.random() < 0.7 else rnd.choice([o for o in ops if o in ("push_back", "emplace_back", "insert", "insertN", "resizeV", "assignN")])
            x = rnd.choice("ab"); o = "b" if x == "a" else "a"
            a = {"op": op, "x": x, "v": rnd.randrange(1, 10), "i": 0, "j": 0, "k": 0, "n": 0}
            L, M = ln[x], ln[o]
            if op in ("push_back", "emplace_back"):
                if L >= 8: continue
                ln[x] += 1
            elif op == "pop_back":
                if L == 0: continue
                ln[x] -= 1
            elif op == "insert":
                if L >= 8: continue
                a["i"] = rnd.randrange(L + 1); ln[x] += 1
            elif op == "insertN":
                a["n"] = rnd.randrange(0, 4)
                if L + a["n"] > 8: continue
                a["i"] = rnd.randrange(L + 1); ln[x] += a["n"]
            elif op == "insertRange":
                a["j"] = rnd.randrange(M + 1); a["k"] = rnd.randrange(a["j"], M + 1)
                if L + a["k"] - a["j"] > 8: continue
                a["i"] = rnd.randrange(L + 1); ln[x] += a["k"] - a["j"]
            elif op in ("erase", "eraseFast", "setElt"):
                if L == 0: continue
                a["i"] = rnd.randrange(L)
                if op != "setElt": ln[x] -= 1
            elif op == "eraseRange":
                a["i"] = rnd.randrange(L + 1); a["j"] = rnd.randrange(a["i"], L + 1); ln[x] -= a["j"] - a["i"]
            elif op in ("resize", "resizeV", "assignN"):
                a["n"] = rnd.randrange(0, 9); ln[x] = a["n"]
            elif op == "reserve":
                a["n"] = rnd.randrange(0, 11)
            elif op == "assignRange":
                a["j"] = rnd.randrange(M + 1); a["k"] = rnd.randrange(a["j"], M + 1); ln[x] = a["k"] - a["j"]
            elif op == "clear":
                ln[x] = 0
            elif op == "swap":
                ln["a"], ln["b"] = ln["b"], ln["a"]
            elif op in ("copyAssign", "copyConstruct"):
                ln[x] = M
            elif op == "moveAssign":
                ln[x] = M; ln[o] = 0
            elif op == "handle":
                a["i"] = rnd.randrange(L + 1); a["n"] = rnd.randrange(0, L - a["i"] + 1); a["j"] = rnd.randrange(2); a["k"] = rnd.randrange(5)
            elif op == "viewFill":
                a["i"] = rnd.randrange(L + 1); a["n"] = rnd.randrange(0, L - a["i"] + 1)
            elif op == "viewAssign":
                a["n"] = rnd.randrange(0, min(L, M) + 1); a["i"] = rnd.randrange(L - a["n"] + 1); a["j"] = rnd.randrange(M - a["n"] + 1)
            prog.append(a)
        return prog

    raw = [gen_prog(AOPS, d) for _ in range(n)] + [gen_prog(MOPS, d) for _ in range(n // 3)]
    tfile = os.path.join(work, "acts.ndjson")
    with open(tfile, "w") as f:
        for pr1 in raw:
            f.write(json.dumps({"op": "reset", "x": "a", "v": 0, "i": 0, "j": 0, "k": 0, "n": 0}) + "\n")
            for a in pr1:
                f.write(json.dumps(a) + "\n")
    r = vlib.run_tlc(SPEC, "ArrayTrace.tla", "ArrayTrace.cfg", "C26-pred", workers=1, timeout=2400, env={"TRACE": tfile}, xmx="8g")
    exps = {e["i"]: e for e in (json.loads(s1) for s1 in vlib.tla_strings(r.out, "EXP "))}
    total = sum(len(p1) + 1 for p1 in raw)
    if len(exps) < total:
        raise vlib.Infra("ArrayTrace interpreter stopped early (%d of %d): %s\n%s" % (len(exps), total, r.error, r.out[-1200:]))
    cov["transitions"] += r.states
    progs_all, ln0 = [], 0
    for pr1 in raw:
        ln0 += 1
        steps = []
        for a in pr1:
            ln0 += 1
            e = exps[ln0]
            if not e["ok"]:
                raise vlib.Infra("the checker generated an action the specification does not enable: %s" % json.dumps(a))
            steps.append({"act": a, "a": e["a"], "b": e["b"]})
        progs_all.append(steps)
    aw, mw = progs_all[:n], progs_all[n:]
    pw = walks("PtrGen.tla", "SPECIFICATION GenSpec\nCONSTANTS\n  Kinds <- AllKinds\n  Vals = {1, 2, 3}\n  Depth = 11\nINVARIANTS Emit CloneIndependent\nCHECK_DEADLOCK FALSE\n",
               "C26-gp", n * 2, 11, seed)
    rnd.shuffle(pw)
    pw = pw[:n * 4]
    cov["array_walks"], cov["move_only_walks"], cov["pointer_walks"] = len(aw), len(mw), len(pw)
    # arrays
    progs = aw + mw
    pfile, ofile = os.path.join(work, "arr.ndjson"), os.path.join(work, "arr.out.ndjson")
    with open(pfile, "w") as f:
        for pr in progs:
            f.write(json.dumps(pr) + "\n")
    pr = subprocess.run(["timeout", "1200", abin, pfile, ofile], capture_output=True, text=True)
    outs = vlib.read_ndjson(ofile)
    if pr.returncode != 0:
        last = outs[-1] if outs else {}
        rep.violation("array-crash", {"program": progs[last.get("prog", 1) - 1], "stderr": pr.stderr[-300:]},
                      "Array_ harness died (exit %s, %s) in program %s after step %s with element type %s"
                      % (pr.returncode, pr.stderr[-120:].strip(), last.get("prog"), last.get("step"), last.get("type")))
    nact = 0
    seen = set()
    for o in outs:
        prog = progs[o["prog"] - 1]
        if o["step"] == -1:
            if o["live"] != 0:
                rep.violation("leak/" + o["type"], {"program": prog}, "%d element objects of type %s still alive after both arrays were destroyed" % (o["live"], o["type"]))
            continue
        exp = prog[o["step"] - 1]
        nact += 1
        why = None
        if o["exc"]:
            why = "exception " + o["exc"]
        elif o["a"] != exp["a"] or o["b"] != exp["b"]:
            why = "contents a=%s b=%s, std::vector meaning gives a=%s b=%s" % (o["a"], o["b"], exp["a"], exp["b"])
        elif o["type"] != "int" and o["live"] != len(exp["a"]) + len(exp["b"]):
            why = "%d live element objects for %d elements" % (o["live"], len(exp["a"]) + len(exp["b"]))
        elif not o["capOK"]:
            why = "capacity below size"
        elif o["note"]:
            why = o["note"]
        if why:
            key = "array/%s/%s" % (exp["act"]["op"], o["type"])
            if key not in seen:
                seen.add(key)
                rep.violation(key, {"program": prog[:o["step"]], "type": o["type"]},
                              "Array_<%s>: after %s (step %d): %s; previous steps %s" % (o["type"], json.dumps(exp["act"]), o["step"], why,
                                                                                     json.dumps([s["act"] for s in prog[max(0, o["step"] - 4):o["step"] - 1]])))
    cov["array_actions_replayed"] = nact
    cov["traces_validated_against_impl"] += len(progs)
    # pointer wrappers
    pfile, ofile = os.path.join(work, "ptr.ndjson"), os.path.join(work, "ptr.out.ndjson")
    with open(pfile, "w") as f:
        for pr1 in pw:
            f.write(json.dumps(pr1) + "\n")
    pr = subprocess.run(["timeout", "1200", pbin, pfile, ofile], capture_output=True, text=True)
    outs = vlib.read_ndjson(ofile)
    if pr.returncode != 0:
        rep.violation("ptr-crash", {"stderr": pr.stderr[-300:]}, "pointer-wrapper harness died (exit %s)" % pr.returncode)
    np = 0
    for o in outs:
        prog = pw[o["prog"] - 1]
        exp = prog["prog"][o["step"] - 1]
        np += 1
        if o["exc"] or o["proj"] != exp["proj"]:
            key = "ptr/%s/%s" % (prog["kind"], exp["act"]["op"])
            if key not in seen:
                seen.add(key)
                rep.violation(key, {"kind": prog["kind"], "program": prog["prog"][:o["step"]]},
                              "%s: after %s the handles show %s, the documented semantics give %s %s (history %s)"
                              % (prog["kind"], json.dumps(exp["act"]), json.dumps(o["proj"]), json.dumps(exp["proj"]), o["exc"],
                                 json.dumps([s["act"] for s in prog["prog"][:o["step"] - 1]])))
    cov["pointer_actions_replayed"] = np
    cov["traces_validated_against_impl"] += len(pw)
    cov["samples"] = [{"array_program": [s["act"] for s in aw[0][:8]], "expected_after": {"a": aw[0][7]["a"], "b": aw[0][7]["b"]}},
                      {"pointer_kind": pw[0]["kind"], "program": pw[0]["prog"][:4]}]
    cov["uncovered"] = ["adoptData / shareData (non-owning Array_)", "reverse iterators", "Array_ index types other than unsigned"]
    return rep.finish("model_checking", cov, assumptions=["element values stand for element identities; the counting type aborts on double destruction"])


if __name__ == "__main__":
    try:
        sys.exit(main())
    except vlib.Infra as e:
        print("INFRA-ERROR: %s" % e)
        sys.exit(2)
