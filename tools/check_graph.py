#!/usr/bin/env python3
"""C42 -- MultibodyGraphMaker always produces a valid spanning tree (engine E5).

spec/Graph/GraphSpec.tla states the property as a predicate ValidTree(input, output) (every body
mobilized exactly once plus slaves, inboard-first order with levels, every joint exactly once as
mobilizer or loop constraint with its own bodies, must-be-loop / must-be-base honoured, no massless
mobile body ending a branch) -- or an error.  spec/Graph/GraphGen.tla enumerates EVERY input up to the
bound; harness/replay_graph runs the real MultibodyGraphMaker on each; TLC evaluates the predicate on
every recorded (input, output) pair.
"""
import json, os, re, sys, subprocess, random
sys.path.insert(0, os.path.dirname(os.path.abspath(__file__)))
import vlib
from vlib import VERIF

SPEC = os.path.join(VERIF, "spec", "Graph")


def rand_input(rnd, nbmax, njmax):
    nb = rnd.randrange(1, nbmax + 1)
    base = [False] * nb
    if rnd.random() < 0.3:
        base[rnd.randrange(nb)] = True
    joints = []
    for _ in range(rnd.randrange(0, njmax + 1)):
        p = rnd.randrange(0, nb + 1)
        c = rnd.randrange(1, nb + 1)
        if p == c:
            continue
        joints.append({"type": rnd.choice(("weld", "pin", "pin", "cyl")), "p": p, "c": c, "loop": rnd.random() < 0.15})
    return {"nb": nb, "mass": [0 if rnd.random() < 0.25 else 1 for _ in range(nb)], "base": base, "joints": joints}


def main():
    tier, replay = "quick", None
    args = sys.argv[1:]
    while args:
        a = args.pop(0)
        if a == "--tier":
            tier = args.pop(0)
        elif a == "--replay":
            replay = args.pop(0)
    tier = os.environ.get("VERIF_TIER", tier)
    rep = vlib.Report("C42", tier)
    rnd = random.Random(vlib.seed())
    work = vlib.workdir("C42")
    vlib.build_repo()
    binpath = vlib.compile_harness(os.path.join(VERIF, "harness", "replay_graph.cpp"), os.path.join(VERIF, ".build", "bin", "replay_graph"),
                                   extra=["-I" + os.path.join(VERIF, "harness")], libs=("SimTKmath", "SimTKcommon"))
    cov = {"states": 0, "transitions": 0, "traces_validated_against_impl": 0, "samples": []}
    if replay:
        inputs = [json.load(open(replay))["replay"]["input"]]
    else:
        mb, mj_ = (2, 2) if tier == "quick" else (3, 3)
        with open(os.path.join(SPEC, ".gen.cfg"), "w") as f:
            f.write('SPECIFICATION Spec\nCONSTANTS\n  MaxBodies = %d\n  MaxJoints = %d\n  Types = {"weld", "pin", "cyl"}\nINVARIANT Emit\nCHECK_DEADLOCK FALSE\n' % (mb, mj_))
        r = vlib.run_tlc(SPEC, "GraphGen.tla", ".gen.cfg", "C42-gen", workers=1, timeout=3000, xmx="12g")
        inputs = [json.loads(s) for s in vlib.tla_strings(r.out, "GRAPH ")]
        if r.error or not inputs:
            raise vlib.Infra("GraphGen failed: %s\n%s" % (r.error, r.out[-1500:]))
        cov["states"], cov["transitions"] = r.distinct, r.states
        cov["exhaustive_bound"] = {"bodies": mb, "joints": mj_, "joint_types": 3, "inputs": len(inputs)}
        nrand = 1200 if tier == "quick" else 60000
        inputs += [rand_input(rnd, 7, 9) for _ in range(nrand)]
        cov["random_larger_inputs"] = nrand
    for x in inputs:      # TLC prints sequences of length 0 as [] already; functions 1..n as lists
        for k in ("mass", "base"):
            if isinstance(x[k], dict):
                x[k] = [x[k][str(i)] for i in range(1, x["nb"] + 1)]
    pfile, ofile = os.path.join(work, "in.ndjson"), os.path.join(work, "out.ndjson")
    with open(pfile, "w") as f:
        for x in inputs:
            f.write(json.dumps(x) + "\n")
    pr = subprocess.run(["timeout", "2400", binpath, pfile, ofile], capture_output=True, text=True)
    outs = vlib.read_ndjson(ofile)
    if pr.returncode != 0 or len(outs) != len(inputs):
        bad = inputs[min(len(outs), len(inputs) - 1)]
        rep.violation("crash-or-hang", {"input": bad}, "MultibodyGraphMaker did not return for %s (exit %s)" % (json.dumps(bad), pr.returncode))
        inputs = inputs[:len(outs)]
    cov["errors_reported"] = sum(1 for o in outs if o["err"])
    cov["trees_produced"] = sum(1 for o in outs if not o["err"])
    cov["with_slaves"] = sum(1 for o in outs if not o["err"] and any(f > 1 for f in o["frags"]))
    cov["with_loop_constraints"] = sum(1 for o in outs if not o["err"] and o["loops"])
    recs = [{"in": x, "out": o} for x, o in zip(inputs, outs)]
    # TLC checks the predicate on every record (in batches; on a failure the record is named and skipped)
    start, rounds = 0, 0
    B = 20000
    while start < len(recs) and rounds < 400:
        rounds += 1
        batch = recs[start:start + B]
        tfile = os.path.join(work, "recs.ndjson")
        with open(tfile, "w") as f:
            for rr in batch:
                f.write(json.dumps(rr) + "\n")
        with open(os.path.join(SPEC, ".chk.cfg"), "w") as f:
            f.write("SPECIFICATION CheckSpec\nINVARIANT CheckedAll\nPOSTCONDITION Done\nCHECK_DEADLOCK FALSE\n")
        r = vlib.run_tlc(SPEC, "GraphSpec.tla", ".chk.cfg", "C42-chk", workers=1, timeout=3000, env={"TRACE": tfile}, xmx="12g")
        cov["transitions"] += r.states
        for mm_ in re.finditer(r'"BAD (\d+)"', r.out):
            k = int(mm_.group(1)) - 1
            bad = batch[k]
            jt = "+".join(sorted(set(j["type"] for j in bad["in"]["joints"])))
            key = "invalid-tree/nb=%d/nj=%d/%s/massless=%d/loopflags=%d/base=%d" % (
                bad["in"]["nb"], len(bad["in"]["joints"]), jt, bad["in"]["mass"].count(0), sum(1 for j in bad["in"]["joints"] if j["loop"]),
                sum(1 for b in bad["in"]["base"] if b))
            # name the class of the failure where it is a recognisable one
            for b in range(1, bad["in"]["nb"] + 1):
                if bad["in"]["base"][b - 1] and not any({j["p"], j["c"]} == {0, b} for j in bad["in"]["joints"]):
                    mm = [m for m in bad["out"]["mobs"] if m["outb"] == b and not m["slave"]]
                    if mm and mm[0]["inb"] != 0:
                        key = "base-flag-not-honoured/inboard-%s" % ("massless" if bad["in"]["mass"][mm[0]["inb"] - 1] == 0 else "massful")
            if len(rep.violations) <= 25:
                rep.violation(key, {"input": bad["in"], "output": bad["out"]},
                              "MultibodyGraphMaker produced an invalid model for %s: %s" % (json.dumps(bad["in"]), json.dumps(bad["out"])[:700]))
        if r.error or '"CHECKED"' not in r.out:
            raise vlib.Infra("GraphSpec check failed: %s\n%s" % (r.error, r.out[-2000:]))
        cov["traces_validated_against_impl"] += len(batch)
        start += len(batch)
    cov["samples"] = recs[5:6] + [rr for rr in recs if not rr["out"]["err"] and rr["out"]["loops"]][:1]
    cov["uncovered"] = ["deleteBody / deleteJoint / clearGraph", "the quality of the heuristic choices (only validity is required)"]
    return rep.finish("model_checking", cov, assumptions=["an error return is always acceptable (the property allows it)"])


if __name__ == "__main__":
    try:
        sys.exit(main())
    except vlib.Infra as e:
        print("INFRA-ERROR: %s" % e)
        sys.exit(2)
