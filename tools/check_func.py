#!/usr/bin/env python3
"""C41 (Function objects, step helpers, interpolating splines) on an exact sub-domain (engine E10).

spec/Func/FuncAlg.tla holds the exact polynomial algebra (integer coefficients, rational arguments, the formal
derivative operator, the step polynomial with its design facts, lattice sines) and TLC evaluates with it, for every
generated case, the value and the TRUE derivatives of every order as exact fractions.  harness/replay_func
evaluates the same cases with the real Function_::Constant / Linear / Polynomial / Sinusoid / Step (Real and Vec3
valued), stepUp / stepDown / stepAny and their derivatives (double and float), and Spline_ / SplineFitter, and
this script compares.
"""
import json, os, sys, subprocess, random, math, itertools
from fractions import Fraction
sys.path.insert(0, os.path.dirname(os.path.abspath(__file__)))
import vlib
from vlib import VERIF

SPEC = os.path.join(VERIF, "spec", "Func")
LIM = 2 ** 30
MIX = (1, 2, -1)


def poly_fits(coef_desc, p, q, nmax):
    """the spec's integers stay below 2^30 for this polynomial (decreasing powers), argument and orders"""
    P = list(reversed(coef_desc))
    for n in range(nmax + 1):
        D = len(P) - 1
        if D >= 0 and sum(abs(c) * abs(p) ** k * q ** (D - k) for k, c in enumerate(P)) >= LIM:
            return False
        P = [k * P[k] for k in range(1, len(P))]
    return True


def knotset(r, n, lo, hi):
    """n increasing integer knots; often strongly non-uniform: a cluster of unit-spaced knots and one long interval (last,
    first or in the middle), where a lookup that assumes uniform spacing is far off"""
    if n < 3 or r.random() < 0.5:
        return sorted(r.sample(range(lo, hi), n))
    gap = r.randint(2 * n, 6 * n)
    at = r.choice([n - 1, n - 1, 1, r.randint(1, n - 1)])      # index of the knot that follows the long interval
    ks, x = [], r.randint(-3, 3)
    for i in range(n):
        if i:
            x += gap if i == at else r.choice([1, 1, 2])
        ks.append(x)
    return ks


def generate(tier, seed):
    r = random.Random(seed)
    cases = []
    reps = 1 if tier == "quick" else 12
    QS = [1, 2, 4]
    # polynomials of degree 0..6, every derivative order up to degree + 2
    for deg in range(0, 7):
        for _ in range(25 * reps):
            co = [r.randint(-4, 4) for _ in range(deg + 1)]
            if r.random() < 0.8 and co[0] == 0:
                co[0] = r.choice([-2, 1, 3])
            q = r.choice(QS); p = r.randint(-3 * q, 3 * q)
            if poly_fits(co, p, q, deg + 2):
                cases.append({"kind": "poly", "coef": co, "p": p, "q": q, "nmax": deg + 2})
    # linear functions of 1..4 arguments: every first partial, mixed and repeated higher partials
    for na in range(1, 5):
        for _ in range(10 * reps):
            q = r.choice(QS)
            derivs = [[i] for i in range(na)] + [[r.randrange(na) for _ in range(k)] for k in (2, 2, 3, 4)]
            cases.append({"kind": "linear", "coef": [r.randint(-5, 5) for _ in range(na + 1)], "xp": [r.randint(-9, 9) for _ in range(na)], "q": q, "derivs": derivs})
            cases.append({"kind": "const", "value": r.randint(-5, 5), "nargs": na, "xp": [r.randint(-9, 9) for _ in range(na)], "q": q, "derivs": derivs})
    # sinusoids at lattice phases, orders 0..7 (the library switches formula at order 4)
    for _ in range(60 * reps):
        m = r.choice([0, 1, -1, 2, -2, 3])
        cases.append({"kind": "sinus", "a": r.choice([-3, -2, -1, 1, 2, 3]), "j": r.randint(1, 3), "t": r.randint(-2, 2), "ang": {"k": r.randrange(4), "m": m}, "nmax": 7})
    # the step helpers on [0, 1]
    for q in (1, 2, 4, 8, 16, 5, 10, 3):
        for p in range(q + 1):
            cases.append({"kind": "stepup", "p": p, "q": q})
    # Function::Step and stepAny: both orientations, inside, at the ends, outside
    for _ in range(150 * reps):
        x0, x1 = r.sample(range(-3, 4), 2)
        q = r.choice(QS)
        lo, hi = min(x0, x1), max(x0, x1)
        where = r.random()
        p = r.randint(lo * q, hi * q) if where < 0.6 else r.choice([x0 * q, x1 * q]) if where < 0.75 else r.choice([r.randint(lo * q - 3 * q, lo * q), r.randint(hi * q, hi * q + 3 * q)])
        cases.append({"kind": "stepfn", "y0": r.randint(-3, 3), "y1": r.randint(-3, 3), "x0": x0, "x1": x1, "p": p, "q": q, "inside": int(lo * q <= p <= hi * q)})
    # interpolating splines of degree 2m-1 through samples of a polynomial of degree < m: the spline is that polynomial
    for deg in (1, 3, 5, 7):
        m = (deg + 1) // 2
        for _ in range(20 * reps):
            n = r.randint(2 * m, 2 * m + 4) if deg > 1 else r.randint(2, 6)
            knots = knotset(r, n, -6, 9)
            co = [r.randint(-3, 3) for _ in range(r.randint(1, m))]
            q = r.choice(QS); p = r.randint(knots[0] * q, knots[-1] * q)
            if r.random() < 0.5:       # inside the longest interval
                i = max(range(1, n), key=lambda i: knots[i] - knots[i - 1])
                p = r.randint(knots[i - 1] * q, knots[i] * q)
            if deg == 1:        # strictly inside a segment (the slope at a knot is one-sided)
                p = None
                for _t in range(20):
                    pp = r.randint(knots[0] * q, knots[-1] * q)
                    if all(pp != k * q for k in knots):
                        p = pp
                        break
                if p is None:
                    continue
            if poly_fits(co, p, q, m) and all(poly_fits(co, k, 1, 0) for k in knots):
                cases.append({"kind": "spline", "degree": deg, "coef": co, "knots": knots, "p": p, "q": q, "nmax": m, "smooth": r.choice([0, 0, 0, 1, 3])})
    # degree 1 through arbitrary data: the chord; degrees 3, 5, 7 through arbitrary data: the data at the knots
    for _ in range(200 * reps):
        n = r.randint(2, 10)
        knots = knotset(r, n, -6, 9); y = [r.randint(-5, 5) for _ in knots]
        seg = r.randint(1, n - 1); q = r.choice([2, 4, 8])
        if r.random() < 0.5:       # the longest interval
            seg = max(range(1, n), key=lambda i: knots[i] - knots[i - 1])
        inside = [pp for pp in range(knots[seg - 1] * q + 1, knots[seg] * q)]
        cases.append({"kind": "chord", "degree": 1, "knots": knots, "y": y, "seg": seg, "p": r.choice(inside), "q": q, "nmax": 2, "smooth": 0})
    for deg in (3, 5, 7):
        for _ in range(15 * reps):
            n = r.randint(deg + 1, deg + 6)
            knots = knotset(r, n, -8, 12); y = [r.randint(-5, 5) for _ in knots]
            cases.append({"kind": "interp", "degree": deg, "knots": knots, "y": y, "p": knots[0], "q": 1, "nmax": 0, "smooth": 0})
    return cases


def roots_fit(lead, F):
    """every intermediate of the spec's exact evaluation (expansion, q^n P(z/q) term by term) stays below 2^30 in magnitude"""
    P = [complex(lead[0], lead[1])]
    for f in F:
        z = complex(f["a"], f["b"])
        P = [(f["q"] * (P[k - 1] if k >= 1 else 0)) - z * (P[k] if k < len(P) else 0) for k in range(len(P) + 1)]
    n = len(F)
    l1 = lambda c: abs(c.real) + abs(c.imag)
    worst = max(l1(c) for c in P)
    for f in F:
        z = complex(f["a"], f["b"])
        acc = 0
        for k, c in enumerate(P):
            zk = z ** k
            worst = max(worst, l1(zk) * f["q"] ** (n - k) * 2, l1(c) * l1(zk) * f["q"] ** (n - k) * 2)
            acc += l1(c) * l1(zk) * f["q"] ** (n - k)
        worst = max(worst, acc)
    return worst < 2 ** 30


def gen_roots(tier, seed):
    """polynomials given by their linear factors (q x - (a + b i)); for real coefficients non-real factors come with their conjugates"""
    r = random.Random(seed)
    cases = []
    reps = 1 if tier == "quick" else 10

    def factor(realonly, big=False):
        q = r.choice([1, 1, 1, 2, 4] if not big else [1, 8, 16])
        a = r.randint(-4, 4) if not big else r.randint(-12, 12)
        b = 0 if realonly else r.randint(-4, 4)
        return {"q": q, "a": a, "b": b}

    def build(n, real, style):
        F = []
        while len(F) < n:
            room = n - len(F)
            if style == "zero" and not F:
                f = {"q": 1, "a": 0, "b": 0}
            elif real and room >= 2 and r.random() < 0.45:
                f = factor(False)
                if f["b"] == 0:
                    f["b"] = r.choice([1, 2, 3])
                F.append(f); f = {"q": f["q"], "a": f["a"], "b": -f["b"]}
            else:
                f = factor(real, big=(style == "scaled" and r.random() < 0.5))
            F.append(f)
            if style == "multiple" and len(F) < n and r.random() < 0.5 and (not real or f["b"] == 0):
                F.append(dict(f))
            if style == "symmetric" and len(F) < n:      # the opposite root as well: the next-to-leading coefficients cancel (b = 0 for quadratics)
                F.append({"q": f["q"], "a": -f["a"], "b": -f["b"]}) if (not real or f["b"] == 0) else None
        F = F[:n]
        if real:      # cutting may have split a conjugate pair
            im = [f for f in F if f["b"] != 0]
            for f in im:
                if sum(1 for g in F if (g["q"], g["a"], g["b"]) == (f["q"], f["a"], -f["b"])) != sum(1 for g in F if (g["q"], g["a"], g["b"]) == (f["q"], f["a"], f["b"])):
                    return None
        if max(sum(1 for g in F if (g["a"] * f["q"], g["b"] * f["q"]) == (f["a"] * g["q"], f["b"] * g["q"])) for f in F) > 3:
            return None       # multiplicities up to 3 (beyond, deflation leaves only a few digits in every root)
        lead = [r.choice([-3, -2, -1, 1, 2, 3, 5]), 0 if real else r.randint(-2, 2)]
        # the expanded coefficients must stay within the spec's integers
        P = [complex(lead[0], lead[1])]
        mx = 0
        for f in F:
            z = complex(f["a"], f["b"])
            P = [(f["q"] * (P[k - 1] if k >= 1 else 0)) - z * (P[k] if k < len(P) else 0) for k in range(len(P) + 1)]
        mag = sum(abs(c) for c in P) * max(max(abs(f["a"]) + abs(f["b"]), f["q"]) for f in F) ** n
        if mag >= LIM:
            return None
        return {"kind": "roots", "lead": lead, "real": int(real), "factors": F, "float": int(n <= 5), "style": style}
    # quadratics whose roots differ in modulus by up to 1e6 (one large Gaussian integer, one small Gaussian rational), in every
    # direction of the complex plane: the small root must come out with full relative accuracy
    for real in (1, 0):
        for _ in range(40 * reps):
            mag = r.choice([60, 150, 300])
            big = {"q": 1, "a": r.randint(-mag, mag), "b": 0 if real else r.randint(-mag, mag)}
            if abs(big["a"]) + abs(big["b"]) < mag // 2:
                big["b" if not real else "a"] = r.choice([-mag, mag])
            small = {"q": r.choice([100, 500, 1000, 2000]), "a": r.randint(-3, 3), "b": 0 if real else r.randint(-3, 3)}
            if small["a"] == 0 and small["b"] == 0:
                small["a"] = 1
            lead = [r.choice([-2, -1, 1, 1, 2]), 0]
            if roots_fit(lead, [big, small]):
                cases.append({"kind": "roots", "lead": lead, "real": int(real), "factors": [big, small], "float": 0, "style": "wide"})
    for n in (2, 3, 4, 5, 6, 8):
        for real in (1, 0):
            for style in ("plain", "multiple", "symmetric", "zero", "scaled"):
                want = (12 if n <= 3 else 5) * reps
                tries = 0
                while want and tries < 2000:
                    tries += 1
                    c = build(n, real, style)
                    if c:
                        cases.append(c); want -= 1
    return cases


def gen_diff(tier, seed):
    """quadratic (and affine) maps R^ny -> R^nf with integer coefficients at rational points, including zero and large coordinates"""
    r = random.Random(seed)
    cases = []
    reps = 1 if tier == "quick" else 8
    shapes = [(1, 1), (1, 2), (1, 5), (2, 2), (3, 4), (4, 3), (2, 6)] + ([(10, 20), (7, 12), (1, 20), (10, 1)] if tier != "quick" else [(5, 8)])
    for nf, ny in shapes:
        for style in ("affine", "quadratic", "diagonal"):
            for _ in range(6 * reps):
                q = r.choice([1, 2, 4, 8])
                big = r.random() < 0.25
                xp = [r.choice([0, 0, r.randint(-9, 9), r.randint(-9, 9), r.randint(-2000, 2000) if big else r.randint(-30, 30)]) for _ in range(ny)]
                A = [[[0] * ny for _ in range(ny)] for _ in range(nf)]
                if style != "affine":
                    for i in range(nf):
                        for j in range(ny):
                            for k in range(ny):
                                if (style == "quadratic" and r.random() < 0.5) or (style == "diagonal" and j == k):
                                    A[i][j][k] = r.randint(-3, 3)
                B = [[r.randint(-5, 5) for _ in range(ny)] for _ in range(nf)]
                C = [r.randint(-9, 9) for _ in range(nf)]
                mag = max(abs(x) for x in xp + [1]) ** 2 * 3 * ny * ny + q * 5 * ny * max(abs(x) for x in xp + [1]) + q * q * 9
                if mag >= LIM:
                    continue
                cases.append({"kind": "diff", "A": A, "B": B, "C": C, "xp": xp, "q": q, "style": style,
                              "acc": r.choice([-1, -1, 1e-6, 1e-10, 1e-3]), "asdefault": r.randint(0, 2)})
    return cases


def check_diff(rep, c, w, o, worst):
    nf, ny = len(c["B"]), len(c["xp"])
    eps = 2.220446049250313e-16
    acc = c["acc"] if c["acc"] > 0 else eps ** 0.875          # the documented default: NTraits<Real>::getSignificant()
    x = [p / c["q"] for p in c["xp"]]
    J = [[Fraction(e["n"], e["d"]) for e in row] for row in w["J"]]
    f = [Fraction(e["n"], e["d"]) for e in w["f"]]
    fscale = [sum(abs(c["A"][i][j][k] * x[j] * x[k]) for j in range(ny) for k in range(ny)) + sum(abs(c["B"][i][j] * x[j]) for j in range(ny)) + abs(c["C"][i]) + 1.0 for i in range(nf)]
    tagb = "diff/%s/%s" % (c["style"], "nf%s-ny%s" % ("1" if nf == 1 else "n", "1" if ny == 1 else "n"))
    for i in range(nf):
        if abs(o["f"][i] - float(f[i])) > 1e-12 * fscale[i]:
            rep.violation(tagb + "/harness-function-value", {"case": c}, "harness function differs from the spec's: %r vs %s" % (o["f"][i], f[i]))
            return
    for meth, order in (("forward", 1), ("central", 2)):
        res = o[meth]
        tag = tagb + "/" + meth
        h = [(acc ** (1.0 / 2) if order == 1 else acc ** (1.0 / 3)) * max(abs(xj), 0.1) for xj in x]

        def cmpJ(what, M):
            for i in range(nf):
                for j in range(ny):
                    # one-sided: exactly h A_jj off (second derivative 2 A_jj, nothing beyond); central: exact
                    trunc = h[j] * w["curv"][i][j] if order == 1 else 0.0
                    want = float(J[i][j]) + trunc
                    # rounding of the differences: about eps |f| / h each; the cleaned-up step differs from hEst by at most ~eps|x|/h relatively
                    allow = 16 * eps * (fscale[i] + abs(w["curv"][i][j]) * (abs(x[j]) + h[j]) * h[j] * 4) / h[j] + abs(trunc) * 1e-5 + 8 * eps * abs(want)      # (+ the rounding of the quotient itself)
                    d = abs(M[i][j] - want) if M[i][j] == M[i][j] else float("inf")
                    worst[tag] = max(worst.get(tag, 0.0), d / allow)
                    if not d <= allow:
                        rep.violation(tag + "/" + what, {"case": c},
                                      "%s difference of output %d w.r.t. variable %d (x = %g, accuracy %g, step %.3g): %s returned %.17g, the true derivative is %s%s; difference %.3g, rounding allows %.3g (case %s)"
                                      % (meth, i, j, x[j], acc, h[j], what, M[i][j], float(J[i][j]), (" and the one-sided formula adds h*A_jj = %.3g" % trunc) if order == 1 else "", d, allow, json.dumps(c)[:200]))
                        return False
            return True
        if not cmpJ("calcJacobian", res["J"]) or not cmpJ("calcJacobian-convenience", res["J2"]):
            continue
        if nf == 1:
            cmpJ("calcGradient", [res["g"]]); cmpJ("calcGradient-convenience", [res["g2"]])
            if ny == 1:
                cmpJ("calcDerivative", [[res["d"]]]); cmpJ("calcDerivative-convenience", [[res["d2"]]])
        nc = w["calls"][meth]
        if res["calls"] != nc or res["calls2"] != nc + 1 or res["stat"] != [2, 0, 2 * nc + 1] or (nf == 1 and res["gcalls"] != nc) or (nf == 1 and ny == 1 and res["dcalls"] != nc):
            rep.violation(tag + "/user-function-calls", {"case": c}, "%s differences in %d variables: %d evaluations expected per differentiation (+1 for the convenience form); observed %s / %s, statistics %s"
                          % (meth, ny, nc, res["calls"], res["calls2"], res["stat"]))
        if res["order"] != order:
            rep.violation(tag + "/method-order", {"case": c}, "getMethodOrder(%s) = %s" % (meth, res["order"]))


def check_roots(rep, c, o, worst):
    n = len(c["factors"])
    exact = [complex(f["a"], f["b"]) / f["q"] for f in c["factors"]]
    coef = [complex(a, b) for a, b in zip(c["re"], c["im"])]       # decreasing powers
    asc = list(reversed(coef))

    def deriv(P, m):
        for _ in range(m):
            P = [k * P[k] for k in range(1, len(P))]
        return P

    def val(P, z):
        v = 0
        for cc in reversed(P):
            v = v * z + cc
        return v
    for key, res in o.items():
        if "/" not in key:
            continue
        prec, api = key.split("/")
        eps = 2.3e-16 if prec == "double" else 1.2e-7
        tag = "roots/%s/%s/degree-%s/%s" % (api, prec, n if n <= 3 else "n", c["style"])
        if "exc" in res:
            rep.violation(tag + "/exception", {"case": c}, "findRoots(%s) on %s raised: %s" % (api, json.dumps(c)[:300], res["exc"]))
            continue
        roots = [complex(a, b) for a, b in res["roots"]]
        if len(roots) != n or any(z != z for z in roots):
            rep.violation(tag + "/number-of-roots", {"case": c}, "findRoots(%s) on %s returned %s" % (api, json.dumps(c)[:300], res["roots"]))
            continue
        # every exact root (with its multiplicity) must be returned, within the root's conditioning:
        #   |dz| ~ (K eps sum|c_k||z|^k m! / |P^(m)(z)|)^(1/m)
        left = list(roots)
        bad = None
        mmax = max(exact.count(z) for z in exact)
        for z in sorted(set(exact), key=lambda z: -exact.count(z)):
            m = exact.count(z)
            scale = sum(abs(cc) * abs(z) ** k for k, cc in enumerate(asc))
            pm = abs(val(deriv(asc, m), z))
            # RPOLY / CPOLY stop when |p| is below their own rounding-error bound; what they return is good to about 1e-9
            # relative to the coefficients (observed on the unchanged tree), not to machine precision: a perturbation of
            # 1e-7 of the coefficient scale is allowed for in double
            if api in ("Vec3", "Vec3c"):
                # the quadratic overloads are closed forms: good to a few eps RELATIVE to the root (also for a root far
                # smaller than the other one, which is what the stable form of the formula is for)
                tol = (1e3 * eps * scale * math.factorial(m) / pm) ** (1.0 / m) + 1e3 * eps * abs(z) + 1e-300
            else:
                # (deflation carries the error of a multiple root into the roots found after it: the polynomial's highest multiplicity counts)
                eff = max((2e4 if prec == "double" else 2e5) * n * eps, (1e-5 if mmax <= 2 else 1e-3) if prec == "double" else 0.0)
                tol = (eff * scale * math.factorial(m) / pm) ** (1.0 / m) + 1e3 * eps * (1 + abs(z))
            for _ in range(m):
                j = min(range(len(left)), key=lambda j: abs(left[j] - z))
                d = abs(left[j] - z)
                worst[tag] = max(worst.get(tag, 0.0), d / tol)
                if d > tol and bad is None:
                    bad = (z, m, left[j], d, tol)
                left.pop(j)
        if bad:
            rep.violation(tag + "/root-not-returned", {"case": c},
                          "findRoots(%s, %s) of %s = %s: the root %s (multiplicity %d) is not among the results %s (nearest %s, distance %.3g, conditioning allows %.3g)"
                          % (api, prec, json.dumps(c["factors"]), [str(x) for x in coef], bad[0], bad[1], res["roots"], bad[2], bad[3], bad[4]))
            continue
        # real coefficients: the returned non-real roots come in conjugate pairs
        if c["real"] and not api.endswith("c"):
            for z in roots:
                if abs(z.imag) > 1e3 * eps * (1 + abs(z)) and min(abs(w - z.conjugate()) for w in roots) > 1e-3 * (1 + abs(z)) * (1 if prec == "double" else 30):
                    rep.violation(tag + "/no-conjugate-partner", {"case": c}, "findRoots(%s, %s) of %s: %s has no conjugate partner in %s" % (api, prec, json.dumps(c["factors"]), z, res["roots"]))
                    break


def fr(x):
    return Fraction(x["n"], x["d"])


def main():
    pid = sys.argv[1]
    tier, replay = "quick", None
    args = sys.argv[2:]
    while args:
        a = args.pop(0)
        if a == "--tier":
            tier = args.pop(0)
        elif a == "--replay":
            replay = args.pop(0)
    tier = os.environ.get("VERIF_TIER", tier)
    rep = vlib.Report(pid, tier)
    work = vlib.workdir("func-" + pid)
    vlib.build_repo()
    binpath = vlib.compile_harness(os.path.join(VERIF, "harness", "replay_func.cpp"), os.path.join(VERIF, ".build", "bin", "replay_func"),
                                   extra=["-I" + os.path.join(VERIF, "harness")], libs=("SimTKmath", "SimTKcommon"))
    cov = {"states": 0, "transitions": 0, "traces_validated_against_impl": 0, "samples": []}
    cases = [json.load(open(replay))["replay"]["case"]] if replay else {"C41": generate, "C30": gen_roots, "C40": gen_diff}[pid](tier, vlib.seed())
    for c in cases:
        for k in ("re", "im"):
            c.pop(k, None)
    pfile = os.path.join(work, "cases.ndjson")
    with open(pfile, "w") as f:
        for c in cases:
            f.write(json.dumps(c) + "\n")
    r = vlib.run_tlc(SPEC, "FuncAlg.tla", "FuncAlg.cfg", "func-" + pid, workers=1, timeout=3000, xmx="4g", env={"TRACE": pfile})
    got = [json.loads(s) for s in vlib.tla_strings(r.out, "OUT ")]
    if r.error or len(got) != len(cases):
        raise vlib.Infra("FuncAlg evaluation failed (%d of %d): %s\n%s" % (len(got), len(cases), r.error, r.out[-1500:]))
    cov["states"] += r.distinct
    cov["transitions"] += r.states
    want = [g["r"] for g in got]
    for c, w in zip(cases, want):
        if c["kind"] == "spline":
            c["y"] = w["knots"]          # the samples of the polynomial at the knots, from the spec
        if c["kind"] == "roots":
            c["re"], c["im"] = w["re"], w["im"]      # the expanded coefficients (decreasing powers), from the spec
    with open(pfile, "w") as f:
        for c in cases:
            f.write(json.dumps(c) + "\n")
    ofile = os.path.join(work, "out.ndjson")
    pr = subprocess.run(["timeout", "1200", binpath, pfile, ofile], capture_output=True, text=True)
    outs = vlib.read_ndjson(ofile)
    if pr.returncode != 0 or len(outs) != len(cases):
        rep.violation("crash", {"stderr": pr.stderr[-300:]}, "harness died (exit %s) after %d results: %s" % (pr.returncode, len(outs), pr.stderr[-300:]))
    kinds = {}
    worst = {}
    for o in outs:
        c, w = cases[o["i"] - 1], want[o["i"] - 1]
        kinds[c["kind"]] = kinds.get(c["kind"], 0) + 1
        cov["traces_validated_against_impl"] += 1
        tag = c["kind"] + ("/degree-%d" % c["degree"] if "degree" in c else "")

        def chk(what, a, b, sc=1.0, tol=1e-12):
            """a: exact (Fraction / number / list), b: the library's"""
            fa = [float(x) for x in (a if isinstance(a, list) else [a])]
            fb = [x for x in (b if isinstance(b, list) else [b])]
            if len(fa) != len(fb):
                rep.violation("%s/%s/shape" % (tag, what), {"case": c}, "%s of %s: %d values expected, %d returned" % (what, json.dumps(c)[:300], len(fa), len(fb)))
                return
            for x, y in zip(fa, fb):
                d = abs(x - y) if y == y else float("inf")
                s = max(1.0, abs(x), sc)
                worst[tag + "/" + what] = max(worst.get(tag + "/" + what, 0.0), d / s)
                if not d <= tol * s:
                    rep.violation("%s/%s" % (tag, what), {"case": c},
                                  "%s of %s: the definition gives %s, the library %s (difference %.3g)" % (what, json.dumps(c)[:300], fa, fb, d))
                    return

        def chk3(what, a, b3, sc=1.0, tol=1e-12):      # Vec3-valued variant = scalar * MIX
            for k in range(3):
                chk(what + "/Vec3", [x * MIX[k] for x in a], [v[k] for v in b3], sc * 2, tol)
        if o.get("exc"):
            rep.violation("%s/exception" % tag, {"case": c}, "%s raised: %s" % (json.dumps(c)[:300], o["exc"]))
            continue
        if c["kind"] == "roots":
            check_roots(rep, c, o, worst)
            continue
        if c["kind"] == "diff":
            check_diff(rep, c, w, o, worst)
            continue
        if c["kind"] == "poly":
            v = [fr(x) for x in w["v"]]
            x = abs(c["p"] / c["q"])
            P = list(reversed(c["coef"]))
            sc = max(1.0, sum(abs(cc) * math.factorial(k) * max(x, 1.0) ** k for k, cc in enumerate(P)))
            for k in range(len(v)):
                chk("derivative-order-%d" % k if k else "value", v[k], o["v"][k], sc)
            chk3("orders", v, o["v3"], sc)
            chk("std-vector-overload", v[1:], o["vstd"], sc)
            if o["argsize"] != 1:
                rep.violation("poly/argument-size", {"case": c}, "Polynomial reports %d arguments" % o["argsize"])
        elif c["kind"] in ("linear", "const"):
            chk("value", fr(w["v"]), o["v"], 100.0)
            chk("clone-value", fr(w["v"]), o["vclone"], 100.0)
            chk("value/Vec3", [fr(w["v"]) * MIX[k] for k in range(3)], o["v3"], 100.0)
            for j, d in enumerate(c["derivs"]):
                chk("partial-derivative-order-%d" % len(d), fr(w["dv"][j]), o["dv"][j], 10.0)
                chk("partial-derivative-order-%d/Vec3" % len(d), [fr(w["dv"][j]) * MIX[k] for k in range(3)], o["dv3"][j], 10.0)
            na = len(c["coef"]) - 1 if c["kind"] == "linear" else c["nargs"]
            if o["argsize"] != na:
                rep.violation("%s/argument-size" % tag, {"case": c}, "reports %d arguments, built with %d" % (o["argsize"], na))
        elif c["kind"] == "sinus":
            for k, x in enumerate(w["v"]):
                chk("derivative-order-%d" % k if k else "value", float(fr(x)) * o["w"] ** k, o["v"][k], abs(c["a"]) * o["w"] ** k, 1e-11)
        elif c["kind"] == "stepup":
            v = [fr(x) for x in w["v"]]
            chk("stepUp-and-derivatives", v, o["up"], 400.0)
            chk("stepDown-and-derivatives", [1 - v[0]] + [-x for x in v[1:]], o["down"], 400.0)
            chk("stepUp-and-derivatives/float", v, o["upf"], 400.0, 2e-6)
            chk("stepDown-and-derivatives/float", [1 - v[0]] + [-x for x in v[1:]], o["downf"], 400.0, 2e-6)
        elif c["kind"] == "stepfn":
            v = [fr(x) for x in w["v"]]
            sc = 400.0 * max(1, abs(c["y1"] - c["y0"]))
            where = "inside" if c["inside"] and c["p"] not in (c["x0"] * c["q"], c["x1"] * c["q"]) else "at-an-end" if c["inside"] else "outside"
            for k in range(4):
                chk("Step-%s/%s" % ("derivative-%d" % k if k else "value", where), v[k], o["v"][k], sc)
            chk3("Step-orders", v, o["v3"], sc)
            chk("Step-after-setParameters", v[0], o["vset"], sc)
            if "any" in o:
                # the third derivative jumps at the ends of the transition (60 on the inside, 0 outside): only C2 is promised there
                nk = 3 if where == "at-an-end" else 4
                chk("stepAny-and-derivatives/" + where, v[:nk], o["any"][:nk], sc)
                chk("stepAny-and-derivatives/float/" + where, v[:nk], o["anyf"][:nk], sc, 2e-6)
            # monotone between the end values (a consequence of StepDesign, observed on the real function)
            lo, hi = min(c["y0"], c["y1"]), max(c["y0"], c["y1"])
            if not lo - 1e-12 <= o["v"][0] <= hi + 1e-12:
                rep.violation("stepfn/value-outside-the-end-values", {"case": c}, "Step value %r outside [%d, %d] for %s" % (o["v"][0], lo, hi, json.dumps(c)))
        elif c["kind"] in ("spline", "chord", "interp"):
            ysc = max(1.0, max(abs(y) for y in c["y"]))
            tol = {1: 1e-10, 3: 1e-9, 5: 1e-8, 7: 1e-6}[c["degree"]]      # GCVSPL's conditioning worsens with the degree on strongly non-uniform knots
            if c["kind"] == "spline":
                v = [fr(x) for x in w["v"]]
                how = "smoothed" if c["smooth"] else "interpolating"
                for k in range(len(v)):
                    chk("%s/%s-of-the-sampled-polynomial" % (how, "derivative-%d" % k if k else "value"), v[k], o["v"][k], ysc, tol)
                    chk("%s/through-the-Function-interface" % how, v[k], o["vfn"][k], ysc, tol)
                chk3(how + "/orders", v, o["v3"], ysc, tol)
                chk(how + "/value-at-the-knots", w["knots"], o["atknots"], ysc, tol)
                chk(how + "/copy", v[0], o["vcopy"], ysc, tol)
            elif c["kind"] == "chord":
                chk("value-on-the-chord", fr(w["v"]), o["v"][0], ysc, tol)
                chk("slope-of-the-chord", fr(w["slope"]), o["v"][1], ysc, tol)
                chk("second-derivative-of-a-chord", 0, o["v"][2], ysc, tol)
                chk("value-at-the-knots", c["y"], o["atknots"], ysc, tol)
                for k in range(3):
                    chk("value-at-the-knots/Vec3", [y * MIX[k] for y in c["y"]], [v3[k] for v3 in o["atknots3"]], 2 * ysc, tol)
            else:
                chk("value-at-the-knots", w["knots"], o["atknots"], ysc, tol)
                for k in range(3):
                    chk("value-at-the-knots/Vec3", [y * MIX[k] for y in w["knots"]], [v3[k] for v3 in o["atknots3"]], 2 * ysc, tol)
            if o["degree"] != c["degree"]:
                rep.violation("%s/degree" % tag, {"case": c}, "the spline reports degree %d, asked for %d" % (o["degree"], c["degree"]))
    cov["cases"] = len(cases)
    cov["cases_by_kind"] = kinds
    cov["largest_relative_difference_seen"] = {k: float("%.3g" % v) for k, v in sorted(worst.items(), key=lambda kv: -kv[1])[:12]}
    if pid == "C30":
        cov["largest_error_over_allowed_seen"] = cov.pop("largest_relative_difference_seen")
        styles = {}
        for c in cases:
            k = "%s/degree-%d/%s" % ("real" if c["real"] else "complex", len(c["factors"]), c["style"])
            styles[k] = styles.get(k, 0) + 1
        cov["cases_by_coefficients_degree_style"] = styles
        cov["invariants_checked_by_TLC_per_case"] = ["every given root makes the expanded polynomial vanish (exact complex-integer arithmetic)", "leading and constant coefficients are Vieta's products", "real => all coefficients real"]
        cov["samples"] = [{"case": cases[0], "expected": want[0]}, {"case": cases[-1], "expected": want[-1]}]
        cov["uncovered"] = ["polynomials whose roots are not Gaussian rationals", "degrees above 8", "clusters of nearly equal but distinct roots"]
        cov["exhaustive"] = False
        if len(rep.violations) > 30:
            rep.violations = rep.violations[:30]
        return rep.finish("model_checking", cov, assumptions=["roots are Gaussian integers over small denominators; a returned root may differ from the exact one by what its conditioning allows for a coefficient perturbation d = max(2e4 n eps, 1e-5 (1e-3 for multiplicity >= 3)): (d sum|c_k||z|^k m!/|P^(m)(z)|)^(1/m)"])
    if pid == "C40":
        cov["largest_error_over_allowed_seen"] = cov.pop("largest_relative_difference_seen")
        shapes = {}
        for c in cases:
            k = "%s/nf=%d,ny=%d" % (c["style"], len(c["B"]), len(c["xp"]))
            shapes[k] = shapes.get(k, 0) + 1
        cov["cases_by_style_and_shape"] = shapes
        cov["samples"] = [{"case": {k: v for k, v in cases[0].items() if k != "A"}, "expected": want[0]["J"]}]
        cov["uncovered"] = ["functions that are not polynomials of degree <= 2 (the bound implied by the method's order for general smooth functions)", "user functions that throw or return a non-zero status"]
        cov["exhaustive"] = False
        if len(rep.violations) > 30:
            rep.violations = rep.violations[:30]
        return rep.finish("model_checking", cov, assumptions=["integer coefficients, rational evaluation points (including 0 and magnitudes up to 2000), accuracies default / 1e-3 / 1e-6 / 1e-10",
                                                              "a difference quotient may be off by the rounding of its two function values: 16 eps |f| / h, h = acc^(1/order) max(|x|, 0.1)"])
    cov["design_facts_checked_by_TLC"] = ["StepDesign: S(0)=0, S(1)=1, S' = 30 (x(x-1))^2, S'(0)=S'(1)=S''(0)=S''(1)=0, the factored forms the code uses for S'' and S'''"]
    cov["samples"] = [{"case": cases[0], "expected": want[0]}, {"case": cases[-1], "expected": want[-1]}]
    cov["uncovered"] = ["arguments and parameters off the rational sub-domain", "splines through data that is not polynomial of degree < (degree+1)/2 away from the knots; continuity across knots",
                        "fitFromGCV / fitFromErrorVariance / fitFromDOF (the smoothing parameter they choose)", "even spline degrees (not offered by GCVSPL)"]
    cov["exhaustive"] = False
    if len(rep.violations) > 30:
        rep.violations = rep.violations[:30]
    return rep.finish("model_checking", cov, assumptions=["integer coefficients / parameters, rational arguments p/q with q in {1,2,4,...}; lattice phases for sinusoids",
                                                          "double compared within 1e-12 (functions), 1e-10 .. 1e-6 (splines of degree 1 .. 7), float within 2e-6, relative to the magnitude of the terms"])


if __name__ == "__main__":
    try:
        sys.exit(main())
    except vlib.Infra as e:
        print("INFRA-ERROR: %s" % e)
        sys.exit(2)
