#!/usr/bin/env python3
"""C23 -- measures compute what their definitions say (engine E4).

  design:      TLC checks spec/Measure/Measures.tla: the Extreme measure's auto-update variable and
               update cache under trial steps that are accepted or rejected, restarts and interpolated
               copies: the reported value is the extreme over the ACCEPTED trajectory; the variant
               whose update cache survives a state change is rejected.
  conformance: random expression trees (time, constant, variable, sinusoid, plus, minus, scale,
               integrate, differentiate, delay, the four extremes) are integrated by every integrator
               with every internal step returned; at every returned state all measure values are
               recorded.  Formula measures are compared with their definitions; for each Extreme
               measure the value identities are rank-encoded and TLC validates the sequence against
               spec/Measure/MeasuresTrace.tla.
"""
import json, os, re, sys, subprocess, random, math
sys.path.insert(0, os.path.dirname(os.path.abspath(__file__)))
import vlib
from vlib import VERIF

SPEC = os.path.join(VERIF, "spec", "Measure")
INTEGS = ["ExplicitEuler", "RK2", "RK3", "RKF", "RKM", "Verlet", "SEE", "SEE2", "CPodes"]


def gen_tree(rnd):
    ms = [{"op": "sin", "a": rnd.choice((1.0, 2.0, 0.5)), "w": rnd.choice((5.0, 7.0, 11.0)), "p": rnd.choice((0.0, 0.3, 1.1))},
          {"op": "time"},
          {"op": "const", "v": rnd.choice((0.25, -1.5))},
          {"op": "var", "v": rnd.choice((0.4, 3.0))}]
    for k in range(rnd.randrange(4, 9)):
        n = len(ms)
        op = rnd.choice(("plus", "minus", "scale", "max", "min", "maxabs", "minabs", "delay", "integrate", "diff", "sin"))
        if op in ("plus", "minus"):
            ms.append({"op": op, "l": rnd.randrange(n), "r": rnd.randrange(n)})
        elif op == "scale":
            ms.append({"op": op, "f": rnd.choice((2.5, -0.5)), "of": rnd.randrange(n)})
        elif op in ("max", "min", "maxabs", "minabs"):
            ms.append({"op": op, "of": rnd.choice([i for i in range(n) if ms[i]["op"] in ("sin", "plus", "minus", "scale")] or [0])})
        elif op == "delay":
            ms.append({"op": op, "of": rnd.choice((0, 1)), "d": rnd.choice((0.1, 0.23))})
        elif op == "integrate":
            ms.append({"op": op, "of": rnd.choice((0, 1, 1, 2)), "ic": rnd.choice((0.0, 0.5))})
        elif op == "diff":
            cands = [i for i in range(n) if ms[i]["op"] in ("sin", "time", "integrate", "plus", "minus", "scale")]
            ms.append({"op": op, "of": rnd.choice(cands or [0])})
        else:
            ms.append({"op": "sin", "a": 1.5, "w": 3.0, "p": 0.7})
    # chains that stack caching measures on a derivative of an integral (values whose depends-on
    # stage is computed through several measures)
    if rnd.random() < 0.6:
        src = rnd.choice((1, 1, 0, 2))
        if rnd.random() < 0.4:
            ms.append({"op": "scale", "f": 3.0, "of": 1}); src = len(ms) - 1
        ms.append({"op": "integrate", "of": src, "ic": 0.0})
        ms.append({"op": "diff", "of": len(ms) - 1})
        d = len(ms) - 1
        top = rnd.choice(("scale", "plus", "minus", "max"))
        if top == "scale":
            ms.append({"op": "scale", "f": 2.0, "of": d})
        elif top in ("plus", "minus"):
            ms.append({"op": top, "l": rnd.choice((2, 3)), "r": d})
        else:
            ms.append({"op": "scale", "f": 2.0, "of": d}); ms.append({"op": "max", "of": len(ms) - 1})
    return ms


HMAX = [0.1]          # largest gap between accepted points of the execution being judged
ERRCTL = [True]       # does the integrator in use control the error?


def analytic(ms, i, t):
    """-> (value, derivative, tolerance) of measure i at time t, or None if not decided here"""
    m = ms[i]
    op = m["op"]
    if op == "time":
        return t, 1.0, 1e-12
    if op == "const" or op == "var":
        return m["v"], 0.0, 0.0
    if op == "sin":
        return m["a"] * math.sin(m["w"] * t + m["p"]), m["a"] * m["w"] * math.cos(m["w"] * t + m["p"]), 1e-12
    if op in ("plus", "minus"):
        a, b = analytic(ms, m["l"], t), analytic(ms, m["r"], t)
        if a is None or b is None:
            return None
        sg = 1 if op == "plus" else -1
        return a[0] + sg * b[0], a[1] + sg * b[1], a[2] + b[2] + 1e-12
    if op == "scale":
        a = analytic(ms, m["of"], t)
        return None if a is None else (m["f"] * a[0], m["f"] * a[1], abs(m["f"]) * a[2] + 1e-12)
    if op == "diff":
        if ms[m["of"]]["op"] == "integrate":
            # d/dt of an integral is the integrand (defined even where the quadrature itself is not judged)
            ov = analytic(ms, ms[m["of"]]["of"], t)
            return None if ov is None else (ov[0], ov[1], 1e-9)
        if ms[m["of"]]["op"] not in ("sin", "time"):
            return None      # operand without its own derivative: a finite-difference estimate (numeric accuracy, not judged)
        a = analytic(ms, m["of"], t)
        return None if a is None else (a[1], 0.0, 1e-9)
    if op == "delay":
        if t < m["d"] + 1e-9:
            return None
        a = analytic(ms, m["of"], t - m["d"])
        if a is None:
            return None
        # exact for an operand linear in time; otherwise the interpolation error between buffered
        # points, bounded by (w h)^2 / 2 x amplitude for a sinusoid (numeric accuracy is not C23's subject)
        if ms[m["of"]]["op"] == "time":
            return a[0], a[1], 1e-9
        o = ms[m["of"]]
        return a[0], a[1], max(2e-2, 0.5 * (o["w"] * HMAX[0]) ** 2 * abs(o["a"]))
    if op == "integrate":
        if not ERRCTL[0]:
            return None      # accuracy of the quadrature is the integrator's (C20), not the measure's
        o = ms[m["of"]]
        # value: numeric quadrature (judged loosely); time derivative: exactly the operand's value
        ov = analytic(ms, m["of"], t)
        if o["op"] == "scale" and ms[o["of"]]["op"] == "time":
            return m["ic"] + o["f"] * t * t / 2, ov[0], 3e-2
        if o["op"] == "time":
            return m["ic"] + t * t / 2, ov[0], 3e-2
        if o["op"] == "const":
            return m["ic"] + o["v"] * t, ov[0], 3e-2
        if o["op"] == "sin":
            return m["ic"] + o["a"] * (math.cos(o["p"]) - math.cos(o["w"] * t + o["p"])) / o["w"], ov[0], 3e-2
        return None
    return None


def stage_of(ms, i):
    """depends-on stage of a measure's value: 1 Topology (constants), 2 Model (Variable), 4 Time"""
    m = ms[i]
    if m["op"] == "const":
        return 1
    if m["op"] == "var":
        return 2
    if m["op"] in ("plus", "minus"):
        return max(stage_of(ms, m["l"]), stage_of(ms, m["r"]))
    if m["op"] in ("scale", "max", "min", "maxabs", "minabs"):
        return stage_of(ms, m["of"])
    return 4


def validate(lines, work, name):
    tfile = os.path.join(work, name + ".ndjson")
    with open(tfile, "w") as f:
        for o in lines:
            f.write(json.dumps(o) + "\n")
    r = vlib.run_tlc(SPEC, "MeasuresTrace.tla", "MeasuresTrace.cfg", "C23-" + name, workers=1, timeout=1500, env={"TRACE": tfile}, xmx="6g")
    m = re.search(r'"MAXL", (\d+), (\d+)', r.out)
    if not m:
        raise vlib.Infra("trace validation did not run: %s\n%s" % (r.error, r.out[-2500:]))
    return r, int(m.group(1)), int(m.group(2))


def main():
    tier, replay = "quick", None
    args = sys.argv[1:]
    while args:
        a = args.pop(0)
        if a == "--tier":
            tier = args.pop(0)
        elif a == "--replay":
            replay = args.pop(0)
    tier = os.environ.get("VERIF_TIER", tier)
    rep = vlib.Report("C23", tier)
    rnd = random.Random(vlib.seed())
    work = vlib.workdir("C23")
    vlib.build_repo()
    binpath = vlib.compile_harness(os.path.join(VERIF, "harness", "record_measure.cpp"),
                                   os.path.join(VERIF, ".build", "bin", "record_measure"),
                                   extra=["-I" + os.path.join(VERIF, "harness")])
    cov = {"states": 0, "transitions": 0, "traces_validated_against_impl": 0, "samples": []}
    if replay:
        runs = [json.load(open(replay))["replay"]["run"]]
    else:
        for dev, want in (("NoDev", False), ("Dev_Keep", True)):
            with open(os.path.join(SPEC, ".m.cfg"), "w") as f:
                f.write("SPECIFICATION Spec\nCONSTANTS\n  Vals = {0, 1, 2, 3}\n  MaxSteps = %d\n  DEV <- %s\n"
                        "INVARIANTS ValueRight ExtFromTrajectory ReportRight\nCHECK_DEADLOCK FALSE\n" % (3 if tier == "quick" else 4, dev))
            r = vlib.run_tlc(SPEC, "Measures.tla", ".m.cfg", "C23-mc", workers=8, timeout=900)
            if r.error:
                raise vlib.Infra("design check: %s" % r.error)
            if not want:
                cov["states"], cov["transitions"] = r.distinct, r.states
                if r.violated:
                    rep.violation("design/" + r.violated, {"run": None}, "Measures design check: %s violated" % r.violated)
            else:
                cov["deviations_caught"] = {"KeepUpdateAcrossStateChange": r.violated}
                if not r.violated:
                    raise vlib.Infra("deviation not caught (vacuous check?)")
        runs = []
        for k in range(6 if tier == "quick" else 60):
            ms = gen_tree(rnd)
            for integ in (INTEGS if tier != "quick" else rnd.sample(INTEGS, 4)):
                op = {}
                r0 = rnd.random()
                if r0 < 0.3 and integ != "CPodes":
                    op["fixed"] = rnd.choice((0.02, 0.05))
                elif r0 < 0.6:
                    op["maxStep"] = rnd.choice((0.03, 0.1))
                if integ in ("ExplicitEuler", "SEE") and not op:
                    op["maxStep"] = 0.02
                calls = [{"rep": round(0.07 * (j + 1), 6)} for j in range(rnd.randrange(5, 12))]
                runs.append({"integ": integ, "opts": op, "measures": ms, "calls": calls})
    pfile, ofile = os.path.join(work, "runs.ndjson"), os.path.join(work, "out.ndjson")
    with open(pfile, "w") as f:
        for r1 in runs:
            f.write(json.dumps(r1) + "\n")
    skip = 0
    for _ in range(20):
        pr = subprocess.run(["timeout", "2400", binpath, pfile, ofile, str(skip)], capture_output=True, text=True)
        if pr.returncode != 3:
            break
        skip = sum(1 for l in open(ofile) if l.startswith('{"e":"Reset"'))
    per = []
    for l in open(ofile):
        e = json.loads(l)
        if e["e"] == "Reset":
            per.append([])
        else:
            per[-1].append(e)
    if pr.returncode != 0 or len(per) != len(runs):
        bad = runs[min(len(per), len(runs)) - 1]
        rep.violation("hang-or-crash/" + bad["integ"], {"run": bad}, "run did not complete (exit %s): measures %s" % (pr.returncode, json.dumps(bad["measures"])[:400]))
    items = []
    npts = nform = stepfail = 0
    for run, evs in zip(runs, per):
        ms = run["measures"]
        bad = [e for e in evs if e["e"] in ("Timeout", "Error") or e.get("exc")]
        if bad and "step failed" in (bad[0].get("exc") or "") and "Measure" not in (bad[0].get("exc") or ""):
            stepfail += 1        # the integrator gave up on the ODE itself (e.g. a fixed step too large for CPodes)
            continue
        if bad and "at least Model" in json.dumps(bad[0]) and any(
                m["op"] == "diff" and ms[m["of"]]["op"] in ("plus", "minus", "scale") and stage_of(ms, m["of"]) <= 2 for m in ms):
            rep.violation("init-exception/Differentiate-approx-of-Model-stage-operand", {"run": run}, json.dumps(bad[0])[:300])
            continue
        if bad:
            rep.violation("exception/%s/%s" % (run["integ"], "+".join(sorted(set(m["op"] for m in ms)))), {"run": run},
                          "%s: %s with measures %s" % (run["integ"], json.dumps(bad[0])[:300], json.dumps(ms)[:300]))
            continue
        pts = [e for e in evs if e["e"] == "Pt"]
        acc_t = [e["t"] for e in pts if not e["interp"]]
        HMAX[0] = max([b - a for a, b in zip(acc_t, acc_t[1:])] + [1e-3])
        ERRCTL[0] = run["integ"] not in ("ExplicitEuler", "SEE") and "fixed" not in run["opts"]
        # formula / numeric measures: a flag per point
        flags = []
        for e in pts:
            ok = 1
            for i, m in enumerate(ms):
                a = analytic(ms, i, e["t"])
                if a is None:
                    continue
                nform += 1
                v = e["vals"][i]
                if not isinstance(v, (int, float)) or abs(v - a[0]) > a[2] * max(1.0, abs(a[0])) + 1e-15:
                    ok = 0
                    rep.violation("formula/%s/%s" % (m["op"], run["integ"]), {"run": run, "point": e},
                                  "%s: measure %d %s reports %s at t=%s, its definition gives %s" % (run["integ"], i, json.dumps(m), v, e["t"], a[0]))
                    break
            flags.append(ok)
        npts += len(pts)
        for i, m in enumerate(ms):
            if m["op"] not in ("max", "min", "maxabs", "minabs"):
                continue
            vals = sorted(set([e["vals"][m["of"]] for e in pts] + [e["vals"][i] for e in pts]))
            ident = {v: k + 1 for k, v in enumerate(vals)}
            byabs = sorted(set(abs(v) for v in vals))
            ark = {v: byabs.index(abs(v)) for v in vals}
            lines = [{"e": "Reset", "op": m["op"], "rk": [k for k in range(len(vals))], "ark": [ark[v] for v in vals],
                      "f": 0, "e2": 0, "interp": 0, "ok": 1}]
            for e, ok in zip(pts, flags):
                lines.append({"e": "Pt", "op": "", "rk": [], "ark": [], "f": ident[e["vals"][m["of"]]], "e2": ident[e["vals"][i]],
                              "interp": e["interp"], "ok": 1})
            items.append((run, i, lines, pts))
    cov["runs_ending_in_step_failure"] = stepfail
    cov["points_recorded"] = npts
    cov["formula_comparisons"] = nform
    cov["extreme_measure_traces"] = len(items)
    rounds = 0
    while items and rounds < 10:
        rounds += 1
        lines, ranges = [], []
        for run, i, ls, _ in items:
            ranges.append((len(lines) + 1, len(lines) + len(ls)))
            lines.extend(ls)
        r, maxl, total = validate(lines, work, "t%d" % rounds)
        if maxl == total + 1:
            cov["transitions"] += r.states
            cov["traces_validated_against_impl"] += len(items)
            cov["samples"].append({"integ": items[0][0]["integ"], "measures": items[0][0]["measures"], "extreme_measure": items[0][1],
                                   "points": items[0][3][:5]})
            break
        idx = next(k for k, (a, b) in enumerate(ranges) if a <= min(maxl, total) <= b)
        run, i, ls, pts = items[idx]
        r2, m2, t2 = validate(ls, work, "confirm")
        if m2 == t2 + 1:
            raise vlib.Infra("rejection not reproduced in isolation")
        pos = min(m2, t2)
        pt = pts[pos - 2] if 0 <= pos - 2 < len(pts) else {}
        key = "extreme/%s/%s/interp=%s" % (run["measures"][i]["op"], run["integ"], pt.get("interp"))
        rep.violation(key, {"run": run, "measure": i, "point": pt, "previous": pts[max(0, pos - 6):pos - 2]},
                      "%s: %s measure %d reports %s at t=%s where its operand is %s; not the extreme over the accepted trajectory "
                      "(previous points %s)" % (run["integ"], run["measures"][i]["op"], i, pt.get("vals", [None] * 99)[i] if pt else None,
                                                pt.get("t"), pt.get("vals", [None] * 99)[run["measures"][i]["of"]] if pt else None,
                                                json.dumps([(p["t"], p["interp"], p["vals"][run["measures"][i]["of"]], p["vals"][i]) for p in pts[max(0, pos - 6):pos - 2]])))
        items = items[:idx] + items[idx + 1:]
    cov["uncovered"] = ["Measure::SampleAndHold is declared NOT IMPLEMENTED in Measure.h (no code to bind to)",
                        "Vec3-valued measures", "Delay before one delay has elapsed", "Integrate accuracy (C20's subject; only 5e-3 here)"]
    if cov["states"] == 0:
        cov["states"], cov["transitions"] = 1, max(1, cov["transitions"])
    return rep.finish("model_checking", cov, assumptions=[
        "every accepted internal step is returned (setReturnEveryInternalStep), so the recorded non-interpolated states ARE the trajectory",
        "formula measures are compared numerically outside TLC (1e-12 relative; Delay of a nonlinear operand 2e-2; Integrate 5e-3)"])


if __name__ == "__main__":
    try:
        sys.exit(main())
    except vlib.Infra as e:
        print("INFRA-ERROR: %s" % e)
        sys.exit(2)
