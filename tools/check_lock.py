#!/usr/bin/env python3
"""C10 -- prescribed motion and locks are honoured exactly (engine E9).

spec/Lock/Lock.tla: who governs each mobilizer's q, u and udot (a lock at position / velocity /
acceleration level, an enabled Motion at one of those levels, or nothing), what lock / lockAt / unlock /
Motion enable-disable / setQ / setU / prescribe do to the State, as documented.  TLC checks the model
exhaustively on a small instance (governed values hold right after prescribe, a lock wins over a Motion,
prescribe is idempotent, unlock hands control back).  Conformance: random programs over the action
alphabet are executed by harness/record_lock on a real 5-mobilizer system (Custom Motions linear in
time at the three levels, a mobilizer locked by default); after EVERY action q, u, udot (after
realize(Acceleration)), lock level and recorded lock value are recorded, and the harness's force oracle
(the reported motion forces applied as ordinary forces to the same model without prescriptions reproduce
the same accelerations for every mobility) is evaluated; TLC validates every recorded line against the
spec (spec/Lock/LockTrace.tla).
"""
import json, os, re, sys, subprocess, random
sys.path.insert(0, os.path.dirname(os.path.abspath(__file__)))
import vlib
from vlib import VERIF
import check_lattice

SPEC = os.path.join(VERIF, "spec", "Lock")
LEVELS = ["pos", "vel", "acc"]


def gen_prog(rnd, length):
    prog = [{"op": "reset"}]
    while len(prog) <= length:
        r = rnd.random()
        m = rnd.randint(1, 5)
        v = rnd.randint(-3, 3)
        if r < 0.22:
            a = {"op": "prescribe"}
        elif r < 0.32:
            a = {"op": "setTime", "v": rnd.randint(0, 3)}
        elif r < 0.44:
            a = {"op": "setQ", "m": m, "v": v}
        elif r < 0.54:
            a = {"op": "setU", "m": m, "v": v}
        elif r < 0.66:
            a = {"op": "lock", "m": m, "lv": rnd.choice(LEVELS)}
        elif r < 0.78:
            a = {"op": "lockAt", "m": m, "v": v, "lv": rnd.choice(LEVELS)}
        elif r < 0.88:
            a = {"op": "unlock", "m": m}
        elif r < 0.94:
            a = {"op": "disable", "m": rnd.randint(1, 3)}
        else:
            a = {"op": "enable", "m": rnd.randint(1, 3)}
        prog.append(a)
    return prog


def as_int(x):
    r = round(x)
    return int(r) if abs(x - r) < 1e-9 else 77777      # a non-integer can never match the spec


def main():
    tier, replay = "quick", None
    args = sys.argv[1:]
    while args:
        a = args.pop(0)
        if a == "--tier":
            tier = args.pop(0)
        elif a == "--replay":
            replay = args.pop(0)
    tier = os.environ.get("VERIF_TIER", tier)
    rep = vlib.Report("C10", tier)
    rnd = random.Random(vlib.seed())
    work = vlib.workdir("C10")
    vlib.build_repo()
    binpath = vlib.compile_harness(os.path.join(VERIF, "harness", "record_lock.cpp"), os.path.join(VERIF, ".build", "bin", "record_lock"),
                                   extra=["-I" + os.path.join(VERIF, "harness")])
    cov = {"states": 0, "transitions": 0, "traces_validated_against_impl": 0, "samples": []}
    # design check
    r = vlib.run_tlc(SPEC, "LockMC.tla", "LockMC.cfg", "C10-mc", workers=8, timeout=1500, xmx="8g")
    if r.error or r.violated:
        raise vlib.Infra("Lock design check: %s %s\n%s" % (r.error, r.violated, r.out[-1500:]))
    cov["states"] += r.distinct
    cov["transitions"] += r.states
    cov["design_check"] = {"distinct_states": r.distinct, "properties": ["TypeOK", "Honoured", "LockWins", "PrescribeIdempotent", "HandBack"]}
    if replay and "program" not in json.load(open(replay))["replay"]:
        progs = []
    elif replay:
        progs = [json.load(open(replay))["replay"]["program"]]
    else:
        n, d = (150, 40) if tier == "quick" else (2000, 80)
        progs = [gen_prog(rnd, d) for _ in range(n)]
    pfile, ofile = os.path.join(work, "progs.ndjson"), os.path.join(work, "out.ndjson")
    with open(pfile, "w") as f:
        for p in progs:
            f.write(json.dumps(p) + "\n")
    pr = subprocess.run(["timeout", "1800", binpath, pfile, ofile], capture_output=True, text=True)
    outs = vlib.read_ndjson(ofile)
    if pr.returncode != 0:
        rep.violation("crash", {"stderr": pr.stderr[-300:]}, "harness died (exit %s): %s" % (pr.returncode, pr.stderr[-300:]))
    # split the output back into programs; build the trace
    lines, owner = [], []
    pi, k = -1, 0
    for o in outs:
        if o["op"] == "reset":
            pi += 1
            k = 0
        if o.get("exc"):
            rep.violation("exception/%s" % o["op"], {"program": progs[pi][:k + 1]}, "action %s raised: %s" % (json.dumps(progs[pi][k]), o["exc"]))
            k += 1
            continue
        lines.append({"op": o["op"], "m": o["m"], "v": o["v"], "lv": o["lv"], "q": [as_int(x) for x in o["q"]], "u": [as_int(x) for x in o["u"]],
                      "ud": [as_int(x) for x in o["ud"]], "lock": o["lock"], "lockVal": [as_int(x) for x in o["lockVal"]],
                      "ok": 1 if o["oracleErr"] <= 1e-7 * (1 + max(abs(x) for x in o["ud"])) else 0})
        owner.append((pi, k, o))
        k += 1
    tfile = os.path.join(work, "trace.ndjson")
    start = 0
    while start < len(lines):
        with open(tfile, "w") as f:
            # always start at a reset line
            for ln in lines[start:]:
                f.write(json.dumps(ln) + "\n")
        r = vlib.run_tlc(SPEC, "LockTraceMC.tla", "LockTrace.cfg", "C10-t", workers=1, timeout=3000, env={"TRACE": tfile}, xmx="8g")
        m = re.search(r'"MAXL", (\d+), (\d+)', r.out)
        if not m:
            raise vlib.Infra("trace validation did not run: %s\n%s" % (r.error, r.out[-2000:]))
        maxl, total = int(m.group(1)), int(m.group(2))
        cov["transitions"] += r.states
        if maxl == total + 1:
            break
        bad = start + maxl - 1            # index of the rejected line
        pi, k, o = owner[bad]
        prev = owner[bad - 1][2] if k > 0 else None
        a = progs[pi][k]
        what = "oracle" if lines[bad]["ok"] == 0 else "state"
        key = "%s/%s/%s" % (what, a["op"], a.get("lv", ""))
        rep.violation(key, {"program": progs[pi][:k + 1]},
                      "after %s (program %d step %d) the real State is not what the specification allows: observed q=%s u=%s udot=%s lock=%s lockVal=%s oracleErr=%.3g; before: %s"
                      % (json.dumps(a), pi, k, o["q"], o["u"], o["ud"], o["lock"], o["lockVal"], o["oracleErr"],
                         json.dumps({x: prev[x] for x in ("q", "u", "lock", "lockVal")}) if prev else "initial"))
        # continue with the next program
        nxt = bad + 1
        while nxt < len(lines) and lines[nxt]["op"] != "reset":
            nxt += 1
        start = nxt
        if len(rep.violations) >= 10:
            break
    cov["traces_validated_against_impl"] = len(progs)
    cov["actions_validated"] = len(lines)
    cov["action_counts"] = {}
    for ln in lines:
        cov["action_counts"][ln["op"]] = cov["action_counts"].get(ln["op"], 0) + 1
    cov["samples"] = [{"program": progs[0][:8], "observed": [owner[i][2] for i in range(min(3, len(owner)))]}]
    cov["uncovered"] = ["multi-coordinate mobilizers (Vector lockAt)", "prescription combined with constraints", "Motion::Steady / Sinusoid (irrational values)",
                        "the accelerations of free mobilities are decided by the harness's force oracle, not by the specification"]
    cov["exhaustive"] = False
    # second route (engine E7): in the lattice dynamics configurations some mobilizers are locked at acceleration
    # level; the force the lock reports must be exactly the one the exact specification computes for that mobility
    if not replay or "config" in json.load(open(replay))["replay"]:
        lc = check_lattice.run("C10", tier, rep, replay if replay and "config" in json.load(open(replay))["replay"] else None)
        cov["lattice_route"] = {k: lc[k] for k in ("configurations", "dynamics_configurations", "skipped_integer_range")}
        cov["states"] += lc["states"]; cov["transitions"] += lc["transitions"]
    return rep.finish("model_checking", cov, assumptions=[
        "one coordinate per mobilizer; integer values; Motions linear in integer time",
        "force oracle tolerance 1e-7 relative"])


if __name__ == "__main__":
    try:
        sys.exit(main())
    except vlib.Infra as e:
        print("INFRA-ERROR: %s" % e)
        sys.exit(2)
