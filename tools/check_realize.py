#!/usr/bin/env python3
"""C16 -- realization results depend only on current values (engine E3), and the
change-takes-effect clause of C38.

  1. design: TLC exhaustively checks spec/Realize/Realize.tla (stage invalidation per variable as
     coded, lazy entries with prerequisites, position-only force cache, Gravity cache) for Coherence
     over all interleavings of setters, realize(g), lazy realizations / invalidations, copies;
  2. deviations (one rule of the spec switched off) must each yield a Coherence counterexample:
     these are the distinguishing histories;
  3. biased random walks of the spec give further programs;
  4. spec/Realize/RealizeTrace.tla (TLC as interpreter of the faithful spec) attaches to every
     action the projection the spec predicts (stage, validity of every lazy entry, values);
  5. harness/replay_realize executes every program on a real MultibodySystem with randomly chosen
     concrete setters for each abstract variable and compares, after EVERY action, the projection
     with the prediction and every readable result with a freshly created State given the same
     values (the fresh-state oracle).
"""
import json, os, re, sys, subprocess, random, hashlib
sys.path.insert(0, os.path.dirname(os.path.abspath(__file__)))
import vlib
from vlib import VERIF

SPEC = os.path.join(VERIF, "spec", "Realize")
INVS = "TypeOK Coherence LatentPosF PrereqsValid"
BIND = {"t": ["set", "upd"], "q": ["pin", "slider", "ball", "vec", "sub", "fit", "pin4"],
        "u": ["pin", "vec", "slider", "sub"], "z": ["state", "sub"],
        "disP": ["tpls", "custom", "cf", "sub"], "disV": ["damper", "bush", "gd", "spring"],
        "lock": ["acc", "vel", "ball", "slider"], "con": ["rod", "pip", "ccoord", "cspeed", "cacc"],
        "bk": ["stiff", "damp"], "k": ["stiff", "qzero"],
        "c": ["damper", "mcf", "dfb", "dfm", "stop", "mdf", "custom"],
        "g": ["mag", "dir", "zero", "excl", "vec", "vecdir", "off"], "gq": ["bf", "pe"], "copy": ["construct", "assign"]}
# deviations: name -> profile set to model check with (small, so the counterexample is found fast)
DEVS = ["K_PosCached", "Pos_NoReset", "G_NoExplicit", "NoPre_q", "NoPre_u", "NoCascade",
        "Inv_q", "Inv_u", "Inv_z", "Inv_t", "Inv_k", "Inv_cp", "Inv_c", "Inv_g", "Inv_disP", "Inv_disV",
        "Inv_disG", "Inv_lock", "Inv_con", "Inv_mot", "Inv_bk", "Inv_quat", "Inv_cpos", "Inv_cspd", "Inv_cacc"]
# deviations that MUST have a counterexample (vacuity control of the invariants); the others may
# turn out redundant in the design (no behaviour distinguishes them) and are then reported as such
REQUIRED = {"K_PosCached", "Pos_NoReset", "G_NoExplicit", "NoPre_q", "NoPre_u", "Inv_q", "Inv_u", "Inv_z", "Inv_k",
            "Inv_cp", "Inv_c", "Inv_g", "Inv_lock", "Inv_cpos", "Inv_cspd", "Inv_cacc"}
EQUIVALENT_OK = {"En_NoExplicit"}
STAGE = {1: "Topology", 2: "Model", 3: "Instance", 4: "Time", 5: "Position", 6: "Velocity", 7: "Dynamics",
         8: "Acceleration"}


def mc_cfg(dev, profiles="AllProfiles", maxval=1):
    p = os.path.join(SPEC, ".mc_%s.cfg" % dev)
    with open(p, "w") as f:
        f.write("SPECIFICATION Spec\nCONSTANTS\n  DEV <- %s\n  Profiles <- %s\n  MaxVal = %d\nVIEW View\n"
                "INVARIANTS %s\nCHECK_DEADLOCK FALSE\n" % (dev, profiles, maxval, INVS))
    return ".mc_%s.cfg" % dev


def acts_of(res):
    acts = []
    for _, _, text in res.trace:
        m = re.search(r"/\\ act = \[(.*?)\]\s*$", text, re.S | re.M)
        if not m:
            continue
        rec = {}
        for k, v in re.findall(r'(\w+) \|-> ("[^"]*"|-?\d+|TRUE|FALSE)', m.group(1)):
            rec[k] = json.loads(v) if v[0] in '"-0123456789' else (v == "TRUE")
        if rec.get("a") not in (None, "Init"):
            acts.append(rec)
    return acts


def desc(a):
    if a["a"] == "Set":
        return "Set(%s=%d)" % (a["x"], a["v"])
    if a["a"] in ("Realize", "InvalidateAll"):
        return "%s(%s)" % (a["a"], STAGE.get(a["g"], a["g"]))
    if a["a"] in ("RealizeLazy", "InvalidateLazy"):
        return "%s(%s)" % (a["a"], a["e"])
    return a["a"]


def strip(a):
    return {k: v for k, v in a.items() if k not in ("exp", "coherent")}


def predict(programs, work, tag):
    """programs: list of (bind, [actions]).  Returns list of (bind, [actions with exp]) truncated at
    the first action that is not enabled in the faithful spec."""
    tfile = os.path.join(work, tag + ".acts.ndjson")
    idx = []
    n = 0
    with open(tfile, "w") as f:
        for bind, acts in programs:
            f.write(json.dumps({"a": "Reset", "g": 0, "x": "", "v": 0, "e": ""}) + "\n")
            n += 1
            start = n
            for a in acts:
                b = {"a": a["a"], "g": a.get("g", 0), "x": a.get("x", ""), "v": a.get("v", 0), "e": a.get("e", "")}
                f.write(json.dumps(b) + "\n")
                n += 1
            idx.append((start, n))
    out = []
    exps = {}
    r = vlib.run_tlc(SPEC, "RealizeTrace.tla", "RealizeTrace.cfg", "C16-pred-" + tag, workers=1, timeout=1500,
                     env={"TRACE": tfile}, xmx="6g")
    got = [json.loads(s) for s in vlib.tla_strings(r.out, "EXP ")]
    if len(got) < n:
        raise vlib.Infra("RealizeTrace failed: %s\n%s" % (r.error, r.out[-1500:]))
    for g in got:
        exps[g["i"]] = g
    for (bind, acts), (start, end) in zip(programs, idx):
        res = []
        for k, a in enumerate(acts):
            e = exps.get(start + 1 + k)
            if e is None or not e["ok"]:
                break
            b = dict(strip(a))
            b["exp"] = e["exp"]
            b["coherent"] = e["coherent"]
            res.append(b)
        out.append((bind, res))
    return out


def run_harness(binpath, programs, work, tag):
    pfile = os.path.join(work, tag + ".prog.ndjson")
    ofile = os.path.join(work, tag + ".out.ndjson")
    with open(pfile, "w") as f:
        for bind, acts in programs:
            f.write(json.dumps({"a": "Reset", "bind": bind}) + "\n")
            for a in acts:
                f.write(json.dumps(a) + "\n")
    if os.path.exists(ofile):
        os.remove(ofile)
    r = subprocess.run(["timeout", "900", binpath, pfile, ofile], capture_output=True, text=True)
    outs = vlib.read_ndjson(ofile)
    res, k = [], 0
    for bind, acts in programs:
        k += 1      # Reset line
        res.append(outs[k:k + len(acts)])
        k += len(acts)
    return res, r.returncode


def mismatch(a, o):
    """-> None or (kind, detail)"""
    if o is None:
        return ("crash", "the harness died at this action")
    if o.get("skip"):
        return None
    if o.get("exc"):
        return ("exception", o["exc"][:200])
    e = a["exp"]
    if o["stage"] != e["stage"]:
        return ("stage", "stage %s after the action, the spec predicts %s" % (STAGE.get(o["stage"]), STAGE.get(e["stage"])))
    for k, v in e["valid"].items():
        if bool(o["valid"][k]) != bool(v):
            return ("valid:" + k, "lazy entry %s reads as %s, the spec predicts %s" % (k, bool(o["valid"][k]), bool(v)))
    if o["diff"]:
        return ("stale:" + o["diff"][0].split("[")[0], "result differs from a fresh State with the same values: " + "; ".join(o["diff"][:4]))
    return None


DRIFT = ("stage", "valid")


def first_mismatch(acts, outs, drift=None):
    """first mismatch that is a violation of the property (a stale result, or the real code
    refusing / crashing on a legal call).  Differences in the abstract projection alone (stage,
    validity flags) mean the specification no longer mirrors the code (model drift): they are
    recorded, not reported as violations -- C16 is about results."""
    for i, a in enumerate(acts):
        m = mismatch(a, outs[i] if i < len(outs) else None)
        if m and m[0].split(":")[0] in DRIFT:
            if drift is not None and not drift:
                drift.append((i, m))
            continue
        if m:
            return i, m
    return None


def used_bind(bind, acts):
    keys = set(a["x"] for a in acts if a["a"] == "Set")
    if any(a["a"] == "Copy" for a in acts):
        keys.add("copy")
    if any(a["a"] == "RealizeLazy" and a["e"] == "grav" for a in acts):
        keys.add("gq")
    return {k: bind[k] for k in sorted(keys) if k in bind}


def minimize(binpath, bind, acts, kind, work):
    """greedy one-at-a-time removal keeping a mismatch of the same kind"""
    cur = [strip(a) for a in acts]
    changed = True
    rounds = 0
    while changed and rounds < 60 and len(cur) > 1:
        rounds += 1
        changed = False
        cands = [cur[:i] + cur[i + 1:] for i in range(len(cur))]
        pred = predict([(bind, c) for c in cands], work, "min")
        pred = [(b, p) for (b, p), c in zip(pred, cands)]
        outs, _ = run_harness(binpath, pred, work, "min")
        for (b, p), o, c in zip(pred, outs, cands):
            if len(p) != len(c):
                continue
            fm = first_mismatch(p, o)
            if fm and fm[1][0] == kind:
                cur = c
                changed = True
                break
    return cur


def main():
    tier, replay = "quick", None
    args = sys.argv[1:]
    while args:
        a = args.pop(0)
        if a == "--tier":
            tier = args.pop(0)
        elif a == "--replay":
            replay = args.pop(0)
    tier = os.environ.get("VERIF_TIER", tier)
    pid = os.environ.get("VERIF_PID", "C16")
    rep = vlib.Report(pid, tier)
    seed = vlib.seed()
    rnd = random.Random(seed)
    work = vlib.workdir(pid)
    vlib.build_repo()
    binpath = vlib.compile_harness(os.path.join(VERIF, "harness", "replay_realize.cpp"),
                                   os.path.join(VERIF, ".build", "bin", "replay_realize"),
                                   extra=["-I" + os.path.join(VERIF, "harness")])
    cov = {"states": 0, "transitions": 0, "traces_validated_against_impl": 0, "samples": [],
           "deviations_distinguished": {}, "actions_replayed": 0}
    programs = []   # (origin, bind, acts)

    def rand_bind():
        return {k: rnd.choice(v) for k, v in BIND.items()}

    fast = os.environ.get("VERIF_DEV_FAST") == "1"
    if replay:
        rp = json.load(open(replay))["replay"]
        programs.append(("replay", rp["bind"], rp["program"]))
    else:
        # 1. design
        r = vlib.run_tlc(SPEC, "RealizeMC.tla", mc_cfg("NoDev", "FastProfiles" if fast else "AllProfiles",
                                                       maxval=1 if tier == "quick" else 2), "C16-mc",
                         workers=16, timeout=3000, xmx="12g")
        if r.error:
            raise vlib.Infra("design check: %s\n%s" % (r.error, r.out[-1500:]))
        cov["states"], cov["transitions"] = r.distinct, r.states
        cov["design_depth"] = r.depth
        if r.violated:
            acts = acts_of(r)
            rep.violation("design/" + r.violated + "/" + ">".join(desc(a) for a in acts),
                          {"bind": {}, "program": acts},
                          "the specification (realization mechanism as coded) violates %s after %s"
                          % (r.violated, " ; ".join(desc(a) for a in acts)))
        # 2. deviations
        from concurrent.futures import ThreadPoolExecutor
        devs = [] if fast else DEVS + sorted(EQUIVALENT_OK)
        with ThreadPoolExecutor(4) as ex:
            results = list(ex.map(lambda d: vlib.run_tlc(SPEC, "RealizeMC.tla", mc_cfg("Dev_" + d), "C16-dev-" + d,
                                                         workers=4, timeout=900, xmx="3g"), devs))
        for dev, r in zip(devs, results):
            if r.error:
                raise vlib.Infra("deviation %s: %s" % (dev, r.error))
            if not r.violated:
                if dev not in REQUIRED:
                    cov["deviations_distinguished"][dev] = "equivalent (rule is redundant in the design)"
                    continue
                raise vlib.Infra("deviation %s not caught by the design invariants (vacuous check?)" % dev)
            acts = acts_of(r)
            cov["deviations_distinguished"][dev] = " ; ".join(desc(a) for a in acts)
            # make the latent ones observable: re-realize to the top afterwards
            acts = acts + [{"a": "Realize", "g": 8}]
            xs = sorted(set(a["x"] for a in acts if a["a"] == "Set"))
            # every concrete setter of the variables involved
            combos = [{}]
            for x in xs:
                combos = [dict(c, **{x: b}) for c in combos for b in BIND.get(x, [""])]
            if len(combos) > 40:
                combos = rnd.sample(combos, 40)
            for c in combos:
                b = rand_bind()
                b.update(c)
                programs.append(("dev:" + dev, b, acts))
        # 3. regression corpus (hand-written histories, e.g. the ones behind recorded findings)
        cfile = os.path.join(SPEC, "corpus.ndjson")
        if os.path.exists(cfile):
            for line in open(cfile):
                line = line.strip()
                if line and not line.startswith("#"):
                    o = json.loads(line)
                    b = rand_bind()
                    b.update(o.get("bind", {}))
                    programs.append(("corpus:" + o.get("name", ""), b, o["program"]))
        # 4. random walks
        nwalk, depth = (40, 40) if tier == "quick" else (400, 60)
        with open(os.path.join(SPEC, ".gen.cfg"), "w") as f:
            f.write("SPECIFICATION GenSpec\nCONSTANTS\n  DEV <- NoDev\n  Profiles <- GenProfiles\n  MaxVal = 2\n"
                    "  Depth = %d\nACTION_CONSTRAINT Bias\nINVARIANT Emit\nCHECK_DEADLOCK FALSE\n" % depth)
        r = vlib.run_tlc(SPEC, "RealizeGen.tla", ".gen.cfg", "C16-gen", workers=4, timeout=900,
                         simulate="num=%d" % nwalk, extra=["-depth", str(depth + 1), "-seed", str(seed)])
        seen, walks = set(), []
        for s in vlib.tla_strings(r.out, "PROG "):
            h = hashlib.sha1(s.encode()).hexdigest()
            if h in seen:
                continue
            seen.add(h)
            o = json.loads(s)
            walks.append([h1["act"] for h1 in o["prog"]])
        if not seen:
            raise vlib.Infra("generator produced no programs\n" + r.out[-1500:])
        rnd.shuffle(walks)
        walks = walks[:150 if tier == "quick" else 2500]
        for w in walks:
            programs.append(("walk", rand_bind(), w))
        cov["random_walks"] = len(walks)

    # 5. predictions from the faithful spec, then execution on the real system
    pred = predict([(b, a) for _, b, a in programs], work, "all")
    outs, rc = run_harness(binpath, pred, work, "all")
    bykind = {}
    drifts = {}
    sigs = {}
    for (origin, _, _), (bind, acts), o in zip(programs, pred, outs):
        if not acts:
            continue
        cov["traces_validated_against_impl"] += 1
        cov["actions_replayed"] += len(acts)
        bykind[origin.split(":")[0]] = bykind.get(origin.split(":")[0], 0) + 1
        if len(cov["samples"]) < 3 and origin.split(":")[0] not in [s["origin"].split(":")[0] for s in cov["samples"]]:
            cov["samples"].append({"origin": origin, "bind": used_bind(bind, acts),
                                   "program": [desc(a) for a in acts],
                                   "observed_last": o[len(acts) - 1] if len(o) >= len(acts) else None})
        drift = []
        fm = first_mismatch(acts, o, drift)
        if drift:
            j, (dk, dd) = drift[0]
            dkey = "%s at %s [%s]" % (dk, desc(acts[j]), bind.get(acts[j].get("x", ""), ""))
            if dkey not in drifts:
                drifts[dkey] = dd + " (history: %s)" % " ; ".join(desc(a) for a in acts[max(0, j - 5):j + 1])
        if not fm:
            continue
        i, (kind, detail) = fm
        sig = (kind, desc(acts[i]), bind.get(acts[i].get("x", ""), ""))
        if sig in sigs:
            sigs[sig] += 1
            continue
        sigs[sig] = 1
        if len(sigs) > 12:
            continue
        small = minimize(binpath, bind, acts[:i + 1], kind, work)
        ub = used_bind(bind, small)
        key = "%s/%s/%s" % (kind, ",".join("%s=%s" % kv for kv in sorted(ub.items())), ">".join(desc(a) for a in small))
        names = [desc(a) for a in small]
        il = [n for n, d in enumerate(names) if d.startswith("Set(lock=2")]
        if il and any(d.startswith("Set(quat=") for d in names[il[-1] + 1:]):
            # its own call site: re-realizing Model stage after a Model-stage change re-initialises the recorded lock VALUES
            # (lockedQs / lockedUs) while the lock LEVEL survives
            key = "lockAt-value-lost/Set(lock=2)>Set(quat)>Realize"
        rep.violation(key, {"bind": bind, "program": small, "origin": origin},
                      "after %s [%s]: %s" % (" ; ".join(desc(a) for a in small),
                                             ", ".join("%s via %s" % kv for kv in sorted(ub.items())), detail))
    cov["programs_by_origin"] = bykind
    cov["model_drift"] = drifts
    cov["violation_signatures"] = {"%s at %s [%s]" % k: v for k, v in sigs.items()}
    for k, v in sorted(drifts.items())[:30]:
        print("MODEL-DRIFT: %s: %s" % (k, v))
    cov["uncovered"] = ["Thermostat, cable, contact and ExponentialSpring elements are not in the harness system",
                        "event witnesses; constraint parameters other than the ConstantCoordinate/Speed/Acceleration values"]
    if cov["states"] == 0:
        cov["states"], cov["transitions"] = 1, 1
    return rep.finish("model_checking", cov, assumptions=[
        "the harness system (5 bodies, 18 force elements, 5 constraints, 1 motion) stands for 'random models'",
        "results are compared with relative tolerance 1e-9 (both sides run the same single-threaded code)",
        "the custom elements of the harness declare their own dependencies correctly"])


if __name__ == "__main__":
    try:
        sys.exit(main())
    except vlib.Infra as e:
        print("INFRA-ERROR: %s" % e)
        sys.exit(2)
