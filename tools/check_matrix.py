#!/usr/bin/env python3
"""C25 -- Matrix_/Vector_/RowVector_ objects and views behave like the matrices they denote (engine E6).

spec/Data/MatrixModel.tla: three integer matrix objects; a view is a term (block of the base, optionally
transposed, optionally negated, then whole / one row / one column / the diagonal) that DENOTES a matrix;
writing through a view changes exactly the viewed elements so that the view shows what was written; objects
made from views are independent copies; arithmetic, sums and norms are those of the denoted matrices.
The checker draws random programs over the action alphabet (tracking shapes only), TLC (MatrixTrace, the
spec as interpreter) computes the three objects and the expression value after EVERY action, and
harness/replay_matrix executes the same program with the library's own view classes and operators for
element types double and float; everything is compared exactly (small integers).
"""
import json, os, sys, subprocess, random
sys.path.insert(0, os.path.dirname(os.path.abspath(__file__)))
import vlib
from vlib import VERIF

SPEC = os.path.join(VERIF, "spec", "Data")
NAMES = ["A", "B", "C"]
NOVIEW = {"base": "A", "i": 0, "j": 0, "m": 0, "n": 0, "tr": 0, "neg": 0, "sel": "all", "k": 0}


class Gen:
    def __init__(self, rnd):
        self.r = rnd
        self.dims = {n: (0, 0) for n in NAMES}

    def shape(self, v):
        m1, n1 = (v["n"], v["m"]) if v["tr"] else (v["m"], v["n"])
        return {"all": (m1, n1), "row": (1, n1), "col": (m1, 1), "diag": (min(m1, n1), 1)}[v["sel"]]

    def kind(self, v):
        return {"all": 0, "row": 2, "col": 1, "diag": 1}[v["sel"]]

    def view(self, base, sel=None, neg=None):
        nr, nc = self.dims[base]
        r = self.r
        m = r.randint(0, nr) if r.random() < 0.15 else r.randint(min(1, nr), nr)
        n = r.randint(0, nc) if r.random() < 0.15 else r.randint(min(1, nc), nc)
        v = {"base": base, "i": r.randint(0, nr - m), "j": r.randint(0, nc - n), "m": m, "n": n, "tr": r.randint(0, 1),
             "neg": r.randint(0, 1) if neg is None else neg, "sel": sel or r.choice(["all", "all", "row", "col", "diag"]), "k": 0}
        m1, n1 = (n, m) if v["tr"] else (m, n)
        if v["sel"] == "row":
            if m1 == 0:
                v["sel"] = "all"
            else:
                v["k"] = r.randrange(m1)
        elif v["sel"] == "col":
            if n1 == 0:
                v["sel"] = "all"
            else:
                v["k"] = r.randrange(n1)
        return v

    def partner(self, v, want_shape=None, want_kind=None, other_base=True):
        """a view of another object with the wanted shape / kind and the same negation, or None"""
        bases = [b for b in NAMES if b != v["base"]] if other_base else NAMES
        for _ in range(60):
            w = self.view(self.r.choice(bases), neg=v["neg"])
            if want_kind is not None and self.kind(w) != want_kind:
                continue
            if want_shape is not None and not want_shape(self.shape(w)):
                continue
            return w
        return None

    def action(self):
        r = self.r
        x = r.choice(NAMES)
        p = r.random()
        a = {"op": "", "x": x, "m": 0, "n": 0, "c": r.randint(-3, 4), "i": 0, "j": 0, "d": dict(NOVIEW), "s": dict(NOVIEW)}
        nonempty = [b for b in NAMES if self.dims[b][0] * self.dims[b][1] > 0]
        if p < 0.12 or len(nonempty) < 2:
            a.update(op="resizeFill", m=r.randint(0, 4) if r.random() < 0.1 else r.randint(1, 4), n=r.randint(0, 4) if r.random() < 0.1 else r.randint(1, 4))
            self.dims[x] = (a["m"], a["n"])
            return a
        if p < 0.17:
            a.update(op="resizeKeep", m=r.randint(1, 4), n=r.randint(1, 4))
            self.dims[x] = (a["m"], a["n"])
            return a
        if p < 0.27:
            b = r.choice(nonempty)
            a.update(op="setElt", x=b, i=r.randrange(self.dims[b][0]), j=r.randrange(self.dims[b][1]), c=r.randint(-5, 6))
            return a
        b = r.choice(nonempty)
        v = self.view(b)
        sh, kd = self.shape(v), self.kind(v)
        if p < 0.37:
            a.update(op="fill", d=v)
        elif p < 0.43:
            a.update(op="scaleBy", d=v, c=r.choice([-2, -1, 2, 3]))
        elif p < 0.50:
            tgt = r.choice([n for n in NAMES if n != b])
            a.update(op="copyTo", x=tgt, s=v)
            self.dims[tgt] = sh
        elif p < 0.72:
            w = self.partner(v, want_shape=lambda s: s == sh, want_kind=kd)
            if not w:
                return None
            a.update(op=r.choice(["assign", "assign", "addTo", "subFrom"]), d=v, s=w)
        elif p < 0.86:
            op = r.choice(["add", "sub", "emul", "mul", "mul"])
            if op == "mul":
                if kd == 1:
                    return None
                w = self.partner(v, want_shape=lambda s: s[0] == sh[1], other_base=False)
                if not w or self.kind(w) == 2 or (kd == 2 and self.kind(w) not in (0, 1)):
                    return None
            else:
                w = self.partner(v, want_shape=lambda s: s == sh, want_kind=kd, other_base=False)
                if not w:
                    return None
            a.update(op=op, s=v, d=w)
        else:
            a.update(op=r.choice(["val", "smul", "colSum", "rowSum", "normSqr"]), s=v, c=r.choice([-2, 2, 3]))
        return a


def gen_prog(rnd, length):
    g = Gen(rnd)
    prog = []
    while len(prog) < length:
        a = g.action()
        if a:
            prog.append(a)
    return prog


def main():
    tier, replay = "quick", None
    args = sys.argv[1:]
    while args:
        a = args.pop(0)
        if a == "--tier":
            tier = args.pop(0)
        elif a == "--replay":
            replay = args.pop(0)
    tier = os.environ.get("VERIF_TIER", tier)
    rep = vlib.Report("C25", tier)
    rnd = random.Random(vlib.seed())
    work = vlib.workdir("C25")
    vlib.build_repo()
    binpath = vlib.compile_harness(os.path.join(VERIF, "harness", "replay_matrix.cpp"), os.path.join(VERIF, ".build", "bin", "replay_matrix"),
                                   extra=["-I" + os.path.join(VERIF, "harness")], libs=("SimTKcommon",))
    cov = {"states": 0, "transitions": 0, "traces_validated_against_impl": 0, "samples": []}
    if replay:
        progs = [json.load(open(replay))["replay"]["program"]]
    else:
        n, d = (120, 60) if tier == "quick" else (1500, 150)
        progs = [gen_prog(rnd, d) for _ in range(n)]
    tfile = os.path.join(work, "acts.ndjson")
    with open(tfile, "w") as f:
        for p in progs:
            f.write(json.dumps({"op": "reset", "x": "A", "m": 0, "n": 0, "c": 0, "i": 0, "j": 0, "d": NOVIEW, "s": NOVIEW}) + "\n")
            for a in p:
                f.write(json.dumps(a) + "\n")
    r = vlib.run_tlc(SPEC, "MatrixTrace.tla", "MatrixTrace.cfg", "C25-pred", workers=1, timeout=3000, env={"TRACE": tfile}, xmx="8g")
    exp = [json.loads(s) for s in vlib.tla_strings(r.out, "EXP ")]
    total = sum(len(p) + 1 for p in progs)
    if r.error or len(exp) != total:
        raise vlib.Infra("MatrixTrace prediction failed (%d of %d lines): %s\n%s" % (len(exp), total, r.error, r.out[-1500:]))
    cov["states"] += r.distinct
    cov["transitions"] += r.states
    # split the predictions per program
    want, k = [], 0
    for p in progs:
        want.append(exp[k + 1:k + 1 + len(p)])
        k += len(p) + 1
    disabled = sum(1 for w in want for e in w if not e["ok"])
    pfile, ofile = os.path.join(work, "progs.ndjson"), os.path.join(work, "out.ndjson")
    with open(pfile, "w") as f:
        for p in progs:
            f.write(json.dumps(p) + "\n")
    pr = subprocess.run(["timeout", "1800", binpath, pfile, ofile], capture_output=True, text=True)
    outs = vlib.read_ndjson(ofile)
    if pr.returncode != 0:
        rep.violation("crash", {"stderr": pr.stderr[-300:]}, "harness died (exit %s): %s" % (pr.returncode, pr.stderr[-300:]))
    by = {}
    for o in outs:
        by.setdefault((o["prog"], o["type"]), []).append(o)
    ops_seen = {}
    for pi, p in enumerate(progs):
        for ty in ("double", "float"):
            got = by.get((pi + 1, ty), [])
            cov["traces_validated_against_impl"] += 1
            for si, a in enumerate(p):
                w = want[pi][si]
                if not w["ok"]:
                    break                      # the generator drew an action the spec does not enable: stop this program here
                if si >= len(got):
                    break
                o = got[si]
                ops_seen[a["op"]] = ops_seen.get(a["op"], 0) + 1
                vkey = "%s/%s%s%s" % (a["op"], a["d"]["sel"] if a["op"] in ("fill", "scaleBy", "assign", "addTo", "subFrom") else a["s"]["sel"],
                                      "/T" if (a["d"]["tr"] or a["s"]["tr"]) else "", "/neg" if (a["d"]["neg"] or a["s"]["neg"]) else "")
                if o["exc"]:
                    rep.violation("exception/" + vkey, {"program": p[:si + 1]}, "%s (element type %s) raised: %s" % (json.dumps(a), ty, o["exc"]))
                    break
                if o["note"]:
                    break                      # combination the library does not offer (harness could not express it)
                bad = [x for x in ("A", "B", "C", "res") if o[x] != w[x] and not (x == "res" and w[x] == [] and o[x] == [])]
                if bad:
                    rep.violation("value/" + vkey, {"program": p[:si + 1]},
                                  "after %s (element type %s, step %d) %s is %s but the denoted matrices give %s"
                                  % (json.dumps(a), ty, si + 1, bad[0], json.dumps(o[bad[0]]), json.dumps(w[bad[0]])))
                    break
    cov["programs"] = len(progs)
    cov["actions"] = ops_seen
    cov["actions_not_enabled_in_spec"] = disabled
    cov["samples"] = [{"program": progs[0][:6], "expected": want[0][:6]}]
    cov["uncovered"] = ["element types Complex, Vec3, SpatialVec", "fixed-size Vec / Mat / SymMat arithmetic, inverse, determinant", "shapes above 4 x 4", "assignment between views of negated and plain elements (not offered by the library)"]
    cov["exhaustive"] = False
    if len(rep.violations) > 25:
        rep.violations = rep.violations[:25]
    return rep.finish("model_checking", cov, assumptions=["small integer element values (exact in double and float)"])


if __name__ == "__main__":
    try:
        sys.exit(main())
    except vlib.Infra as e:
        print("INFRA-ERROR: %s" % e)
        sys.exit(2)
