#!/usr/bin/env python3
"""C05, C03, C04, C01, C15, C02 on the exact lattice (engine E7).

  spec/Lattice/LatticeMech.tla is rigid-body mechanics of a tree over the numbers n/5^e: the DOCUMENTED
  X_FM(q) and meaning of u of every mobilizer type it covers (Pin, Slider, Weld, Universal, Cylinder,
  BendStretch, Planar, Translation, Gimbal, Bushing, Ball, Free; forward and reversed), the tree's
  position / velocity / acceleration kinematics, the mass matrix as sum J'M_bJ, energy, momenta, mass
  centre, inertia and the inverse-dynamics bias (Kane).  TLC (LatticeEval) evaluates it EXACTLY for each
  generated configuration and checks the spec's own identities; harness/replay_lattice builds the same
  MultibodySystem in the real library and reports what it computes; this script compares.

  Which comparison decides which property:
    C05  body poses X_GB (the parameterisation) and, where the pose agrees, body velocities (meaning of u)
    C03  body velocities V_GB (the spec's velocities are the exact time derivatives of its poses)
    C04  J*u against reported velocities, <F,Ju> = <J'F,u>, station Jacobian, Jdot*u against the spec's
         accelerations for udot = 0
    C01  explicit M against sum J'M_bJ, multiplyByM / multiplyByMInv / calcMInv against it, symmetry and
         positive definiteness, 2 KE = u'Mu
    C15  system mass, mass centre, momentum (about Ground origin and about the mass centre), inertia,
         kinetic energy against the per-body sums of the spec
    C02  inverse-dynamics residual for udot = 0 against the Kane bias of the spec, and forward dynamics
         udot against -M^-1 bias (solved here from the spec's exact M and bias); with applied body forces F
         (integers) and the mobility forces tau = M ud + bias - J'F computed exactly by the spec for integer
         ud: realized udot = ud, zero inverse-dynamics residual, J'F through the operator
    C14  mobilizer reactions (on the body at M, on the parent at F) of that motion against the spec's
         tip-to-base Newton-Euler balance; the freebody method and the MobilizedBody accessors agree
"""
import json, os, sys, subprocess, random, math, re
sys.path.insert(0, os.path.dirname(os.path.abspath(__file__)))
import vlib
from vlib import VERIF

SPEC = os.path.join(VERIF, "spec", "Lattice")
TYPES = ["pin", "slider", "weld", "universal", "cylinder", "bendstretch", "planar", "translation", "gimbal", "bushing", "ball", "free", "euler5", "spherical", "ellipsoid", "lineori", "freeline"]
KINDS = {"pin": "a", "slider": "l", "weld": "", "universal": "aa", "cylinder": "al", "bendstretch": "al", "planar": "all",
         "translation": "lll", "gimbal": "aaa", "bushing": "aaalll", "ball": "cccc", "free": "cccclll", "balle": "aaa", "freee": "aaalll", "euler5": "aaall",
         "spherical": "aal", "ellipsoid": "cccc", "ellipsoide": "aaa",
         "lineori": "cccc", "lineorie": "aaa", "freeline": "cccclll", "freelinee": "aaalll"}
FB_TYPES = ("pin", "slider", "universal", "cylinder", "planar", "translation", "gimbal", "bushing", "euler5")
NU = {t: (3 if t in ("ball", "ellipsoid") else 6 if t == "free" else 2 if t in ("lineori", "lineorie") else 5 if t in ("freeline", "freelinee") else len(KINDS[t])) for t in KINDS}
# rational unit quaternions (numerators over 5^e) and what they cost in powers of 5
QUATS = [([1, 0, 0, 0], 0, 0), ([0, 1, 0, 0], 0, 0), ([0, 0, 0, 1], 0, 0), ([0, 0, -1, 0], 0, 0),
         ([3, 4, 0, 0], 1, 2), ([3, 0, -4, 0], 1, 2), ([0, 3, 0, 4], 1, 2), ([4, 0, 0, 3], 1, 2), ([0, 0, 3, -4], 1, 2),
         ([1, 2, 2, 4], 1, 2), ([2, -1, 4, 2], 1, 2), ([-2, 4, 1, 2], 1, 2)]
INERTIAS = [[2, 3, 4], [4, 3, 2], [2, 2, 3], [3, 2, 2], [3, 4, 2], [1, 1, 1]]     # mostly distinct moments: unit / equal values hide missing factors


def frac(x):
    return x["n"] / (5.0 ** x["e"])


def conv(x):
    """spec value (nested sequences of [n,e] records) -> floats"""
    if isinstance(x, dict) and set(x) == {"n", "e"}:
        return frac(x)
    if isinstance(x, dict):
        return {k: conv(v) for k, v in x.items()}
    if isinstance(x, list):
        return [conv(v) for v in x]
    return x


def flat(x):
    if isinstance(x, (list, tuple)):
        for v in x:
            yield from flat(v)
    elif isinstance(x, dict):
        for k in sorted(x):
            yield from flat(x[k])
    else:
        yield float(x)


def maxdiff(a, b):
    fa, fb = list(flat(a)), list(flat(b))
    if len(fa) != len(fb):
        return float("inf"), 1.0
    sc = max([1.0] + [abs(v) for v in fa])
    return (max([0.0] + [abs(x - y) for x, y in zip(fa, fb)]), sc)


def lattice_columns(f):
    """the three columns of the lattice frame rotation f = {ax, k, m} (|m| <= 1) as rational axes {n, e}"""
    if f["ax"] == "i":
        M = [[1, 0, 0], [0, 1, 0], [0, 0, 1]]
        e = 0
    else:
        k, m = f["k"] % 4, f["m"]
        c, s_ = [(5, 0), (0, 5), (-5, 0), (0, -5)][k]         # 5 cos, 5 sin of k*90
        if m:                                                 # times (3 + 4i)/5 or (3 - 4i)/5
            c, s_ = (3 * c - 4 * m * s_) // 5, (4 * m * c + 3 * s_) // 5
        e = 1
        if f["ax"] == "x":
            M = [[5, 0, 0], [0, c, -s_], [0, s_, c]]
        elif f["ax"] == "y":
            M = [[c, 0, s_], [0, 5, 0], [-s_, 0, c]]
        else:
            M = [[c, -s_, 0], [s_, c, 0], [0, 0, 5]]
    return [{"n": [M[0][j], M[1][j], M[2][j]], "e": e} for j in range(3)]


class Gen:
    def __init__(self, seed):
        self.r = random.Random(seed)

    def angle(self, budget, middle=False):
        """(coordinate, cost)"""
        m = self.r.choice([0, 0, 1, -1]) if budget >= 1 else 0
        k = self.r.randrange(4)
        if middle and m == 0:
            k = self.r.choice([0, 2])        # keep Euler middle angles off +-90 degrees
        return {"k": k, "m": m}, abs(m)

    def frame(self, cls, budget):
        """cls: 'i' identity, 't' translation only, 'g' general -> (R, p, cost)"""
        vec = lambda: [self.r.randint(-2, 2) for _ in range(3)]
        if cls == "i":
            return {"ax": "i", "k": 0, "m": 0}, [0, 0, 0], 0
        if cls == "t":
            return {"ax": "i", "k": 0, "m": 0}, vec(), 0
        if cls == "r":      # a pure rotation: origin exactly at the body / parent origin
            a, c = self.angle(budget)
            if a["k"] % 4 == 0 and a["m"] == 0:
                a["k"] = 1
            return {"ax": self.r.choice("xyz"), "k": a["k"], "m": a["m"]}, [0, 0, 0], c
        a, c = self.angle(budget)
        return {"ax": self.r.choice("xyz"), "k": a["k"], "m": a["m"]}, vec(), c

    def body(self, parent, typ, rev, fcls, mcls, budget, budget2=2):
        RF, pF, c1 = self.frame(fcls, budget)
        RM, pM, c2 = self.frame(mcls, budget - c1)
        budget -= c1 + c2
        q = []
        for idx, kd in enumerate(KINDS[typ]):
            if kd == "a":
                a, c = self.angle(budget, middle=(idx == 1 and typ in ("universal", "gimbal", "bushing", "balle", "freee", "euler5", "ellipsoide", "lineorie", "freelinee")))
                budget -= c
                q.append(a)
            elif kd == "l":
                q.append({"k": self.r.randint(-2, 2), "m": 0})
        if "c" in KINDS[typ]:
            choices = [x for x in QUATS if x[2] <= budget]
            comp, e, c = self.r.choice(choices)
            budget -= c
            q = [{"k": v, "m": e} for v in comp] + q
        u = [self.r.randint(-2, 2) for _ in range(NU[typ])]
        # a second, independent coordinate / speed set: the target of the fitting operations
        # (the second set is also a second configuration of the whole model: it shares the path budget of powers of 5)
        q2, b2 = [], budget2
        for idx, kd in enumerate(KINDS[typ]):
            if kd == "a":
                a, c = self.angle(b2, middle=(idx == 1 and typ in ("universal", "gimbal", "bushing", "balle", "freee", "euler5", "ellipsoide", "lineorie", "freelinee")))
                b2 -= c
                q2.append(a)
            elif kd == "l":
                # BendStretch is polar coordinates: its fitting uses the canonical form r >= 0
                q2.append({"k": self.r.randint(0 if typ == "bendstretch" else -2, 2), "m": 0})
        if "c" in KINDS[typ]:
            comp, e, c = self.r.choice([x for x in QUATS if x[2] <= b2])
            b2 -= c
            q2 = [{"k": v, "m": e} for v in comp] + q2
        self.left2 = b2
        self.last_fit = (q2, [self.r.randint(-2, 2) for _ in range(NU[typ])])
        # construction options (used by SphericalCoords and Ellipsoid only)
        opt = {"azOff": {"k": self.r.randrange(4), "m": 0}, "azNeg": self.r.randint(0, 1), "zeOff": {"k": self.r.randrange(4), "m": 0}, "zeNeg": self.r.randint(0, 1),
               "axis": self.r.choice("xz"), "rNeg": self.r.randint(0, 1), "radii": [self.r.randint(1, 3) for _ in range(3)]}
        if typ == "spherical":      # a non-zero radius keeps the coordinates regular
            for qq in (q, q2):
                if qq[2]["k"] == 0:
                    qq[2]["k"] = self.r.choice([-2, -1, 1, 2])
        d = {"parent": parent, "type": typ, "rev": int(rev), "RF": RF, "pF": pF, "RM": RM, "pM": pM, "opt": opt,
             "mass": self.r.choice([2, 3, 2, 3, 5, 1]), "com": [self.r.randint(-1, 2) for _ in range(3)] if self.r.random() < 0.8 else [0, 0, 0],
             "ic": self.r.choice(INERTIAS)}
        return d, q, u, budget

    def config(self, spec, dyn, budget, branched=False):
        """spec: list of (parent, type, rev, fcls, mcls); budget: powers of 5 allowed on every root path"""
        desc, qs, us, left, q2s, u2s = [], [], [], {0: budget}, [], []
        left2 = {0: 2}
        # representation: with probability 1/4 the whole model uses the Euler-angle option (Ball / Free then have angle coordinates)
        euler = int(self.r.random() < 0.25 and any(t[1] in ("ball", "free", "ellipsoid", "lineori", "freeline") for t in spec))
        if euler:
            spec = [(p, {"ball": "balle", "free": "freee", "ellipsoid": "ellipsoide", "lineori": "lineorie", "freeline": "freelinee"}.get(t, t), rv, f, m) for (p, t, rv, f, m) in spec]
        for i, (parent, typ, rev, fcls, mcls) in enumerate(spec, 1):
            d, q, u, b = self.body(parent, typ, rev, fcls, mcls, left[parent], min(left[parent], left2[parent]))
            left[i] = b
            left2[i] = min(self.left2, b)
            if typ == "euler5":
                d["fb"] = 1
            d["fb"] = int(typ == "euler5" or (typ in FB_TYPES and self.r.random() < 0.25))       # the user-defined (FunctionBased) route to the same mobilizer
            desc.append(d); qs.append(q); us.append(u); q2s.append(self.last_fit[0]); u2s.append(self.last_fit[1])
        for i, d in enumerate(desc, 1):      # massless INTERMEDIATE bodies (compound joints): only bodies that carry a massive child
            kids = [c for c in desc if c["parent"] == i]
            if kids and all(k["mass"] > 0 for k in kids) and self.r.random() < 0.2:
                d["mass"], d["com"], d["ic"] = 0, [0, 0, 0], [0, 0, 0]
        if all(v == 0 for uu in us for v in uu) and any(us):
            for uu in us:
                if uu:
                    uu[0] = 1
                    break
        ud = [[self.r.choice([-2, -1, 1, 2, 2, 0]) for _ in uu] for uu in us]
        F = [{"t": [self.r.randint(-2, 2) for _ in range(3)], "f": [self.r.randint(-2, 2) for _ in range(3)]} if self.r.random() < 0.7
             else {"t": [0, 0, 0], "f": [0, 0, 0]} for _ in desc]
        # task frames: bodies drawn with repeats (and sometimes Ground), integer stations and task forces
        nb = len(desc)
        tb = [self.r.randint(0 if self.r.random() < 0.15 else 1, nb) for _ in range(self.r.randint(2, 4))]
        tb.append(self.r.choice(tb))        # at least one body twice
        self.r.shuffle(tb)
        vec = lambda: [self.r.randint(-2, 2) for _ in range(3)]
        tasks = [{"b": b, "st": vec(), "f": vec(), "T": vec()} for b in tb]
        # constraints whose errors are polynomial in the kinematics; bodies may be Ground (0); some are switched off
        UAX = [([1, 0, 0], 0), ([0, 1, 0], 0), ([0, 0, 1], 0), ([3, 4, 0], 1), ([0, -3, 4], 1)]
        cons = []
        if branched or self.r.random() < 0.6:
            mobile = [i for i, d in enumerate(desc, 1) if NU[d["type"]] > 0]
            def root(b):
                while b and desc[b - 1]["parent"]:
                    b = desc[b - 1]["parent"]
                return b
            for _ in range(self.r.randint(1, 2 if branched else 3)):
                t = self.r.choice(["pip", "pip", "cang", "cspeed", "rod", "rod", "cori", "ball", "ball", "ccoord", "cacc", "weld", "noslip"])
                if branched:
                    t = self.r.choice(["ball", "ball", "pip", "rod", "cang", "weld"])
                b1, b2 = self.r.randint(0, nb), self.r.randint(1, nb)
                if branched:       # two bodies on different branches: neither is the other's ancestor
                    pairs = [(a, b) for a in range(1, nb + 1) for b in range(1, nb + 1) if root(a) != root(b)]
                    if pairs:
                        b1, b2 = self.r.choice(pairs)
                if t in ("ccoord", "cacc"):
                    TR = {"slider": [1], "cylinder": [2], "planar": [2, 3], "translation": [1, 2, 3], "bushing": [4, 5, 6], "bendstretch": [2], "euler5": [4, 5], "freee": [4, 5, 6]}
                    cand = [i for i, d in enumerate(desc, 1) if d["type"] in TR] if t == "ccoord" else mobile
                    if not cand:
                        continue
                    b = self.r.choice(cand)
                    kk = self.r.choice(TR[desc[b - 1]["type"]]) if t == "ccoord" else self.r.randint(1, NU[desc[b - 1]["type"]])
                    cons.append({"type": t, "b1": b, "k": kk, "s": self.r.randint(-2, 2), "on": int(branched or self.r.random() < 0.8)})
                    continue
                if t != "cspeed" and b1 == b2:
                    continue
                on = int(branched or self.r.random() < 0.8)
                if t == "pip":
                    ax, e = self.r.choice(UAX)
                    cons.append({"type": "pip", "b1": b1, "b2": b2, "n": {"n": ax, "e": e}, "h": self.r.randint(-2, 2), "st": vec(), "on": on})
                elif t == "rod":
                    cons.append({"type": "rod", "b1": b1, "b2": b2, "st": vec(), "st2": vec(), "d": self.r.randint(1, 3), "on": on})
                elif t == "ball":
                    # Ball(b1 station, b2 station): three equations expressed in the Ancestor frame (outmost common ancestor of b1, b2)
                    def chain(b):
                        out = [b]
                        while b:
                            b = desc[b - 1]["parent"]
                            out.append(b)
                        return out
                    c1, c2 = chain(b1), chain(b2)
                    anc = next(x for x in c1 if x in c2)
                    grp, st1, st2 = len(cons), vec(), vec()
                    for part in range(3):
                        cons.append({"type": "ballc", "b1": b1, "b2": b2, "st": st1, "st2": st2, "anc": anc, "on": on, "grp": grp, "part": part, "comp": part})
                elif t == "noslip":
                    b3 = self.r.randint(0, nb)
                    if len({b1, b2, b3}) < 2 or b2 == b3:
                        continue
                    def chainn(b):
                        out = [b]
                        while b:
                            b = desc[b - 1]["parent"]
                            out.append(b)
                        return out
                    cs = [chainn(x) for x in (b1, b2, b3)]
                    anc = next(x for x in cs[0] if x in cs[1] and x in cs[2])
                    ax, e = self.r.choice(UAX)
                    cons.append({"type": "noslip", "b1": b1, "b2": b2, "b3": b3, "st": vec(), "n": {"n": ax, "e": e}, "anc": anc, "on": on})
                elif t == "weld":
                    # Weld(b1 frame (RB, pB), b2 frame (RF, pF)) = the three ConstantOrientation equations followed by the three Ball
                    # equations at the frame origins: six spec entries, one library constraint
                    def chainw(b):
                        out = [b]
                        while b:
                            b = desc[b - 1]["parent"]
                            out.append(b)
                        return out
                    c1, c2 = chainw(b1), chainw(b2)
                    anc = next(x for x in c1 if x in c2)
                    (fb_, pB, _), (ff_, pF, _) = self.frame("g", 1), self.frame("g", 1)
                    cb, cf = lattice_columns(fb_), lattice_columns(ff_)
                    grp = len(cons)
                    for part, (fi, bi) in enumerate(((0, 1), (1, 2), (2, 0))):
                        cons.append({"type": "cang", "b1": b1, "b2": b2, "a1": cb[bi], "a2": cf[fi], "cosn": 0, "cose": 0, "on": on,
                                     "grp": grp, "part": part, "weld": 1, "RB": fb_, "RF": ff_, "pB": pB, "pF": pF})
                    for comp in range(3):
                        cons.append({"type": "ballc", "b1": b1, "b2": b2, "st": pB, "st2": pF, "anc": anc, "on": on, "grp": grp, "part": 3 + comp, "comp": comp, "weld": 1})
                elif t == "cori":
                    # ConstantOrientation(base b1 with frame RB, follower b2 with frame RF): three "constant angle 90 degrees" equations
                    #   RFx . RBy = 0, RFy . RBz = 0, RFz . RBx = 0 -- in the spec three cang entries sharing one library constraint
                    fb_, ff_ = self.frame("g", 1)[0], self.frame("g", 1)[0]
                    cb, cf = lattice_columns(fb_), lattice_columns(ff_)
                    grp = len(cons)
                    for part, (fi, bi) in enumerate(((0, 1), (1, 2), (2, 0))):
                        cons.append({"type": "cang", "b1": b1, "b2": b2, "a1": cb[bi], "a2": cf[fi], "cosn": 0, "cose": 0, "on": on,
                                     "grp": grp, "part": part, "RB": fb_, "RF": ff_})
                elif t == "cang":
                    (a1, e1), (a2, e2) = self.r.choice(UAX[:3]), self.r.choice(UAX)
                    cosn, cose = self.r.choice([(0, 0), (0, 0), (3, 1), (-4, 1)])
                    cons.append({"type": "cang", "b1": b1, "b2": b2, "a1": {"n": a1, "e": e1}, "a2": {"n": a2, "e": e2}, "cosn": cosn, "cose": cose, "on": on})
                elif mobile:
                    b = self.r.choice(mobile)
                    cons.append({"type": "cspeed", "b1": b, "k": self.r.randint(1, NU[desc[b - 1]["type"]]), "s": self.r.randint(-2, 2), "on": on})
        # parameters that live in the State (Ball / Rod stations, rod length, prescribed speed / coordinate / acceleration, no-slip
        # point and direction): half of the time the constraint is BUILT with other defaults and given its parameters at run time
        r3 = random.Random("rt" + json.dumps(cons))
        grt = {}
        for cc in cons:
            if cc.get("weld") or cc["type"] not in ("ballc", "rod", "cspeed", "ccoord", "cacc", "noslip"):
                continue
            key = cc.get("grp", id(cc))
            if key not in grt:
                grt[key] = int(r3.random() < 0.5)
            cc["rt"] = grt[key]
        # force elements with exact laws; the second list is the same elements with changed parameters / enable flags
        TRANSL = {"slider": [1], "cylinder": [2], "planar": [2, 3], "translation": [1, 2, 3], "bushing": [4, 5, 6], "bendstretch": [2], "euler5": [4, 5], "freee": [4, 5, 6]}
        fel = []
        lb = [i for i, d in enumerate(desc, 1) if d["type"] == "bushing" and not d["rev"] and not d.get("fb")]
        if lb:        # a LinearBushing wherever it has an exact law (own random stream: the other draws are as before)
            r2 = random.Random("lbush" + json.dumps(desc))
            if r2.random() < 0.7:
                fel.append({"type": "lbush", "on": int(r2.random() < 0.9), "b": r2.choice(lb),
                            "k6": [r2.randint(0, 4) for _ in range(6)], "c6": [r2.randint(0, 3) for _ in range(6)]})
        if self.r.random() < 0.6:
            GV = [[0, -3, 0], [0, 0, -2], [2, -1, 1], [-1, 0, 3]]
            mobile = [i for i, d in enumerate(desc, 1) if NU[d["type"]] > 0]
            for _ in range(self.r.randint(1, 4)):
                t = self.r.choice(["gravity", "gravity", "ugravity", "cforce", "ctorque", "mcf", "mls", "mld", "gdamper", "tpls", "tpls", "tpld", "tpcf", "cable", "cable", "lbush", "lbush"])
                e = {"type": t, "on": int(self.r.random() < 0.85)}
                if t in ("gravity", "ugravity"):
                    e["g"] = self.r.choice(GV); e["ex"] = [int(self.r.random() < 0.2) for _ in desc]
                elif t in ("cforce", "ctorque"):
                    e["b"] = self.r.randint(1, nb); e["st"] = vec(); e["f"] = vec()
                elif t == "gdamper":
                    e["c"] = self.r.randint(1, 3)
                elif t == "lbush":      # a LinearBushing across a forward, built-in Bushing mobilizer (same frames, same coordinates)
                    cand = [i for i, d in enumerate(desc, 1) if d["type"] == "bushing" and not d["rev"] and not d.get("fb")]
                    if not cand or any(x["type"] == "lbush" for x in fel):
                        continue
                    e["b"] = self.r.choice(cand)
                    e["k6"] = [self.r.randint(0, 4) for _ in range(6)]; e["c6"] = [self.r.randint(0, 3) for _ in range(6)]
                elif t == "cable":      # a cable spring through 2-5 points on bodies (Ground allowed); some via points disabled
                    if any(x["type"] == "cable" for x in fel):
                        continue
                    np_ = self.r.randint(2, 5)
                    e["pts"] = [{"b": self.r.randint(0, nb), "st": vec(), "on": 1 if i in (0, np_ - 1) else int(self.r.random() < 0.6)} for i in range(np_)]
                    e["c"] = self.r.randint(1, 4); e["x0"] = self.r.randint(0, 2); e["diss"] = self.r.choice([0, 0, 1])
                elif t in ("tpls", "tpld", "tpcf"):      # interaction elements; either end may be Ground, or both ends the same body
                    e["b"], e["b2"] = self.r.randint(0, nb), self.r.randint(0, nb)
                    e["st"], e["st2"] = vec(), vec()
                    e["c"] = self.r.randint(1, 4) if t != "tpcf" else self.r.choice([-3, -1, 2, 4])
                    e["x0"] = self.r.randint(0, 2)
                else:
                    if not mobile:
                        continue
                    b = self.r.choice(mobile); ty = desc[b - 1]["type"]
                    if t == "mls":
                        cand = [i for i, d in enumerate(desc, 1) if d["type"] in TRANSL]
                        if not cand:
                            continue
                        b = self.r.choice(cand); e["k"] = self.r.choice(TRANSL[desc[b - 1]["type"]]); e["q0"] = self.r.randint(-2, 2)
                    else:
                        e["k"] = self.r.randint(1, NU[ty])
                    e["b"] = b; e["c"] = self.r.randint(1, 4) if t != "mcf" else self.r.choice([-3, -1, 2, 4])
                fel.append(e)
        fel2 = []
        for e in fel:
            e2 = json.loads(json.dumps(e))
            if self.r.random() < 0.3:
                e2["on"] = 1 - e2["on"]
            if e["type"] == "gravity" and self.r.random() < 0.7:
                if self.r.random() < 0.5:      # same magnitude, different direction (a flip or a permutation of the components)
                    g = list(e["g"])
                    e2["g"] = [-x for x in g] if self.r.random() < 0.5 else [g[1], g[2], g[0]]
                else:
                    e2["g"] = vec()
                if self.r.random() < 0.5:
                    e2["ex"] = [int(self.r.random() < 0.3) for _ in desc]
            if e["type"] in ("mcf", "mls", "mld") and self.r.random() < 0.6:
                e2["c"] = self.r.randint(1, 5)
                if e["type"] == "mls":
                    e2["q0"] = self.r.randint(-2, 2)
            if e["type"] == "lbush":
                r2 = random.Random("lbush2" + json.dumps(desc))
                if r2.random() < 0.5:
                    e2["k6"] = [r2.randint(0, 4) for _ in range(6)]
                if r2.random() < 0.5:
                    e2["c6"] = [r2.randint(0, 3) for _ in range(6)]
            fel2.append(e2)
        return {"desc": desc, "q": qs, "u": us, "dyn": int(dyn), "ud": ud, "F": F, "cons": cons, "felems": fel, "felems2": fel2, "q2": q2s, "u2": u2s, "tasks": tasks, "euler": euler,
                "locked": [int(self.r.random() < 0.3) for _ in desc]}


def generate(tier, seed):
    g = Gen(seed)
    r = g.r
    cfgs = []
    # systematic family: every type x direction x frame specialisation, alone, below a pin, above a pin
    classes = (("i", "i"), ("t", "t"), ("g", "g"), ("g", "i"), ("i", "g"), ("i", "r"), ("t", "r"), ("r", "i"), ("r", "t"))
    for typ in TYPES:
        for rev in (0, 1):
            if typ == "weld" and rev:
                continue
            for fcls, mcls in classes:             # alone: every frame specialisation, kinematics once and dynamics twice
                for dyn in (0, 1, 1):
                    cfgs.append(g.config([(0, typ, rev, fcls, mcls)], dyn, 1 if dyn else 2))
            for fcls, mcls in r.sample(classes, 2 if tier == "quick" else 9):     # below and above a pin
                for dyn in (0, 1):
                    b = 1 if dyn else 2
                    cfgs.append(g.config([(0, "pin", 0, "g", "t"), (1, typ, rev, fcls, mcls)], dyn, b))
                    cfgs.append(g.config([(0, typ, rev, fcls, mcls), (1, "pin", r.randrange(2), "t", "g")], dyn, b))
    # branched trees with constraints between the branches, dynamics on (the constrained bodies move relative to their ancestor)
    for _ in range(60 if tier == "quick" else 1500):
        n = r.choice([2, 3, 3, 4])
        spec = [(0, r.choice(["pin", "slider", "universal", "cylinder", "planar", "ball", "gimbal"]), r.random() < 0.3, r.choice("itg"), r.choice("itg")) for _ in range(2)]
        for i in range(3, n + 1):
            spec.append((r.randint(1, i - 1), r.choice(["pin", "slider", "weld", "universal"]), r.random() < 0.3, r.choice("itg"), r.choice("itg")))
        cfgs.append(g.config(spec, 1, 1, branched=True))
    # lone particles (a childless forward Translation on Ground with identity frames has its own node type) at every place in
    # the numbering, next to mobilizers whose q and u counts differ, so that q and u offsets of the particle differ
    for _ in range(24 if tier == "quick" else 300):
        others = [(0, r.choice(["ball", "free", "lineori", "freeline", "ball", "free", "pin", "bushing"]), r.random() < 0.3, r.choice("itg"), r.choice("itg")) for _ in range(r.choice([1, 2, 2]))]
        if r.random() < 0.4:
            others.append((1, r.choice(["pin", "slider", "universal"]), False, r.choice("itg"), r.choice("itg")))
        at = r.randint(0, len(others))
        spec = []
        for i, o in enumerate(others[:at]):
            spec.append(o)
        spec.append((0, "translation", False, "i", "i"))
        for o in others[at:]:
            spec.append((o[0] + 1 if o[0] >= 1 and False else o[0], o[1], o[2], o[3], o[4]))
        # parents refer to positions in `others`; a child of others[0] must follow it and keep pointing at it after the insertion
        fixed = []
        for i, t in enumerate(spec):
            if t[1] != "translation" and t[0] == 1:
                p0 = spec.index(others[0]) + 1
                if p0 > i:
                    t = (0,) + t[1:]
                else:
                    t = (p0,) + t[1:]
            fixed.append(t)
        if sum(NU[t[1]] for t in fixed) > 12:
            continue
        dyn = r.random() < 0.5
        cfgs.append(g.config(fixed, dyn, 1 if dyn else 2))
    # random trees
    nrand = 150 if tier == "quick" else 2500
    for _ in range(nrand):
        n = r.choice([2, 3, 3, 4] if tier == "quick" else [2, 3, 3, 4, 4, 5])
        spec = []
        for i in range(1, n + 1):
            parent = i - 1 if r.random() < 0.6 else r.randrange(i)
            typ = r.choice(TYPES)
            spec.append((parent, typ, r.random() < 0.35 and typ != "weld", r.choice("itgr"), r.choice("itgr")))
        if sum(NU[t[1]] for t in spec) > 12:
            continue
        dyn = r.random() < 0.4
        cfgs.append(g.config(spec, dyn, 1 if dyn else r.choice([1, 2, 2, 3])))
    return cfgs


def evaluate_chunk(cfgs, lo, hi, work, tag):
    """TLC evaluation of cfgs[lo:hi]; returns (outs {index: result}, skipped [indices], bad, distinct, states)"""
    outs, skipped, start, distinct, states = {}, [], lo, 0, 0
    while start < hi:
        pfile = os.path.join(work, "cfgs-%s.ndjson" % tag)
        with open(pfile, "w") as f:
            for c in cfgs[start:hi]:
                f.write(json.dumps(c) + "\n")
        r = vlib.run_tlc(SPEC, "LatticeEval.tla", "LatticeEval.cfg", "lattice-" + tag, workers=1, timeout=3000, xmx="4g", env={"TRACE": pfile})
        got = [json.loads(s) for s in vlib.tla_strings(r.out, "OUT ")]
        for o in got:
            outs[start + o["i"] - 1] = o["r"]
        distinct += r.distinct
        states += r.states
        if r.violated:
            return outs, skipped, (start + len(got) - 1, r.violated), distinct, states
        if len(got) == hi - start:
            break
        if "verflow" in r.out or "out of range" in r.out.lower():
            skipped.append(start + len(got))
            start = start + len(got) + 1
            continue
        raise vlib.Infra("LatticeEval failed: %s\n%s" % (r.error, r.out[-2000:]))
    return outs, skipped, None, distinct, states


def evaluate(cfgs, work, cov, tag="x"):
    """TLC evaluation of the spec for every configuration (several TLC processes side by side); configurations whose
    exact arithmetic leaves TLC's 32-bit integers are skipped (counted)."""
    from concurrent.futures import ThreadPoolExecutor
    k = max(1, min(8, len(cfgs) // 40))
    bounds = [(len(cfgs) * i // k, len(cfgs) * (i + 1) // k) for i in range(k)]
    with ThreadPoolExecutor(max_workers=k) as ex:
        parts = list(ex.map(lambda ib: evaluate_chunk(cfgs, ib[1][0], ib[1][1], work, "%s-%d" % (tag, ib[0])), enumerate(bounds)))
    outs, skipped, bad = {}, [], None
    for o, sk, b, d, st in parts:
        outs.update(o)
        skipped += sk
        bad = bad or b
        cov["states"] += d
        cov["transitions"] += st
    return outs, skipped, bad


def solve(M, b):
    """Gaussian elimination (floats) for the few-by-few systems here"""
    n = len(b)
    A = [list(map(float, M[i])) + [float(b[i])] for i in range(n)]
    for i in range(n):
        p = max(range(i, n), key=lambda k: abs(A[k][i]))
        A[i], A[p] = A[p], A[i]
        for k in range(i + 1, n):
            f = A[k][i] / A[i][i]
            for j in range(i, n + 1):
                A[k][j] -= f * A[i][j]
    x = [0.0] * n
    for i in reversed(range(n)):
        x[i] = (A[i][n] - sum(A[i][j] * x[j] for j in range(i + 1, n))) / A[i][i]
    return x


def full_row_rank(G):
    A = [list(map(float, r)) for r in G]
    rank, rows, cols = 0, len(A), len(A[0]) if A else 0
    for c in range(cols):
        p = max(range(rank, rows), key=lambda r: abs(A[r][c]), default=None)
        if p is None or abs(A[p][c]) < 1e-9:
            continue
        A[rank], A[p] = A[p], A[rank]
        for r in range(rank + 1, rows):
            f = A[r][c] / A[rank][c]
            for k in range(c, cols):
                A[r][k] -= f * A[rank][k]
        rank += 1
        if rank == rows:
            break
    return rank == rows


def is_spd(M, rel=0.0):
    n = len(M)
    scale = max([1.0] + [abs(M[i][i]) for i in range(n)])
    L = [[0.0] * n for _ in range(n)]
    for i in range(n):
        for j in range(i + 1):
            s = M[i][j] - sum(L[i][k] * L[j][k] for k in range(j))
            if i == j:
                if s <= rel * scale:
                    return False
                L[i][j] = math.sqrt(s)
            else:
                L[i][j] = s / L[j][j]
    return True


TOL = 1e-9


def compare(cfg, want, got):
    """-> list of (property, what, detail)"""
    res = []
    if got.get("exc"):
        return [(p, "exception", got["exc"]) for p in ("C05", "C03", "C04", "C01", "C15", "C02", "C14", "C10", "C06", "C07", "C08", "C38", "C12", "C13")]
    w = conv(want)

    def chk(prop, what, a, b):
        d, sc = maxdiff(a, b)
        if not d <= TOL * sc:
            res.append((prop, what, "expected %s, observed %s (max difference %.3g)" % (json.dumps(a)[:300], json.dumps(b)[:300], d)))
            return False
        return True

    def small(prop, what, v, sc=1.0):
        if not abs(v) <= 1e-8 * sc:
            res.append((prop, what, "residual %.3g" % v))

    poses_ok = chk("C05", "pose", w["X"], got["X"])
    for b, (fw, fg) in enumerate(zip(w["fit"], got["fit"])):
        typ = cfg["desc"][b]["type"] + ("-rev" if cfg["desc"][b]["rev"] else "")
        ell = cfg["desc"][b]["type"].startswith("ellipsoid")
        # Ellipsoid: the translation fit only aims the M origin roughly in the requested direction (its own comment: "we can at
        # least obtain a translation in the *direction*") and overrides the fitted rotation; the linear-velocity fit is marked
        # "ONLY RIGHT FOR A SPHERE" in the code.  Their own call sites, so that other failures are still reported.
        chk("C05", "setQToFitTranslation/ellipsoid-direction-only" if ell else "setQToFitTransform/" + typ, [fw["R"], fw["p"]], [fg["R1"], fg["p1"]])
        chk("C05", "setQToFitTranslation/ellipsoid-direction-only" if ell else "setQToFitRotation-then-Translation/" + typ, [fw["R"], fw["p"]], [fg["R2"], fg["p2"]])
        chk("C05", "setUToFitLinearVelocity/ellipsoid-sphere-only" if ell else "setUToFitVelocity/" + typ, [fw["w"], fw["v"]], [fg["w1"], fg["v1"]])
        # RigidBodyNode::setUToFitLinearVelocity on a REVERSED mobilizer assumes zero angular velocity (a TODO in the
        # code): its own call site, so that any other failure of the sequence is still reported
        rev_lin = cfg["desc"][b]["rev"] and any(abs(x) > 0 for x in fw["w"]) and "l" in KINDS[cfg["desc"][b]["type"]]
        chk("C05", "setUToFitLinearVelocity/ellipsoid-sphere-only" if ell else "setUToFitLinearVelocity/reversed-with-angular-velocity" if rev_lin else "setUToFitAngular-then-LinearVelocity/" + typ,
            [fw["w"], fw["v"]], [fg["w2"], fg["v2"]])
    vel_ok = chk("C03", "velocity", w["V"], got["V"])
    # representation independence: FunctionBased route / Euler option are already inside X, V above; the converted state:
    chk("C06", "pose-after-representation-conversion", w["X"], got["Xconv"])
    chk("C06", "velocity-after-representation-conversion", w["V"], got["Vconv"])
    special = [d["type"] + ("-fb" if d.get("fb") else "") + ("-rev" if d["rev"] else "") for d in cfg["desc"] if d.get("fb") or d["rev"] or d["type"] in ("balle", "freee", "ellipsoide", "lineorie", "freelinee")]
    if special:     # the same comparisons, attributed to C06 when a non-default representation / route / direction is involved
        chk("C06", "pose/" + "+".join(sorted(set(special))), w["X"], got["X"])
        chk("C06", "velocity/" + "+".join(sorted(set(special))), w["V"], got["V"])
        chk("C06", "mass-matrix/" + "+".join(sorted(set(special))), w["M"], got["M"])
        if cfg["dyn"]:
            chk("C06", "bias/" + "+".join(sorted(set(special))), w["bias"], got["bias"])
    if poses_ok and not vel_ok:
        res.append(("C05", "speed-meaning", res[-1][2]))
    vsc = max([1.0] + [abs(v) for v in flat(w["V"])])
    nu = len(w["M"])
    msc = max([1.0] + [abs(v) for v in flat(w["M"])])
    chk("C01", "mass-matrix", w["M"], got["M"])
    small("C01", "multiplyByM", got["errMu"], msc * 10)
    small("C01", "multiplyByMInv", got["errMinv"], 10)
    small("C01", "calcMInv", got["errMinvM"], 10)
    chk("C01", "kinetic-energy-is-uMu", w["uMu"], got["ke2"])
    if nu and not is_spd(got["M"]):
        res.append(("C01", "not-positive-definite", json.dumps(got["M"])[:300]))
    if nu and max(abs(got["M"][i][j] - got["M"][j][i]) for i in range(nu) for j in range(nu)) > 1e-10 * msc:
        res.append(("C01", "not-symmetric", json.dumps(got["M"])[:300]))
    small("C04", "system-jacobian", got["errJ"], vsc)
    small("C04", "jacobian-transpose-adjoint", got["errJT"], vsc * 100)
    small("C04", "station-jacobian", got["errStation"], vsc * 10)
    chk("C04", "frame-jacobian-times-u", [[t["w"], t["v"]] for t in w["taskV"]], [[t["w"], t["v"]] for t in got["taskV"]])
    chk("C04", "station-jacobian-times-u", [t["v"] for t in w["taskV"]], [t["vs"] for t in got["taskV"]])
    chk("C04", "station-jacobian-transpose", w["JStF"], got["JStF"])
    chk("C04", "frame-jacobian-transpose", w["JFtF"], got["JFtF"])
    small("C04", "explicit-task-jacobians-agree-with-operators", got["errTaskExplicit"], vsc * 100)
    if cfg["dyn"]:
        chk("C04", "frame-jacobian-bias", [[t["aw"], t["a"]] for t in w["taskA0"]], [[t["aw"], t["a"]] for t in got["taskA0"]])
        chk("C04", "station-jacobian-bias", [t["a"] for t in w["taskA0"]], [t["as"] for t in got["taskA0"]])
    # ---- force elements (C38: documented laws and parameter changes taking effect; C12: power against potential energy)
    if cfg["felems"] and "forces" in got:
        for tag, what in (("forces", "force-law"), ("forces2", "force-law-after-parameter-change"), ("forces3", "force-law-after-a-u-only-change"), ("forces4", "force-law-after-a-q-only-change")):
            kinds = "+".join(sorted(set(e["type"] for e in cfg["felems"])))
            FE = cfg["felems"] if tag == "forces" else cfg["felems2"]
            uu_ = cfg["u2"] if tag in ("forces3", "forces4") else cfg["u"]
            qq_ = cfg["q2"] if tag == "forces4" else cfg["q"]
            # interaction elements: finish the spec's exact ingredients with the square root, add them to the spec's totals
            nb_ = len(cfg["desc"])
            tpgot = {t["k"]: t for t in got[tag]["tp"]}
            for k, e in enumerate(FE):
                if e["type"] == "lbush" and e["on"] and ("done", tag, k) not in w:
                    # law in the bushing's own coordinates (= the mobilizer's): generalized force -(k q + c qdot), PE = sum k q^2 / 2
                    w[("done", tag, k)] = 1
                    g = tpgot.get(k)
                    if g is None:
                        res.append(("C38", "interaction-element-missing", json.dumps(e)))
                        continue
                    b = e["b"]
                    qv = [(x["k"] * math.pi / 2 + x["m"] * math.atan2(4, 3)) if i < 3 else float(x["k"]) for i, x in enumerate(qq_[b - 1])]
                    # the bushing measures its angles from the rotation: they come back in (-pi, pi], middle one in [-pi/2, pi/2]
                    if abs(math.cos(qv[1])) > 1e-9 and math.cos(qv[1]) > 0:
                        qv = [math.atan2(math.sin(a), math.cos(a)) for a in qv[:3]] + qv[3:]
                        uv = [float(x) for x in uu_[b - 1]]
                        off = sum(NU[d["type"]] for d in cfg["desc"][:b - 1])
                        expg = [0.0] * nu
                        for i in range(6):
                            expg[off + i] = -(e["k6"][i] * qv[i] + e["c6"][i] * uv[i])
                        pe = 0.5 * sum(e["k6"][i] * qv[i] ** 2 for i in range(6))
                        chk("C38", what + "/linear-bushing-law", expg, g["gen"])
                        chk("C38", what + "/linear-bushing-potential-energy", pe, g["pe"])
                        fs = max([1.0] + [abs(x) for x in expg])
                        small("C13", "total-force-of-an-interaction-is-zero/lbush", max(abs(x) for x in g["ftot"]), fs * 10)
                        small("C13", "total-moment-of-an-interaction-is-zero/lbush", max(abs(x) for x in g["mtot"]), fs * 100)
                        pw = sum(a * b_ for a, b_ in zip(expg[off:off + 6], uv))
                        chk("C12", "power-of-the-linear-bushing", pw, got[tag]["power"][k])
                        if all(cc == 0 for cc in e["c6"]):       # no damping: power is -dPE/dt = -sum k q qdot, nothing dissipated
                            chk("C12", "undamped-bushing-power-is-minus-dPE", -sum(e["k6"][i] * qv[i] * uv[i] for i in range(6)), got[tag]["power"][k])
                        elif pw + sum(e["k6"][i] * qv[i] * uv[i] for i in range(6)) > 1e-9:
                            res.append(("C12", "bushing-dissipation-positive", "dissipation term %g > 0" % (pw + sum(e["k6"][i] * qv[i] * uv[i] for i in range(6)))))
                        # its body forces are part of the totals the spec left out
                        for bb in range(1, nb_ + 1):
                            w[tag]["body"][bb - 1]["t"] = [x + y for x, y in zip(w[tag]["body"][bb - 1]["t"], g["W"][bb]["t"])]
                            w[tag]["body"][bb - 1]["f"] = [x + y for x, y in zip(w[tag]["body"][bb - 1]["f"], g["W"][bb]["f"])]
                        w[tag]["pe2"] += 2 * pe
                        w[tag]["power"][k] = pw
                    else:
                        w[tag]["skip_totals"] = True
                    continue
                if e["type"] not in ("tpls", "tpld", "tpcf", "cable") or not e["on"] or ("done", tag, k) in w:
                    continue
                w[("done", tag, k)] = 1
                cr = lambda a, b: [a[1] * b[2] - a[2] * b[1], a[2] * b[0] - a[0] * b[2], a[0] * b[1] - a[1] * b[0]]
                exp = [[[0.0] * 3, [0.0] * 3] for _ in range(nb_ + 1)]
                if e["type"] == "cable":
                    # active points, segment unit vectors, length and its rate; uniform tension k x (1 + c xdot), never negative
                    act = [(d, pt) for d, pt in zip(e["pts"], w[tag]["cable"][k]) if d["on"]]
                    segs = [[b - a for a, b in zip(p1[1]["p"], p2[1]["p"])] for p1, p2 in zip(act, act[1:])]
                    lens = [math.sqrt(sum(x * x for x in sg)) for sg in segs]
                    if min(lens + [1.0]) < 1e-9:       # coincident points (can happen at the second configuration): direction undefined
                        w[tag]["skip_totals"] = True
                        continue
                    dirs = [[x / l_ for x in sg] for sg, l_ in zip(segs, lens)]
                    L = sum(lens)
                    Ldot = sum(sum(dd * (vb - va) for dd, va, vb in zip(dr, p1[1]["v"], p2[1]["v"])) for dr, p1, p2 in zip(dirs, act, act[1:]))
                    x_ = max(0.0, L - e["x0"])
                    fs = e["c"] * x_
                    T = fs + max(-fs, fs * e["diss"] * Ldot)
                    pwr = 0.0
                    for i, (d, pt) in enumerate(act):
                        F = [0.0, 0.0, 0.0]
                        if i < len(dirs):
                            F = [a + T * b for a, b in zip(F, dirs[i])]
                        if i > 0:
                            F = [a - T * b for a, b in zip(F, dirs[i - 1])]
                        t_ = cr(pt["r"], F)
                        exp[d["b"]][0] = [x + y for x, y in zip(exp[d["b"]][0], t_)]
                        exp[d["b"]][1] = [x + y for x, y in zip(exp[d["b"]][1], F)]
                        pwr += sum(a * b for a, b in zip(F, pt["v"]))
                    F1 = [T, 0.0, 0.0]
                    pe = 0.5 * e["c"] * x_ * x_
                else:
                    tp = w[tag]["twopt"][k]
                    r = math.sqrt(sum(x * x for x in tp["p"]))
                    if r < 1e-9:                        # coincident points (can happen at the second configuration): direction undefined
                        w[tag]["skip_totals"] = True
                        continue
                    d = [x / r for x in tp["p"]]
                    f = e["c"] * (r - e["x0"]) if e["type"] == "tpls" else e["c"] * tp["pv"] / r if e["type"] == "tpld" else -e["c"]
                    F1 = [f * x for x in d]
                    F2 = [-x for x in F1]
                    for b, rr, F in ((e["b"], tp["r1"], F1), (e["b2"], tp["r2"], F2)):
                        t_ = cr(rr, F)
                        exp[b][0] = [x + y for x, y in zip(exp[b][0], t_)]
                        exp[b][1] = [x + y for x, y in zip(exp[b][1], F)]
                    pe = 0.5 * e["c"] * (r - e["x0"]) ** 2 if e["type"] == "tpls" else 0.0
                    pwr = sum(a * b for a, b in zip(F1, tp["v1"])) + sum(a * b for a, b in zip(F2, tp["v2"]))
                g = tpgot.get(k)
                if g is None:
                    res.append(("C38", "interaction-element-missing", json.dumps(e)))
                    continue
                chk("C38", what + "/two-point-law/" + e["type"], exp, [[x["t"], x["f"]] for x in g["W"]])
                chk("C13", "equal-and-opposite/" + e["type"], exp, [[x["t"], x["f"]] for x in g["W"]])
                fs = max([1.0] + [abs(x) for x in F1])
                small("C13", "total-force-of-an-interaction-is-zero/" + e["type"], max(abs(x) for x in g["ftot"]), fs * 10)
                small("C13", "total-moment-of-an-interaction-is-zero/" + e["type"], max(abs(x) for x in g["mtot"]), fs * 100)
                small("C13", "interaction-applies-no-mobility-force/" + e["type"], g["mobnorm"], fs)
                chk("C38", what + "/two-point-potential-energy/" + e["type"], pe, g["pe"])
                # add to the totals the spec left them out of
                for b in range(1, nb_ + 1):
                    w[tag]["body"][b - 1]["t"] = [x + y for x, y in zip(w[tag]["body"][b - 1]["t"], exp[b][0])]
                    w[tag]["body"][b - 1]["f"] = [x + y for x, y in zip(w[tag]["body"][b - 1]["f"], exp[b][1])]
                w[tag]["pe2"] += 2 * pe
                w[tag]["power"][k] = pwr
            if not w[tag].get("skip_totals"):
                chk("C38", what + "/body-forces/" + kinds, [[b["t"], b["f"]] for b in w[tag]["body"]], [[b["t"], b["f"]] for b in got[tag]["body"]])
                chk("C38", what + "/mobility-forces/" + kinds, w[tag]["mob"], got[tag]["mob"])
                chk("C38", what + "/potential-energy/" + kinds, w[tag]["pe2"], got[tag]["pe2"])
                chk("C12", "power-of-each-element/" + kinds, w[tag]["power"], got[tag]["power"])

    # ---- constraints (C07: error hierarchy and one G; C08: constrained forward dynamics)
    on = [k for k, cc in enumerate(cfg["cons"]) if cc["on"]]
    if on and "cons" in got:
        for k in on:      # Rod: finish the spec's exact polynomial ingredients with the square root
            cc = cfg["cons"][k]
            if cc["type"] == "rod" and "pp" not in w["cons"][k]:
                e = w["cons"][k]
                pp, pv = e["perr"], e["verr"]
                r = math.sqrt(pp)
                e["pp"] = pp
                e["perr"], e["verr"] = r - cc["d"], pv / r
                e["aerr0"] = e["aerr0"] / r - pv * pv / r ** 3
                e["aerr"] = e["aerr"] / r - pv * pv / r ** 3
                pv2 = e["verrU2"]
                e["verrU2"], e["aerr0U2"] = pv2 / r, e["aerr0U2"] / r - pv2 * pv2 / r ** 3
                w["G"][k] = [g / r for g in w["G"][k]]
        hol = [k for k in on if cfg["cons"][k]["type"] not in ("cspeed", "cacc", "noslip")]
        non = [k for k in on if cfg["cons"][k]["type"] in ("cspeed", "noslip")]
        acc = [k for k in on if cfg["cons"][k]["type"] == "cacc"]
        order = hol + non + acc                # the library's equation order: holonomic, nonholonomic, acceleration-only
        for k in on:
            g = got["cons"][k]
            t = cfg["cons"][k]["type"]
            if t not in ("cspeed", "cacc", "noslip"):
                chk("C07", "position-error/" + t, w["cons"][k]["perr"], g["perr"])
            if t != "cacc":
                chk("C07", "velocity-error-is-derivative-of-position-error/" + t, w["cons"][k]["verr"], g["verr"])
        Gs = [w["G"][k] for k in order]
        chk("C07", "constraint-matrix-G", Gs, got["G"])
        chk("C07", "acceleration-error-is-derivative-of-velocity-error", [w["cons"][k]["aerr0"] for k in order], got["cbias"])
        chk("C07", "velocity-error-after-a-u-only-change", [0.0 if cfg["cons"][k]["type"] == "cacc" else w["cons"][k]["verrU2"] for k in on], got["verrU2"])
        chk("C07", "acceleration-bias-after-a-u-only-change", [w["cons"][k]["aerr0U2"] for k in order], got["cbiasU2"])
        gsc = max([1.0] + [abs(v) for v in flat(Gs)])
        small("C07", "multiplyByG-agrees-with-G", got["errG"], gsc * 10)
        small("C07", "multiplyByGTranspose-agrees-with-G", got["errGt"], gsc * 10)
        small("C07", "constraint-forces-act-along-G-transpose", got["errCF"], gsc * 10)
        if nu and "udotU2" in got and full_row_rank(Gs):
            # the SAME State after a u-only change: whatever forces act, the accelerations must satisfy the acceleration-level
            # constraint equations at the NEW speeds (spec's exact G and bias)
            ud2 = got["udotU2"]
            res_u = [w["cons"][k]["aerr0U2"] + sum(Gs[r][j] * ud2[j] for j in range(nu)) for r, k in enumerate(order)]
            asc = max([1.0] + [abs(v) for v in flat(Gs)] + [abs(v) for v in ud2] + [abs(w["cons"][k]["aerr0U2"]) for k in order])
            if max([0.0] + [abs(v) for v in res_u]) > 1e-7 * asc * asc:
                res.append(("C08", "accelerations-violate-the-constraints-after-a-u-only-change", "G udot + bias(u2) = %s" % res_u))
        if cfg["dyn"] and nu and not got.get("cdynExc") and "cudot" in got and full_row_rank(Gs):      # C08 speaks about consistent sets
            ud_s, lam = got["cudot"], got["clambda"]
            # acceleration-level constraint equations with the spec's exact G and bias
            res_c = [w["cons"][k]["aerr0"] + sum(Gs[r][j] * ud_s[j] for j in range(nu)) for r, k in enumerate(order)]
            asc = max([1.0] + [abs(v) for v in flat(Gs)] + [abs(v) for v in ud_s])
            if max([0.0] + [abs(v) for v in res_c]) > 1e-7 * asc * asc:
                res.append(("C08", "accelerations-violate-the-constraints", "G udot + bias = %s" % res_c))
            # M udot + G' lambda + f_inertial = f_applied with the spec's exact M, G, bias and the applied J'F + tau
            fsc = max([1.0] + [abs(v) for v in flat(w["tau"])] + [abs(v) for v in lam] + [abs(v) for v in ud_s])
            res_d = [sum(w["M"][j][i] * ud_s[i] for i in range(nu)) + sum(Gs[r][j] * lam[r] for r in range(len(order))) + w["bias"][j] - (w["JtF"][j] + w["tau"][j]) for j in range(nu)]
            if max(abs(v) for v in res_d) > 1e-7 * fsc * max([1.0] + [abs(v) for v in flat(w["M"])]):
                res.append(("C08", "equations-of-motion-with-multipliers", "M udot + G'lambda + bias - f = %s" % res_d))
    chk("C15", "composite-body-inertia", [[b["mass"], b["mcom"], b["I"]] for b in w["comp"]], [[b["mass"], b["mcom"], b["I"]] for b in got["comp"]])
    # the same State object at the second configuration and back at the first (stale kinematics would show here)
    chk("C05", "pose-after-moving-the-state", w["X2"], got["X2"])
    chk("C03", "velocity-after-moving-the-state", w["V2"], got["V2"])
    chk("C05", "pose-after-moving-the-state-back", w["X"], got["X3"])
    chk("C03", "velocity-after-moving-the-state-back", w["V"], got["V3"])
    chk("C05", "pose-through-lazy-kinematics", w["X"], got["X4"])
    chk("C05", "pose-through-lazy-kinematics", w["X2"], got["X5"])
    chk("C03", "velocity-through-lazy-kinematics", w["V2"], got["V5"])
    # FunctionBased mobilizers keep H in a cache that only the full realize(Position) invalidates (its own call site)
    fbq = any(d.get("fb") and d["type"] in ("universal", "gimbal", "bushing", "euler5") for d in cfg["desc"])
    chk("C03", "velocity-through-lazy-kinematics/function-based-mobilizer-stale-H" if fbq else "velocity-through-lazy-kinematics", w["V"], got["V4"])
    small("C04", "system-jacobian-after-moving-the-state", got["errJ2"], max([1.0] + [abs(v) for v in flat(w["V2"])]))
    chk("C15", "kinetic-energy-sum", w["ke2"], got["ke2"])
    chk("C15", "linear-momentum", w["P"], got["P"])
    chk("C15", "momentum-is-mass-times-vcom", w["P"], got["vcom"])
    chk("C15", "angular-momentum", w["L"], got["L"])
    chk("C15", "central-momentum", w["L"], got["Lc"])
    chk("C15", "mass", w["mass"], got["mass"])
    chk("C15", "mass-centre", w["mcom"], got["mcom"])
    chk("C15", "inertia", w["IO"], got["IO"])
    if cfg["dyn"]:
        chk("C04", "jacobian-bias", [[b["aw"], b["a"]] for b in w["A0"]], [[b["aw"], b["a"]] for b in got["A0"]])
        small("C04", "calcBiasForSystemJacobian", got["errJdot"], vsc * vsc * 10)
        chk("C02", "inverse-dynamics-bias", w["bias"], got["bias"])
        if nu:
            ud = solve(w["M"], [-v for v in w["bias"]])
            chk("C02", "forward-dynamics", ud, got["udot"])
        # with applied body forces F and the mobility forces tau of the spec, udot must be the integers ud
        udflat = [float(v) for uu in cfg["ud"] for v in uu]
        fsc = max([1.0] + [abs(v) for v in flat(w["tau"])])
        d, _ = maxdiff(udflat, got["udotF"])
        if not d <= 1e-8 * fsc:
            res.append(("C02", "forward-dynamics-with-applied-forces", "expected udot %s, observed %s" % (udflat, got["udotF"])))
        small("C02", "inverse-of-forward-residual", got["errResidual"], fsc)
        # locked mobilizers: the lock supplies exactly the force the spec computed (documented sign: M udot + tau = f)
        exp_mf, j = [], 0
        for b, d in enumerate(cfg["desc"]):
            for k in range(NU[d["type"]]):
                exp_mf.append(-w["tau"][j] if cfg["locked"][b] else 0.0)
                j += 1
        chk("C10", "motion-forces-of-locked-mobilizers", exp_mf, got["motionF"])
        chk("C02", "inverse-dynamics-M-udot-plus-bias", [a + b for a, b in zip(w["tau"], w["JtF"])], got["MudBias"])
        chk("C02", "body-forces-enter-as-JtF", w["JtF"], got["JtF"])
        chk("C04", "body-accelerations", [[b["aw"], b["a"]] for b in w["A"]], [[b["aw"], b["a"]] for b in got["A"]])
        rsc = max([1.0] + [abs(v) for v in flat(w["reactM"])])
        chk("C14", "reaction-on-body-at-M", [[b["t"], b["f"]] for b in w["reactM"]], [[b["t"], b["f"]] for b in got["reactM"]])
        chk("C14", "reaction-on-parent-at-F", [[b["t"], b["f"]] for b in w["reactF"]], [[b["t"], b["f"]] for b in got["reactF"]])
        small("C14", "freebody-method-agrees", got["errFreebody"], rsc)
        small("C14", "findMobilizerReactionOnBodyAtMInGround", got["errFindReaction"], rsc)
    return res


def run(pid, tier, rep, replay=None):
    """the whole E7 pipeline for the comparisons that decide property pid; violations go to rep; returns coverage"""
    work = vlib.workdir("lattice-" + pid)
    vlib.build_repo()
    binpath = vlib.compile_harness(os.path.join(VERIF, "harness", "replay_lattice.cpp"),
                                   os.path.join(VERIF, ".build", "bin", "replay_lattice"),
                                   extra=["-I" + os.path.join(VERIF, "harness")])
    cov = {"states": 0, "transitions": 0, "traces_validated_against_impl": 0, "samples": []}
    cfgs = [json.load(open(replay))["replay"]["config"]] if replay else generate(tier, vlib.seed())
    want, skipped, bad = evaluate(cfgs, work, cov, pid)
    if bad:
        raise vlib.Infra("the specification's own identity %s fails at configuration %s" % (bad[1], json.dumps(cfgs[bad[0]])))
    # a model whose EXACT mass matrix is singular (massless bodies carrying more mobilities than their massive
    # outboard bodies can resist) has no forward dynamics: such configurations are dropped (counted)
    singular = [i for i in sorted(want) if len(want[i]["M"]) and not is_spd(conv(want[i]["M"]), 1e-9)]
    for i in singular:
        del want[i]
    for i in want:      # interaction elements between coincident points have no direction: switch them off (both parameter sets)
        for k, e in enumerate(cfgs[i]["felems"]):
            if e["type"] in ("tpls", "tpld", "tpcf") and sum(frac(x) ** 2 for x in want[i]["forces"]["twopt"][k]["p"]) < 1e-12:
                e["on"] = 0
                cfgs[i]["felems2"][k]["on"] = 0
            if e["type"] == "cable":      # consecutive active points must not coincide
                pts = [conv(pt["p"]) for pt, d in zip(want[i]["forces"]["cable"][k], e["pts"]) if d["on"]]
                if any(sum((a - b) ** 2 for a, b in zip(p1, p2)) < 1e-12 for p1, p2 in zip(pts, pts[1:])):
                    e["on"] = 0
                    cfgs[i]["felems2"][k]["on"] = 0
    for i in want:      # a rod of zero current length has no defined direction: switch it off
        for k, cc in enumerate(cfgs[i]["cons"]):
            if cc["type"] == "rod" and frac(want[i]["cons"][k]["perr"]) < 1e-12:
                cc["on"] = 0
    idx = sorted(want)
    pfile, ofile = os.path.join(work, "run.ndjson"), os.path.join(work, "out.ndjson")
    with open(pfile, "w") as f:
        for i in idx:
            c = dict(cfgs[i])
            c["fitTarget"] = conv(want[i]["fit"])       # X_FM, V_FM of the second coordinate set, from the spec
            if c["dyn"]:
                c["tau"] = conv(want[i]["tau"])       # the mobility forces the spec says produce udot = ud
            f.write(json.dumps(c) + "\n")
    pr = subprocess.run(["timeout", "1200", binpath, pfile, ofile], capture_output=True, text=True)
    outs = vlib.read_ndjson(ofile)
    if pr.returncode != 0 or len(outs) != len(idx):
        c = cfgs[idx[min(len(outs), len(idx) - 1)]]
        rep.violation("crash", {"config": c}, "the harness died at %s" % json.dumps(c))
    types_seen, per_prop = {}, 0
    seen = set()
    for i, o in zip(idx, outs):
        c = cfgs[i]
        cov["traces_validated_against_impl"] += 1
        for d in c["desc"]:
            k = d["type"] + ("/rev" if d["rev"] else "")
            types_seen[k] = types_seen.get(k, 0) + 1
        for prop, what, detail in compare(c, want[i], o):
            if prop != pid and not os.environ.get("LATTICE_ALL"):      # LATTICE_ALL=1: development aid, report every property's comparisons
                continue
            if prop != pid:
                what = prop + ":" + what
            sig = what if "/" in what else "%s/%s" % (what, "+".join(sorted(set(d["type"] + ("-rev" if d["rev"] else "") for d in c["desc"]))))
            if sig in seen:
                continue
            seen.add(sig)
            rep.violation(sig, {"config": c}, "%s differs for the tree %s: %s" % (what, json.dumps(c)[:400], detail))
    cov["configurations"] = len(cfgs)
    cov["skipped_integer_range"] = len(skipped)
    cov["skipped_singular_model"] = len(singular)
    cov["euler_option_configurations"] = sum(1 for i in idx if cfgs[i].get("euler"))
    cov["function_based_bodies"] = sum(1 for i in idx for d in cfgs[i]["desc"] if d.get("fb"))
    cov["massless_bodies"] = sum(1 for i in idx for d in cfgs[i]["desc"] if d["mass"] == 0)
    cov["force_elements"] = {}
    for i in idx:
        for e in cfgs[i]["felems"]:
            cov["force_elements"][e["type"]] = cov["force_elements"].get(e["type"], 0) + 1
    cov["constraints_enabled"] = {}
    for i in idx:
        for cc in cfgs[i]["cons"]:
            if cc["on"]:
                cov["constraints_enabled"][cc["type"]] = cov["constraints_enabled"].get(cc["type"], 0) + 1
    cov["locked_mobilizers"] = sum(1 for i in idx if cfgs[i]["dyn"] for b in cfgs[i]["locked"] if b)
    cov["mobilizers_exercised"] = types_seen
    cov["dynamics_configurations"] = sum(1 for i in idx if cfgs[i]["dyn"])
    for i in idx[:1] + idx[-1:]:
        cov["samples"].append({"config": cfgs[i], "expected": {k: conv(want[i][k]) for k in ("X", "M", "ke2")}})
    cov["uncovered"] = ["configurations off the lattice (general angles)", "mobilizer types Screw, SphericalCoords, CantileverFreeBeam, user-written Custom mobilizers",
                        "trees of more than 5 bodies", "contact, Hunt-Crossley / elastic-foundation forces, Thermostat, DiscreteForces"]
    cov["exhaustive"] = False
    return cov


def main():
    pid = sys.argv[1]
    tier, replay = "quick", None
    args = sys.argv[2:]
    while args:
        a = args.pop(0)
        if a == "--tier":
            tier = args.pop(0)
        elif a == "--replay":
            replay = args.pop(0)
    tier = os.environ.get("VERIF_TIER", tier)
    rep = vlib.Report(pid, tier)
    cov = run(pid, tier, rep, replay)
    if len(rep.violations) > 30:
        rep.violations = rep.violations[:30]
    return rep.finish("model_checking", cov, assumptions=ASSUMPTIONS)


ASSUMPTIONS = [
    "mass properties, frames, coordinates and speeds are restricted to the rational lattice n/5^e (angles k*90deg + m*atan2(4,3), rational unit quaternions)",
    "floating-point results are compared with the exact values within 1e-9 relative to the magnitude of the quantity"]


if __name__ == "__main__":
    try:
        sys.exit(main())
    except vlib.Infra as e:
        print("INFRA-ERROR: %s" % e)
        sys.exit(2)
