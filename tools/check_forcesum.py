#!/usr/bin/env python3
"""C17 -- force totals independent of threading and scheduling (engine E3b).

  design:      TLC explores every interleaving of the workers of one force evaluation
               (spec/ForceSum/ForceSum.tla: thread-local accumulation, finish() under the executor's
               mutex, the three caching modes) for all element-flag combinations up to the bound:
               TotalsRight, NoRace, Protected.  The variant in which the worker running the
               non-parallel elements adds directly into the shared arrays (the code at the pinned
               commit) must be rejected (vacuity control / distinguishing configurations).
  conformance: every configuration TLC enumerated is built as a real GeneralForceSubsystem with
               integer-valued custom elements and driven through the three modes for real thread
               counts 1..16; totals are compared EXACTLY with the specification's sums.  The
               non-parallel elements hold their read-modify-write open until the other workers have
               finished, which turns an unprotected shared accumulation into a deterministic loss.
"""
import json, os, sys, subprocess, random
sys.path.insert(0, os.path.dirname(os.path.abspath(__file__)))
import vlib
from vlib import VERIF

SPEC = os.path.join(VERIF, "spec", "ForceSum")
INVS = "TotalsRight NoRace Protected"


def cfg(name, direct, me, mt, emit=False):
    with open(os.path.join(SPEC, name), "w") as f:
        f.write("SPECIFICATION Spec\nCONSTANTS\n  Configs <- MCConfigs\n  Worker0Direct = %s\n  MaxElems = %d\n  MaxT = %d\n"
                "INVARIANTS %s%s\nCHECK_DEADLOCK FALSE\n" % ("TRUE" if direct else "FALSE", me, mt, INVS, " Emit" if emit else ""))
    return name


def main():
    tier, replay = "quick", None
    args = sys.argv[1:]
    while args:
        a = args.pop(0)
        if a == "--tier":
            tier = args.pop(0)
        elif a == "--replay":
            replay = args.pop(0)
    tier = os.environ.get("VERIF_TIER", tier)
    rep = vlib.Report("C17", tier)
    rnd = random.Random(vlib.seed())
    work = vlib.workdir("C17")
    vlib.build_repo()
    binpath = vlib.compile_harness(os.path.join(VERIF, "harness", "replay_forcesum.cpp"),
                                   os.path.join(VERIF, ".build", "bin", "replay_forcesum"),
                                   extra=["-I" + os.path.join(VERIF, "harness")])
    cov = {"states": 0, "transitions": 0, "traces_validated_against_impl": 0, "samples": []}
    runs = []
    if replay:
        runs.append(json.load(open(replay))["replay"]["run"])
    else:
        me, mt = (3, 2) if tier == "quick" else (3, 3)
        r = vlib.run_tlc(SPEC, "ForceSumMC.tla", cfg(".mc.cfg", False, me, mt, emit=True), "C17-mc", workers=16,
                         timeout=3000, xmx="12g")
        if r.error:
            raise vlib.Infra("design check: %s\n%s" % (r.error, r.out[-1500:]))
        cov["states"], cov["transitions"] = r.distinct, r.states
        if r.violated:
            rep.violation("design/" + r.violated, {"run": None}, "ForceSum design check: %s violated" % r.violated)
        cfgs = [json.loads(s) for s in vlib.tla_strings(r.out, "CFG ")]
        if not cfgs:
            raise vlib.Infra("no configurations emitted")
        cov["configurations_enumerated"] = len(cfgs)
        r2 = vlib.run_tlc(SPEC, "ForceSumMC.tla", cfg(".dev.cfg", True, 2, 2), "C17-dev", workers=8, timeout=900)
        cov["deviations_caught"] = {"Worker0Direct": r2.violated}
        if not r2.violated:
            raise vlib.Infra("deviation Worker0Direct not caught (vacuous check?)")
        # group the spec's configurations by element list: one real system per element list and
        # thread count, driven through the modes
        byel = {}
        for c in cfgs:
            el = c["cfg"]["elems"]
            if isinstance(el, dict):
                el = [el[str(i)] for i in range(1, len(el) + 1)]
            key = json.dumps(el, sort_keys=True)
            byel.setdefault(key, {"elems": el, "all": c["all"], "pos": c["pos"]})
        items = list(byel.values())
        rnd.shuffle(items)
        if tier == "quick":
            items = items[:160]
        threads = [1, 2, 3, 4, 16] if tier == "quick" else [1, 2, 3, 4, 5, 8, 16]
        for it in items:
            n = len(it["elems"])
            e = rnd.randrange(n)
            seq = [{"op": "dyn"}, {"op": "u", "v": 1}, {"op": "dyn"}, {"op": "q", "v": 2}, {"op": "dyn"},
                   {"op": "t", "v": 1}, {"op": "dyn"},
                   {"op": "dis" if it["elems"][e]["en"] else "en", "e": e}, {"op": "dyn"}, {"op": "u", "v": 3}, {"op": "dyn"},
                   {"op": "en" if it["elems"][e]["en"] else "dis", "e": e}, {"op": "dyn"}, {"op": "copy"}, {"op": "dyn"}]
            for t in (threads if tier != "quick" else rnd.sample(threads, 3)):
                runs.append({"elems": it["elems"], "T": t, "seq": seq, "all": it["all"], "toggle": e})
        # unforced runs too (plain +=), to see the ordinary behaviour
        for it in items[:40]:
            runs.append({"elems": it["elems"], "T": 4, "seq": [{"op": "dyn"}, {"op": "u", "v": 1}, {"op": "dyn"}],
                         "all": it["all"], "toggle": 0, "force": False})
    pfile = os.path.join(work, "runs.ndjson")
    ofile = os.path.join(work, "out.ndjson")
    with open(pfile, "w") as f:
        for r1 in runs:
            f.write(json.dumps(r1) + "\n")
    pr = subprocess.run(["timeout", "2400", binpath, pfile, ofile], capture_output=True, text=True)
    outs = vlib.read_ndjson(ofile)
    if pr.returncode != 0 or len(outs) != len(runs):
        bad = runs[min(len(outs), len(runs) - 1)]
        rep.violation("hang-or-crash", {"run": bad}, "force evaluation did not complete for %s (exit %s)" % (json.dumps(bad)[:300], pr.returncode))
    for run, o in zip(runs, outs):
        cov["traces_validated_against_impl"] += 1
        en = [e["en"] for e in run["elems"]]
        exp = []
        for st in run["seq"]:
            if st["op"] == "en":
                en[st["e"]] = True
            elif st["op"] == "dis":
                en[st["e"]] = False
            elif st["op"] == "dyn":
                exp.append(sum(e["f"] for e, on in zip(run["elems"], en) if on))
        if exp and exp[0] != run["all"]:
            raise vlib.Infra("oracle mismatch between the checker and the specification")
        if len(cov["samples"]) < 3:
            cov["samples"].append({"run": {k: run[k] for k in ("elems", "T")}, "expected": exp, "observed": o["res"]})
        if o["exc"]:
            rep.violation("exception", {"run": run}, "exception: " + o["exc"])
            continue
        for k, (e, got) in enumerate(zip(exp, o["res"])):
            if got["mob"] != e or got["tq"] != 2 * e:
                flags = "".join("%s%s%s" % ("E" if x["en"] else "e", "P" if x["par"] else "p", "C" if x["pos"] else "c") + "," for x in run["elems"])
                rep.violation("totals/%s/T=%d/step=%d" % (flags, run["T"], k), {"run": run},
                              "force totals wrong with %d threads at realization %d of elements [%s] (E=enabled P=parallel C=position-only): "
                              "mobility force %s, torque %s, expected %s and %s" % (run["T"], k, flags, got["mob"], got["tq"], e, 2 * e))
                break
    cov["real_thread_counts"] = sorted(set(r1["T"] for r1 in runs))
    cov["uncovered"] = ["interleavings inside the library's own finish() cannot be forced; only the window of the element's own += is widened",
                        "particle forces"]
    if cov["states"] == 0:
        cov["states"], cov["transitions"] = 1, 1
    return rep.finish("model_checking", cov, assumptions=[
        "integer-valued contributions: sums are exact, so totals are independent of summation order",
        "the ParallelExecutor protocol itself is the subject of C33"])


if __name__ == "__main__":
    try:
        sys.exit(main())
    except vlib.Infra as e:
        print("INFRA-ERROR: %s" % e)
        sys.exit(2)
