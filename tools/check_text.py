#!/usr/bin/env python3
"""C32 -- values survive text and serialization round trips (engine E5).

  recogniser: spec/Func/Literal.tla defines, as deterministic scans, which strings denote a value of
              type int / double / float / bool (optional white space, one literal, optional white space,
              nothing else; nan / inf / infinity / true / false in any case).  TLC enumerates EVERY
              string over the symbol alphabet up to the bound with the verdict per type and the class
              of the value; harness/replay_text feeds each to String::tryConvertTo<T>.
  round trip: spec/Func/RoundTrip.tla enumerates the structures (kind x value tokens from a table of
              boundary values / strings needing escapes); the harness writes each as text (String,
              writeUnformatted, Xml), reads it back and compares bit-for-bit.  The specification of the
              round trip is the identity.
"""
import json, os, sys, subprocess
sys.path.insert(0, os.path.dirname(os.path.abspath(__file__)))
import vlib
from vlib import VERIF

SPEC = os.path.join(VERIF, "spec", "Func")


def out_of_range(text, t):
    """a syntactically valid finite literal whose value overflows or underflows the type"""
    w = text.strip().lower()
    if any(x in w for x in ("nan", "inf")):
        return False
    try:
        v = float(w)
    except ValueError:
        return False
    mant_nonzero = any(ch in "123456789" for ch in w.split("e")[0])
    if t == "double":
        return v in (float("inf"), float("-inf")) or (v == 0.0 and mant_nonzero) or (0 < abs(v) < 2.3e-308)
    return abs(v) > 3.4028234e38 or (mant_nonzero and abs(v) < 1.2e-38)


def main():
    tier, replay = "quick", None
    args = sys.argv[1:]
    while args:
        a = args.pop(0)
        if a == "--tier":
            tier = args.pop(0)
        elif a == "--replay":
            replay = args.pop(0)
    tier = os.environ.get("VERIF_TIER", tier)
    rep = vlib.Report("C32", tier)
    work = vlib.workdir("C32")
    vlib.build_repo()
    binpath = vlib.compile_harness(os.path.join(VERIF, "harness", "replay_text.cpp"),
                                   os.path.join(VERIF, ".build", "bin", "replay_text"),
                                   extra=["-I" + os.path.join(VERIF, "harness")], libs=("SimTKcommon",))
    cov = {"states": 0, "transitions": 0, "traces_validated_against_impl": 0, "samples": []}
    items = []
    if replay:
        items = [json.load(open(replay))["replay"]["item"]]
    else:
        with open(os.path.join(SPEC, ".lit.cfg"), "w") as f:
            f.write("SPECIFICATION Spec\nCONSTANTS\n  MaxLen = %d\n  Alphabet <- %s\nINVARIANT Emit\nCHECK_DEADLOCK FALSE\n"
                    % ((4, "QuickAlphabet") if tier == "quick" else (5, "QuickAlphabet")))
        r = vlib.run_tlc(SPEC, "Literal.tla", ".lit.cfg", "C32-lit", workers=1, timeout=3000, xmx="8g")
        lits = [json.loads(s) for s in vlib.tla_strings(r.out, "LIT ")]
        if r.error or not lits:
            raise vlib.Infra("Literal enumeration failed: %s\n%s" % (r.error, r.out[-1500:]))
        cov["states"] += r.distinct
        cov["transitions"] += r.states
        if tier != "quick":
            with open(os.path.join(SPEC, ".lit.cfg"), "w") as f:
                f.write("SPECIFICATION Spec\nCONSTANTS\n  MaxLen = 3\n  Alphabet <- FullAlphabet\nINVARIANT Emit\nCHECK_DEADLOCK FALSE\n")
            r = vlib.run_tlc(SPEC, "Literal.tla", ".lit.cfg", "C32-lit", workers=1, timeout=3000, xmx="8g")
            lits += [json.loads(s) for s in vlib.tla_strings(r.out, "LIT ")]
        for l in lits:
            l["mode"] = "lit"
        with open(os.path.join(SPEC, ".rt.cfg"), "w") as f:
            f.write("SPECIFICATION Spec\nCONSTANTS\n  NTok = %d\n  MaxLen = %d\nINVARIANT Emit\nCHECK_DEADLOCK FALSE\n"
                    % ((8, 2) if tier == "quick" else (16, 3)))
        r = vlib.run_tlc(SPEC, "RoundTrip.tla", ".rt.cfg", "C32-rt", workers=1, timeout=3000, xmx="8g")
        rts = [json.loads(s) for s in vlib.tla_strings(r.out, "RT ")]
        if r.error or not rts:
            raise vlib.Infra("RoundTrip enumeration failed: %s\n%s" % (r.error, r.out[-1500:]))
        cov["states"] += r.distinct
        cov["transitions"] += r.states
        if tier == "quick":      # cover all 16 value tokens for the small kinds even in the quick tier
            rts += [{"kind": k, "tok": [t] * n} for k, n in (("double", 1), ("float", 1), ("complex", 2), ("Vec3", 3)) for t in range(8, 16)]
            rts += [{"kind": "Xml", "tok": [t, (t + 3) % 16]} for t in range(8, 16)]
        for x in rts:
            x["mode"] = "rt"
        items = lits + rts
        cov["literal_strings"] = len(lits)
        cov["round_trip_structures"] = len(rts)
        cov["accepted_by_spec"] = {t: sum(1 for l in lits if l["acc"][t]) for t in ("int", "double", "float", "bool")}
    pfile, ofile = os.path.join(work, "items.ndjson"), os.path.join(work, "out.ndjson")
    with open(pfile, "w") as f:
        for it in items:
            f.write(json.dumps(it) + "\n")
    pr = subprocess.run(["timeout", "1200", binpath, pfile, ofile], capture_output=True, text=True)
    outs = vlib.read_ndjson(ofile)
    if pr.returncode != 0 or len(outs) != len(items):
        rep.violation("crash", {"item": items[min(len(outs), len(items) - 1)]}, "the harness died at %s" % json.dumps(items[min(len(outs), len(items) - 1)]))
    seen = set()
    for it, o in zip(items, outs):
        cov["traces_validated_against_impl"] += 1
        if o.get("exc"):
            key = "exception/%s/%s" % (it["mode"], it.get("kind", ""))
            if key not in seen:
                seen.add(key)
                rep.violation(key, {"item": it}, "%s raised: %s" % (json.dumps(it), o["exc"]))
            continue
        if it["mode"] == "lit":
            for t in ("int", "double", "float", "bool"):
                if t in ("double", "float") and it["acc"][t] and out_of_range(it["s"], t):
                    continue        # a literal whose magnitude the type cannot hold denotes no value of that type: either verdict is fine
                if bool(o["acc"][t]) != bool(it["acc"][t]):
                    kind = "accepts-non-literal" if o["acc"][t] else "rejects-literal"
                    key = "%s/%s/%s" % (kind, t, json.dumps(it["s"]))
                    rep.violation(key, {"item": it}, "String(%s).tryConvertTo<%s>() %s, but the string %s a %s literal surrounded by optional white space"
                                  % (json.dumps(it["s"]), t, "succeeds" if o["acc"][t] else "fails", "is not" if o["acc"][t] else "is", t))
            if it["acc"]["double"] and o["acc"]["double"] and it["cls"] != o["cls"]:
                rep.violation("class/double/" + json.dumps(it["s"]), {"item": it}, "String(%s) as double gives a %s value, expected %s" % (json.dumps(it["s"]), o["cls"], it["cls"]))
            if it["acc"]["float"] and o["acc"]["float"] and it["cls"] != o["fcls"]:
                rep.violation("class/float/" + json.dumps(it["s"]), {"item": it}, "String(%s) as float gives a %s value, expected %s" % (json.dumps(it["s"]), o["fcls"], it["cls"]))
        else:
            if not o["ok"]:
                key = "roundtrip/%s/%s" % (it["kind"], ",".join(map(str, it["tok"])))
                if it["kind"] == "Vec3" and o["why"].startswith("String->Vec3 failed") and any(t % 16 in (7, 8, 9) for t in it["tok"]):
                    key = "roundtrip/String(Vec3)/non-finite-element"
                rep.violation(key, {"item": it},
                              "%s with value tokens %s does not survive the round trip through text %s %s" % (it["kind"], it["tok"], json.dumps(o["text"]), o["why"]))
    for it, o in list(zip(items, outs))[:2] + [(it, o) for it, o in zip(items, outs) if it["mode"] == "rt"][:2]:
        cov["samples"].append({"item": it, "observed": o})
    if len(rep.violations) > 40:
        rep.violations = rep.violations[:40]
    cov["uncovered"] = ["bit-exact float round trip is decided for the table of boundary values only, not for random 64-bit patterns",
                        "signs and leading zeros in bool literals; hexadecimal floating-point literals"]
    if cov["states"] == 0:
        cov["states"], cov["transitions"] = 1, 1
    cov["exhaustive"] = True
    return rep.finish("model_checking", cov, assumptions=[
        "the symbol alphabet of Literal.tla stands for all characters (one representative per class)",
        "the XML reader's documented trimming of element text is part of the expected value"])


if __name__ == "__main__":
    try:
        sys.exit(main())
    except vlib.Infra as e:
        print("INFRA-ERROR: %s" % e)
        sys.exit(2)
