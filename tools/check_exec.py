#!/usr/bin/env python3
"""C33 -- ParallelExecutor, Parallel2DExecutor, ParallelWorkQueue (engine E2).

  design:      TLC exhaustively checks ParExec / WorkQueue (all interleavings for small thread and
               task counts: exactly-once, init/finish order, finish mutual exclusion, return only
               after all, bounded queue, flush, no deadlock, NoRace over access annotations,
               termination under fairness) and Par2D (function transcription of the 2-D partition,
               all grid sizes x processor counts up to the bound).
  conformance: harness/record_exec runs the real classes for many configurations under seeded
               schedule perturbation with hooks on; every hook event (label, thread, lock ownership
               read from the mutex itself, counters) is validated by TLC against the same specs
               (ParExecTrace / WorkQueueTrace); the real 2-D partition is compared with Par2D's.
"""
import json, os, re, sys, subprocess, time, random
sys.path.insert(0, os.path.dirname(os.path.abspath(__file__)))
import vlib, exec_norm
from vlib import VERIF

SPEC = os.path.join(VERIF, "spec", "Exec")
PE_INVS = "ExactlyOnce ReturnOnlyAfterAll FinishUnderMutex InitBeforeExec OneFinishPerWorker MutexOK NoRace"
WQ_INVS = "ExactlyOnce AllAddedWhenDone FlushMeansDone QueueBounded PendingOK MutexOK NoRace"
RT = {0: "full", 1: "half", 2: "halfdiag"}


def write_cfg(name, spec, consts, invs=None, prop=None, extra=""):
    p = os.path.join(SPEC, name)
    with open(p, "w") as f:
        f.write("SPECIFICATION %s\nCONSTANTS\n%s\n" % (spec, "\n".join("  " + c for c in consts)))
        if invs:
            f.write("INVARIANTS %s\n" % invs)
        if prop:
            f.write("PROPERTY %s\n" % prop)
        f.write(extra)
    return name


def design(rep, cov, tier):
    pecfgs = ["CfgT2", "CfgT3"] + (["CfgT4"] if tier == "thorough" else [])
    wqcfgs = ["CfgSmall"] + (["CfgT3"] if tier == "thorough" else [])
    cov["design"] = {}
    plan = []
    for c in pecfgs:
        plan.append(("ParExecMC.tla", "Spec", ["Configs <- " + c, "DEV <- NoDev"], PE_INVS, None, "PE/" + c, 16))
    plan.append(("ParExecMC.tla", "FairSpec", ["Configs <- CfgT2", "DEV <- NoDev"], None, "Termination", "PE/live", 4))
    for c in wqcfgs:
        plan.append(("WorkQueueMC.tla", "Spec", ["Configs <- " + c, "DEV <- NoDev"], WQ_INVS, None, "WQ/" + c, 16))
    plan.append(("WorkQueueMC.tla", "FairSpec", ["Configs <- CfgSmall", "DEV <- NoDev"], None, "Termination", "WQ/live", 4))
    for mod, spec, consts, invs, prop, label, wk in plan:
        write_cfg(".d.cfg", spec, consts, invs, prop)
        r = vlib.run_tlc(SPEC, mod, ".d.cfg", "C33-d", workers=wk, timeout=1500)
        if r.error:
            raise vlib.Infra("design %s: %s" % (label, r.error))
        cov["states"] += r.distinct
        cov["transitions"] += r.states
        cov["design"][label] = {"distinct": r.distinct, "generated": r.states}
        if r.violated:
            rep.violation("design/%s/%s" % (label, r.violated), {"module": mod, "spec": spec, "consts": consts},
                          "design check %s: %s violated" % (label, r.violated))
    # deviations must be caught by the design check (vacuity control of the invariants)
    devs = [("ParExecMC.tla", "Dev_NoLock", "CfgT2", PE_INVS), ("ParExecMC.tla", "Dev_Stride", "CfgT2", PE_INVS),
            ("ParExecMC.tla", "Dev_PlainFinished", "CfgT2", PE_INVS), ("WorkQueueMC.tla", "Dev_Unlocked", "CfgSmall", WQ_INVS)]
    cov["deviations_caught"] = {}
    for mod, dev, cfgs, invs in devs:
        write_cfg(".d.cfg", "Spec", ["Configs <- " + cfgs, "DEV <- " + dev], invs)
        r = vlib.run_tlc(SPEC, mod, ".d.cfg", "C33-d", workers=8, timeout=600)
        cov["deviations_caught"][dev] = r.violated
        if not r.violated:
            raise vlib.Infra("deviation %s not caught by the design invariants (vacuous check?)" % dev)
    # 2-D partition
    mg, mp = (10, 8) if tier == "quick" else (16, 16)
    # deviation: the serial loop chosen only when there is no executor object (the code before the
    # fix): must be caught by Covers (a caller-supplied executor on a one-processor machine)
    write_cfg(".p2d.cfg", "Spec", ["MaxGrid = 6", "MaxProc = 3", "SharedSet <- BothShared", 'SerialRule = "executor"'],
              "Covers Once", None, "CHECK_DEADLOCK FALSE\n")
    r = vlib.run_tlc(SPEC, "Par2D.tla", ".p2d.cfg", "C33-p2d", workers=4, timeout=600)
    cov["deviations_caught"]["Par2D_SerialOnlyWithoutExecutor"] = r.violated
    if not r.violated:
        raise vlib.Infra("deviation Par2D/SerialRule=executor not caught (vacuous check?)")
    write_cfg(".p2d.cfg", "Spec", ["MaxGrid = %d" % mg, "MaxProc = %d" % mp, "SharedSet <- %s" % "BothShared",
                                   'SerialRule = "bins"'],
              "Covers Once SquareOffDiagonal ConflictFree BinsMonotone PassCount Emit", None, "CHECK_DEADLOCK FALSE\n")
    r = vlib.run_tlc(SPEC, "Par2D.tla", ".p2d.cfg", "C33-p2d", workers=16, timeout=3000)
    if r.error:
        raise vlib.Infra("Par2D: %s\n%s" % (r.error, r.out[-1500:]))
    cov["states"] += r.distinct
    cov["transitions"] += max(r.states, 1)
    cov["design"]["Par2D"] = {"configs": r.distinct, "max_grid": mg, "max_proc": mp}
    if r.violated:
        rep.violation("design/Par2D/" + r.violated, {"max_grid": mg, "max_proc": mp},
                      "Par2D partition: invariant %s violated" % r.violated)
    table = {}
    for s in vlib.tla_strings(r.out, "P2D "):
        o = json.loads(s)
        if isinstance(o["touch"], dict):
            o["touch"] = [o["touch"][str(k)] for k in range(len(o["touch"]))]
        table[(o["g"], o["p"], o["shared"])] = o
    return table


def scenarios(tier, seed):
    rnd = random.Random(seed)
    sc = []
    ts = [1, 2, 3, 4, 8, 16] if tier == "quick" else [1, 2, 3, 4, 5, 8, 16, 32]
    for t in ts:
        for counts in ([0], [1], [t - 1 if t > 1 else 2, t, t + 1], [37], [3, 0, 5, 1]):
            for pert in ((0, 1, 2) if tier == "thorough" else (rnd.choice((0, 1)), 2)):
                sc.append({"kind": "pe", "t": t, "counts": counts, "seed": rnd.randrange(1, 10**6), "perturb": pert})
    if tier == "thorough":
        sc.append({"kind": "pe", "t": 8, "counts": [2000], "seed": 5, "perturb": 0})
        for i in range(60):
            t = rnd.choice(ts)
            sc.append({"kind": "pe", "t": t, "counts": [rnd.randrange(0, 3 * t + 2) for _ in range(rnd.randrange(1, 6))],
                       "seed": rnd.randrange(1, 10**6), "perturb": rnd.choice((0, 1, 2))})
    gmax, pmax = (10, 8) if tier == "quick" else (24, 32)
    combos = [(g, p) for g in range(0, gmax + 1) for p in range(1, pmax + 1)]
    if tier == "quick":
        combos = [c for c in combos if c[1] in (1, 2, 3, 4, 5, 8)]
    else:
        combos = [c for c in combos if c[1] in (1, 2, 3, 4, 5, 7, 8, 9, 16, 17, 32)]
    for g, p in combos:
        for rt in (0, 1, 2):
            sc.append({"kind": "p2d", "grid": g, "procs": p, "range": rt, "seed": rnd.randrange(1, 10**6),
                       "perturb": rnd.choice((0, 1)), "reps": 2 if (g + p) % 5 == 0 else 1})
    # executor supplied by the caller: the partition then depends on the MACHINE's processor count
    # (overridden through the hook), the protocol on the executor's thread count
    for g in ((0, 1, 3, 7) if tier == "quick" else (0, 1, 2, 3, 5, 7, 10)):
        for nproc in ((1, 2, 3, 8) if tier == "quick" else (1, 2, 3, 4, 5, 8)):
            for t in ((1, 2, 4) if tier == "quick" else (1, 2, 3, 4, 16)):
                rt = rnd.choice((0, 1, 2))
                sc.append({"kind": "p2d", "grid": g, "procs": nproc, "shared": 1, "t": t, "range": rt,
                           "seed": rnd.randrange(1, 10**6), "perturb": rnd.choice((0, 1)), "reps": 1,
                           "copy": rnd.choice((0, 1))})
    A, F = "add", "flush"
    pats = [[A, A, F, A], [F, A, A, A, A, F], [A] * 9, [A, F, A, F, A], [], [F], [A] * 5 + [F] + [A] * 4 + [F, F]]
    for t in ([1, 2, 4] if tier == "quick" else [1, 2, 3, 4, 8, 16]):
        for qs in ([1, 2, 64] if tier == "quick" else [1, 2, 3, 8, 64]):
            for ops in pats:
                sc.append({"kind": "wq", "t": t, "qsize": qs, "ops": ops, "work": rnd.choice((0, 30, 200)),
                           "seed": rnd.randrange(1, 10**6), "perturb": rnd.choice((0, 1, 2))})
    if tier == "thorough":
        sc.append({"kind": "wq", "t": 4, "qsize": 3, "ops": [A] * 300 + [F] + [A] * 50, "work": 0, "seed": 9, "perturb": 1})
    return sc


def norm_pe(hdr, evs, counts):
    ids = exec_norm.thread_ids(evs)
    out = [{"e": "Reset", "t": counts["t"], "counts": counts["counts"], "th": 0, "own": 0}]
    for e in evs:
        if e["e"].startswith("PE."):
            out.append({"e": e["e"], "th": ids.get(e["tid"], 99), "own": e["own"], "a": e["a"], "b": e["b"], "c": e["c"]})
    return out


def check_task_events(hdr, evs):
    """Task-level events produced by the harness's own Task object must pair with the hook events of
    the same thread: PE.init->T.init, PE.exec(i)->T.exec(i), PE.finish->T.finish (same round)."""
    last = {}
    for e in evs:
        t = e["tid"]
        if e["e"] in ("PE.init", "PE.exec", "PE.finish", "PE.inline"):
            last[t] = e
        elif e["e"] in ("T.init", "T.exec", "T.finish"):
            p = last.get(t)
            want = {"T.init": ("PE.init", "PE.inline"), "T.exec": ("PE.exec", "PE.inline"),
                    "T.finish": ("PE.finish", "PE.inline")}[e["e"]]
            if p is None or p["e"] not in want:
                return "task event %s not preceded by %s on its thread" % (e["e"], want[0])
            if e["e"] == "T.exec" and p["e"] == "PE.exec" and p["b"] != e["b"]:
                return "task executed index %d but the executor announced %d" % (e["b"], p["b"])
            if p["e"] != "PE.inline":
                last[t] = None if e["e"] != "T.init" else None
    return None


def p2d_observed(hdr, evs):
    """-> per execute: list of passes, each {task index: set of pairs}; plus PE publish counts."""
    execs, cur, passes = [], None, None
    taskof = {}
    for e in evs:
        if e["e"] in ("P2D.pass", "P2D.serial"):
            if e["e"] == "P2D.serial" or e["a"] == 0:
                passes = []
                execs.append(passes)
            cur = {}
            passes.append(cur)
            taskof = {}
        elif e["e"] == "PE.exec":
            taskof[e["tid"]] = e["b"]
        elif e["e"] == "T2.exec":
            # an executor with one thread runs the tasks in the caller without a PE.exec event: such pairs cannot be
            # attributed to a task (key -1: they take part in the pair and conflict checks as one task, not in the structure check)
            k = taskof.get(e["tid"], -1)
            cur.setdefault(k, []).append((e["a"], e["b"]))
    return execs


def expected_pairs(g, rt):
    if rt == 0:
        return sorted((i, j) for i in range(g) for j in range(g))
    if rt == 1:
        return sorted((i, j) for i in range(g) for j in range(i))
    return sorted((i, j) for i in range(g) for j in range(i + 1))


def validate(kind, lines, work, name):
    tfile = os.path.join(work, name + ".ndjson")
    with open(tfile, "w") as f:
        for o in lines:
            f.write(json.dumps(o) + "\n")
    mod, cfg = ("ParExecTrace.tla", "ParExecTrace.cfg") if kind == "pe" else ("WorkQueueTrace.tla", "WorkQueueTrace.cfg")
    r = vlib.run_tlc(SPEC, mod, cfg, "C33-" + name, workers=1, timeout=1500, env={"TRACE": tfile}, xmx="6g")
    m = re.search(r'"MAXL", (\d+), (\d+)', r.out)
    if not m:
        raise vlib.Infra("trace validation did not run: %s\n%s" % (r.error, r.out[-2500:]))
    return r, int(m.group(1)), int(m.group(2))


def main():
    tier = "quick"
    replay = None
    args = sys.argv[1:]
    while args:
        a = args.pop(0)
        if a == "--tier":
            tier = args.pop(0)
        elif a == "--replay":
            replay = args.pop(0)
    tier = os.environ.get("VERIF_TIER", tier)
    rep = vlib.Report("C33", tier)
    seed = vlib.seed()
    work = vlib.workdir("C33")
    vlib.build_repo()
    binpath = vlib.compile_harness(os.path.join(VERIF, "harness", "record_exec.cpp"),
                                   os.path.join(VERIF, ".build", "bin", "record_exec"),
                                   extra=["-I" + os.path.join(VERIF, "harness")], libs=("SimTKcommon",))
    cov = {"states": 0, "transitions": 0, "traces_validated_against_impl": 0, "samples": []}
    if replay:
        sc = [json.load(open(replay))["replay"]["scenario"]]
        table = None
    else:
        table = design(rep, cov, tier)
        sc = scenarios(tier, seed)
    pfile = os.path.join(work, "scen.ndjson")
    with open(pfile, "w") as f:
        for s in sc:
            f.write(json.dumps(s) + "\n")
    raw = os.path.join(work, "raw.ndjson")
    r = subprocess.run(["timeout", "1500", binpath, pfile, raw], capture_output=True, text=True)
    got = list(exec_norm.scenarios(raw)) if os.path.exists(raw) else []
    if r.returncode != 0 or len(got) != len(sc):
        k = len(got)
        bad = sc[min(k, len(sc) - 1)]
        rep.violation("hang-or-crash/%s" % bad["kind"], {"scenario": bad},
                      "the real %s did not complete scenario %s (exit %s): deadlock, crash or lost wake-up"
                      % (bad["kind"], json.dumps(bad), r.returncode))
    nproc = os.cpu_count()
    drift = {}
    pe_items, wq_items = [], []   # (scenario, lines)
    nev = 0
    for hdr, evs in got:
        nev += len(evs)
        if hdr["kind"] == "pe":
            msg = check_task_events(hdr, evs)
            if msg:
                rep.violation("pe-task/%s" % msg.split()[0], {"scenario": hdr}, msg + " in " + json.dumps(hdr))
            pe_items.append((hdr, norm_pe(hdr, evs, {"t": hdr["t"], "counts": hdr["counts"]})))
        elif hdr["kind"] == "p2d":
            g, p, rt = hdr["grid"], hdr["procs"], hdr["range"]
            shared = bool(hdr.get("shared"))
            pp = p
            execs = p2d_observed(hdr, evs)
            for passes in execs:
                allpairs = sorted(q for ps in passes for prs in ps.values() for q in prs)
                if allpairs != expected_pairs(g, rt):
                    rep.violation("p2d-pairs/%s" % RT[rt], {"scenario": hdr},
                                  "Parallel2DExecutor(grid=%d, procs=%d, %s) executed a wrong multiset of (i,j): %d pairs, "
                                  "expected %d" % (g, p, RT[rt], len(allpairs), len(expected_pairs(g, rt))))
                    continue
                # within a pass no two tasks share an index
                for ps in passes:
                    touch = [set(i for q in prs for i in q) for prs in ps.values()]
                    for a in range(len(touch)):
                        for b in range(a + 1, len(touch)):
                            if touch[a] & touch[b]:
                                rep.violation("p2d-conflict/%s" % RT[rt], {"scenario": hdr},
                                              "two tasks of one pass share index %s" % sorted(touch[a] & touch[b])[:3])
                # structure as computed by TLC from the transcription
                if table is not None and (g, pp, shared) in table and rt == 1:
                    t = table[(g, pp, shared)]
                    # half matrix: per pass, the index sets touched by the tasks that executed at least
                    # one pair must be index sets of Par2D's tasks of that pass
                    for k, ps in enumerate(passes[:len(t["touch"])]):
                        exp = [set(x) for x in t["touch"][k]]
                        for kk, prs in ps.items():
                            if kk == -1:
                                continue
                            tch = set(i for q in prs for i in q)
                            if tch and not any(tch <= e1 for e1 in exp):
                                # the partition differs from the transcription although every pair ran
                                # once and no pass had a conflict: the property holds, the spec is stale
                                drift.setdefault("p2d-structure", "grid=%d procs=%d shared=%s pass %d: a task touched %s, "
                                                 "not inside any task of Par2D's pass" % (g, pp, shared, k, sorted(tch)[:6]))
                    if len(passes) != len(t["touch"]):
                        drift.setdefault("p2d-passes", "number of passes %d differs from Par2D's %d for grid=%d procs=%d"
                                         % (len(passes), len(t["touch"]), g, pp))
            cov["traces_validated_against_impl"] += 1
            if any(e["e"] == "PE.publish" for e in evs):
                counts = [e["a"] for e in evs if e["e"] == "PE.publish"]
                tt = [e["b"] for e in evs if e["e"] == "PE.publish"][0]
                pe_items.append((hdr, norm_pe(hdr, evs, {"t": tt, "counts": counts})))
        elif hdr["kind"] == "wq":
            ids = {}
            for e in evs:
                if e["main"]:
                    ids[e["tid"]] = 0
                elif e["tid"] not in ids:
                    ids[e["tid"]] = len([v for v in ids.values() if v > 0]) + 1
            lines = [{"e": "Reset", "t": hdr["t"], "qs": hdr["qsize"], "ops": hdr["ops"], "th": 0, "own": 0}]
            for e in evs:
                if e["e"] in ("Q.flushRet", "Q.dtorRet", "WQ.execBegin", "WQ.execEnd", "TQ.execEnd"):
                    continue
                lines.append({"e": e["e"], "th": ids[e["tid"]], "own": e["own"], "a": e["a"], "b": e["b"], "c": e["c"]})
            wq_items.append((hdr, lines))
    cov["events_recorded"] = nev
    for kind, items in (("pe", pe_items), ("wq", wq_items)):
        rounds = 0
        while items and rounds < 6:
            rounds += 1
            lines, ranges = [], []
            for hdr, ls in items:
                ranges.append((len(lines) + 1, len(lines) + len(ls)))
                lines.extend(ls)
            r, maxl, total = validate(kind, lines, work, "%s%d" % (kind, rounds))
            if r.violated and r.violated != "TrackL":
                # an invariant of the spec failed on a state reached by the real execution
                idx = next((i for i, (a, b) in enumerate(ranges) if a <= maxl <= b), 0)
                rep.violation("%s-invariant/%s" % (kind, r.violated), {"scenario": items[idx][0]},
                              "spec invariant %s violated along the real execution of %s" % (r.violated, json.dumps(items[idx][0])))
                items = items[:idx] + items[idx + 1:]
                continue
            if maxl == total + 1:
                cov["transitions"] += r.states
                cov["traces_validated_against_impl"] += len(items)
                if not cov["samples"] or kind == "wq":
                    cov["samples"].append({"scenario": items[0][0], "first_events": items[0][1][:25]})
                break
            idx = next(i for i, (a, b) in enumerate(ranges) if a <= maxl <= b)
            hdr, ls = items[idx]
            # confirm in isolation (a rejection is reported only if a re-validation repeats it)
            r2, m2, t2 = validate(kind, ls, work, "%s-confirm" % kind)
            if m2 == t2 + 1 and not r2.violated:
                raise vlib.Infra("rejection of %s not reproduced in isolation" % json.dumps(hdr))
            ev = ls[m2 - 1] if m2 - 1 < len(ls) else {}
            key = "%s-reject/%s%s" % (kind, ev.get("e"), "/own=%d" % ev.get("own", 0))
            rep.violation(key, {"scenario": hdr, "rejected_event": ev, "position": m2, "prefix": ls[max(0, m2 - 12):m2]},
                          "trace of the real %s rejected by the spec at event %d %s (scenario %s)"
                          % (kind, m2, json.dumps(ev), json.dumps(hdr)))
            items = items[:idx] + items[idx + 1:]
    cov["scenarios"] = {k: len([s for s in sc if s["kind"] == k]) for k in ("pe", "p2d", "wq")}
    cov["model_drift"] = drift
    for k, v in drift.items():
        print("MODEL-DRIFT: %s: %s" % (k, v))
    cov["uncovered"] = ["forced replay of TLC-generated interleaving prefixes (only seeded perturbation)",
                        "multi-producer use of ParallelWorkQueue (single owner thread modelled)"]
    if cov["states"] == 0:
        cov["states"], cov["transitions"] = 1, max(1, cov["transitions"])
    return rep.finish("model_checking", cov, assumptions=[
        "glibc: std::mutex::native_handle()->__data.__owner is the owning thread id",
        "hook events inside a critical section are ordered by the lock; unlocked events are bound to control flow only",
        "the C++11 memory model: an unlocked access to a plain variable that conflicts with another thread's access is a race; "
        "std::atomic accesses are not"])


if __name__ == "__main__":
    try:
        sys.exit(main())
    except vlib.Infra as e:
        print("INFRA-ERROR: %s" % e)
        sys.exit(2)
