#!/bin/bash
# confirm_seed.sh <worktree>: the demonstration fails on the modified worktree build, passes on the
# unmodified /repo build, and the worktree's test suite still passes (TestCustomConstraints aside).
WT=$1
cd $WT || exit 2
INC=$(find $2/SimTKcommon $2/SimTKmath $2/Simbody -maxdepth 3 -name include -type d 2>/dev/null | sed 's/^/-I/' | tr '\n' ' ')
demo_against() {  # <src root> <lib dir>
  local inc=$(find $1/SimTKcommon $1/SimTKmath $1/Simbody -maxdepth 3 -name include -type d | sed 's/^/-I/' | tr '\n' ' ')
  g++ -std=c++17 -O2 -DNDEBUG $inc $WT/demo/demo.cpp -o /tmp/seed/demo_$$ -L$2 -lSimTKsimbody -lSimTKmath -lSimTKcommon -lpthread -Wl,-rpath,$2 2>/tmp/seed/demo_cc_$$.log || { echo "compile failed"; tail -5 /tmp/seed/demo_cc_$$.log; return 99; }
  timeout 300 /tmp/seed/demo_$$ > /tmp/seed/demo_out_$$.log 2>&1; local rc=$?; tail -3 /tmp/seed/demo_out_$$.log; rm -f /tmp/seed/demo_$$; return $rc
}
echo "== demo against modified worktree"; demo_against $WT $WT/_build; echo "rc=$?"
echo "== demo against unmodified /repo"; demo_against /repo /repo/_build; echo "rc=$?"
echo "== ctest in modified worktree"; ninja -C $WT/_build -j8 > /dev/null 2>&1; ctest --test-dir $WT/_build -j8 --timeout 900 2>&1 | tail -6
