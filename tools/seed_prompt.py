#!/usr/bin/env python3
"""Prints the prompt given to an independent sub-agent that seeds a property-breaking change."""
import json, sys, os
pid, wt = sys.argv[1], sys.argv[2]
variant = sys.argv[3] if len(sys.argv) > 3 else ""
V = os.path.dirname(os.path.dirname(os.path.abspath(__file__)))
p = [json.loads(l) for l in open(os.path.join(V, "properties.jsonl")) if json.loads(l)["id"] == pid][0]
print(f"""You are helping test a verification framework by playing the role of a developer who introduces a subtle regression.

Repository: simbody (C++ multibody dynamics library). You have your OWN scratch git worktree at {wt} (a checkout of the current code). Work ONLY inside {wt}. Do NOT read, list or touch /verif or /repo (other than through your worktree), and do not touch other directories under /tmp/seed.

The property you must break:

  id: {p['id']}
  title: {p['title']}
  statement: {p['statement']}
  quantified over: {p['quantifier']['text']}
  code it is anchored in: {', '.join(p['anchors']['files'])}

Task: make ONE small source change to the library in {wt} (not to its tests) that
  (a) still compiles,
  (b) still passes the repository's existing test suite (all tests that pass before the change; TestCustomConstraints is a pre-existing failure, ignore it),
  (c) makes the library violate the property above, and
  (d) needs something SPECIFIC to manifest: a particular interleaving, a multi-step sequence of operations, an unusual input/configuration, or two cooperating sites that each look fine alone. It must NOT be something ordinary use would expose at once. Think of a realistic mistake a maintainer could make in a refactor or an 'optimisation' (off-by-one in a stage or index, a dropped invalidation / version bump / lock / notify, a wrong condition in a rarely-taken branch, a cache keyed on too little, ...).
{variant}
Also write a demonstration: a small stand-alone C++ program {wt}/demo/demo.cpp (plus {wt}/demo/build_and_run.sh that compiles and runs it against the libraries built in {wt}/_build) that exits 0 on the unmodified code and non-zero (with a short message) on your modified code.

How to build (16-core machine shared with others; use at most 6 jobs):
  cmake -G Ninja -S {wt} -B {wt}/_build -DCMAKE_BUILD_TYPE=RelWithDebInfo -DBUILD_VISUALIZER=OFF -DBUILD_EXAMPLES=OFF -DINSTALL_DOCS=OFF -DCMAKE_CXX_FLAGS=-Wno-error > /dev/null
  ninja -C {wt}/_build -j6 > {wt}/_build/build.log 2>&1
  ctest --test-dir {wt}/_build -j6 --timeout 900 2>&1 | tail -15
A full build takes roughly 10-15 minutes; do the first build BEFORE making your change so later builds are incremental (note: a change to a widely included header such as StateImpl.h or Array.h recompiles most of the tree). There is no network. Libraries land in {wt}/_build (libSimTKcommon.so, libSimTKmath.so, libSimTKsimbody.so); include paths: every directory named 'include' under {wt}/SimTKcommon, {wt}/SimTKmath, {wt}/Simbody (find them with: find {wt}/SimTKcommon {wt}/SimTKmath {wt}/Simbody -maxdepth 3 -name include -type d). Link with -lSimTKsimbody -lSimTKmath -lSimTKcommon -lpthread and an rpath to {wt}/_build. The code contains a few '#ifdef SIMBODY_VERIF' blocks; leave them alone (they are compiled out).

Procedure you must follow and report:
  1. build unmodified, run demo -> exits 0;
  2. apply your change, rebuild, run the full ctest -> same tests pass as before;
  3. run demo -> exits non-zero.
When done, leave in {wt}: your source change UNCOMMITTED in the working tree (so that `git -C {wt} diff` shows exactly the change; do not commit), demo/demo.cpp and demo/build_and_run.sh (untracked is fine), and a file {wt}/demo/NOTES.md saying: what the change is, why existing tests do not notice, what exactly is needed for it to manifest, and the commands you ran with their outcomes. Your final answer should be a brief summary of the same (file/function changed, trigger, test results). If after honest effort you cannot find a change satisfying (a)-(d), say so plainly rather than weakening the requirements.""")
