#!/bin/bash
# Incremental hooks-on build of the three simbody libraries from /repo's CURRENT WORKING TREE
# into /verif/.build/hooks.  Serialised by flock.  Prints nothing on success unless VERBOSE=1.
set -u
REPO=${VERIF_REPO:-/repo}
B=${VERIF_BUILD:-/verif/.build/hooks}
mkdir -p "$B"
exec 9>"$B/.lock"
flock 9
log="$B/build.log"
if [ ! -f "$B/build.ninja" ]; then
  cmake -G Ninja -S "$REPO" -B "$B" -DCMAKE_BUILD_TYPE=RelWithDebInfo -DBUILD_TESTING=OFF \
    -DBUILD_EXAMPLES=OFF -DBUILD_VISUALIZER=OFF -DINSTALL_DOCS=OFF \
    -DCMAKE_CXX_FLAGS="-Wno-error -DSIMBODY_VERIF" >"$log" 2>&1 || { cat "$log"; echo "BUILD-ERROR cmake" ; exit 2; }
fi
ninja -C "$B" -j"${VERIF_JOBS:-16}" SimTKcommon SimTKmath SimTKsimbody >>"$log" 2>&1 || { tail -50 "$log"; echo "BUILD-ERROR ninja"; exit 2; }
[ "${VERBOSE:-0}" = 1 ] && tail -3 "$log"
exit 0
