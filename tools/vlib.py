"""Shared plumbing for the checks: TLC runner, evidence writer, known-findings matcher,
harness compilation.  Everything a registered command needs lives under /verif."""
import json, os, re, subprocess, sys, time, hashlib, shutil, glob

VERIF = os.path.dirname(os.path.dirname(os.path.abspath(__file__)))
REPO = os.environ.get("VERIF_REPO", "/repo")
BUILD = os.environ.get("VERIF_BUILD", os.path.join(VERIF, ".build", "hooks"))
WORK = os.path.join(VERIF, ".work")
TLAJARS = "/opt/veriftools/tla/tla2tools.jar:/opt/veriftools/tla/CommunityModules-deps.jar"


class Infra(Exception):
    """infrastructure failure (exit 2), never a violation"""


def seed():
    try:
        return int(os.environ.get("VERIF_SEED", "1"))
    except ValueError:
        return 1


def workdir(name):
    d = os.path.join(WORK, name)
    shutil.rmtree(d, ignore_errors=True)
    os.makedirs(d, exist_ok=True)
    return d


def build_repo():
    r = subprocess.run([os.path.join(VERIF, "tools", "build.sh")], capture_output=True, text=True)
    if r.returncode != 0:
        sys.stdout.write(r.stdout[-4000:])
        sys.stderr.write(r.stderr[-2000:])
        raise Infra("build of /repo with hooks failed")


def include_flags():
    inc = []
    for top in ("SimTKcommon", "SimTKmath", "Simbody"):
        for root, dirs, _ in os.walk(os.path.join(REPO, top)):
            depth = root[len(REPO):].count(os.sep)
            if depth > 3:
                dirs[:] = []
                continue
            if os.path.basename(root) == "include":
                inc.append("-I" + root)
                dirs[:] = []
    return inc


def compile_harness(src, out, extra=(), libs=("SimTKsimbody", "SimTKmath", "SimTKcommon"), opt="-O1"):
    """(Re)compile a harness against /repo's current headers and the hooks build."""
    os.makedirs(os.path.dirname(out), exist_ok=True)
    cmd = ["g++", "-std=c++17", opt, "-g", "-DNDEBUG", "-DSIMBODY_VERIF", "-Wno-deprecated-declarations"]
    cmd += include_flags() + list(extra) + [src, "-o", out, "-L" + BUILD]
    cmd += ["-l" + l for l in libs] + ["-lpthread", "-Wl,-rpath," + BUILD]
    r = subprocess.run(cmd, capture_output=True, text=True)
    if r.returncode != 0:
        sys.stdout.write(r.stderr[-6000:])
        raise Infra("harness compile failed: " + src)
    return out


class TLCResult:
    def __init__(self):
        self.rc = None
        self.out = ""
        self.states = 0
        self.distinct = 0
        self.depth = 0
        self.violated = None      # invariant / property name
        self.trace = []           # list of (n, header, text) counterexample states
        self.error = None
        self.wall = 0.0
        self.coverage = {}


def run_tlc(spec_dir, module, cfg, name, workers=8, timeout=600, extra=(), env=None, xmx="8g",
            simulate=None, deque=False, quiet=True):
    """Run TLC on spec_dir/module.tla with cfg; own metadir; parse the summary."""
    md = os.path.join(WORK, "tlc-" + name)
    shutil.rmtree(md, ignore_errors=True)
    os.makedirs(md, exist_ok=True)
    jopts = ["-XX:+UseParallelGC", "-Xmx" + xmx]
    if deque:
        jopts.append("-Dtlc2.tool.queue.IStateQueue=StateDeque")
    cmd = ["timeout", str(timeout), "java"] + jopts + ["-cp", TLAJARS, "tlc2.TLC",
           "-workers", str(workers), "-metadir", md, "-config", cfg, "-noGenerateSpecTE"]
    if simulate:
        cmd += ["-simulate", simulate]
    cmd += list(extra) + [module]
    e = dict(os.environ)
    if env:
        e.update(env)
    t0 = time.time()
    r = subprocess.run(cmd, cwd=spec_dir, capture_output=True, text=True, env=e)
    res = TLCResult()
    res.wall = time.time() - t0
    res.rc = r.returncode
    res.out = r.stdout + r.stderr
    with open(os.path.join(md, "tlc.out"), "w") as f:
        f.write(res.out)
    m = re.findall(r"(\d[\d,]*) states generated, (\d[\d,]*) distinct states found", res.out)
    if m:
        res.states = int(m[-1][0].replace(",", ""))
        res.distinct = int(m[-1][1].replace(",", ""))
    m = re.search(r"depth of the complete state graph search is (\d+)", res.out)
    if m:
        res.depth = int(m.group(1))
    m = re.search(r"Invariant (\S+) is violated", res.out)
    if m:
        res.violated = m.group(1)
    m = re.search(r"Temporal properties were violated|Action property (\S+) is violated", res.out)
    if m and not res.violated:
        res.violated = m.group(1) or "temporal"
    if "Deadlock reached" in res.out and not res.violated:
        res.violated = "Deadlock"
    if r.returncode == 124:
        res.error = "timeout"
    elif "Error:" in res.out and not res.violated:
        em = re.search(r"Error: (.*)", res.out)
        res.error = em.group(1) if em else "error"
    # counterexample states
    for sm in re.finditer(r"State (\d+): <([^\n]*)>\n(.*?)(?=\n\nState \d+:|\n\n\d+ states generated|\Z)",
                          res.out, re.S):
        res.trace.append((int(sm.group(1)), sm.group(2), sm.group(3)))
    shutil.rmtree(os.path.join(md, "states"), ignore_errors=True)
    for d in glob.glob(os.path.join(md, "*")):
        if os.path.isdir(d):
            shutil.rmtree(d, ignore_errors=True)
    return res


def rank_times(order):
    """Rank encoding of the real times of one execution (ascending list of distinct values): even
    numbers in time order (odd numbers are left for unrecorded times in the gaps)."""
    return {v: 2 * i for i, v in enumerate(order)}


def snap_backward_rounding(events, keys=("t", "lo")):
    """A returned state time that lies below the previous returned state time by less than the
    resolution of the integrators' own time arithmetic (1e-12 relative; CPodes itself treats
    closer times as 'too close' to tell apart) is the same instant computed with a last-bit
    difference (root-finding arithmetic), not time running backwards: snap it onto the earlier
    value before the times are ranked.  Larger decreases are left alone and are violations."""
    cur = None
    for e in events:
        if e.get("e") != "Ret" or not isinstance(e.get("t"), (int, float)):
            continue
        t = float(e["t"])
        if cur is not None and t < cur and cur - t <= 1e-12 * max(1.0, abs(cur)):
            for k in keys:
                if k in e and isinstance(e[k], (int, float)) and float(e[k]) == t:
                    e[k] = cur
            t = cur
        cur = t
    return events


def read_ndjson(path):
    """lines of a harness output file; a harness that dies may leave a truncated last line, which is dropped (the caller
    reports the death from the exit status / the missing results)"""
    out = []
    if os.path.exists(path):
        for l in open(path, errors="replace"):
            try:
                out.append(json.loads(l))
            except ValueError:
                break
    return out


def tla_strings(out, prefix):
    """Lines printed by PrintT(<string>) come out as a quoted TLA+ string; return the payloads
    that start with prefix."""
    res = []
    for line in out.splitlines():
        line = line.strip()
        if line.startswith('"') and line.endswith('"'):
            try:
                s = json.loads(line)
            except Exception:
                continue
            if s.startswith(prefix):
                res.append(s[len(prefix):])
    return res


# ---------------------------------------------------------------------------------------------
def load_known():
    """known_findings.txt: lines 'known: property=<id> key=<key> <text>' and
    'fixed: property=<id> <commit> <text>'."""
    known = []
    p = os.path.join(VERIF, "known_findings.txt")
    if os.path.exists(p):
        for line in open(p):
            line = line.strip()
            if line.startswith("known:"):
                m = re.match(r"known:\s+property=(\S+)\s+key=(\S+)\s+(.*)", line)
                if m:
                    known.append({"property": m.group(1), "key": m.group(2), "text": m.group(3)})
    return known


class Report:
    """Collects violations for one property; prints VIOLATION / KNOWN-FINDING lines."""

    def __init__(self, pid, tier):
        self.pid = pid
        self.tier = tier
        self.t0 = time.time()
        self.known = [k for k in load_known() if k["property"] == pid]
        self.violations = []     # (key, replay_path, text)
        self.known_hit = {}
        self.notes = []

    def violation(self, key, replay_obj, text):
        """key: specific identifier of what fails (history / call site / input)."""
        for k in self.known:
            if k["key"] == key:
                self.known_hit[key] = k["text"]
                return False
        d = os.path.join(VERIF, "replay")
        os.makedirs(d, exist_ok=True)
        h = hashlib.sha1((self.pid + key).encode()).hexdigest()[:10]
        path = os.path.join(d, "%s-%s.json" % (self.pid, h))
        with open(path, "w") as f:
            json.dump({"property": self.pid, "key": key, "text": text, "replay": replay_obj}, f, indent=1)
        if not any(k == key for k, _, _ in self.violations):
            self.violations.append((key, path, text))
        return True

    def finish(self, level, coverage, assumptions=()):
        for key, txt in self.known_hit.items():
            print("KNOWN-FINDING: property=%s %s [%s]" % (self.pid, txt, key))
        for key, path, text in self.violations:
            print("VIOLATION property=%s replay=%s" % (self.pid, path))
            print("  what: %s" % text[:600])
        ev = {"property_id": self.pid, "tier": self.tier, "seed": seed(), "level": level,
              "coverage": coverage, "assumptions": list(assumptions),
              "wall_s": round(time.time() - self.t0, 2), "violations": len(self.violations)}
        if self.known_hit:
            ev["coverage"]["known_findings_matched"] = sorted(self.known_hit)
        os.makedirs(os.path.join(VERIF, "evidence"), exist_ok=True)
        with open(os.path.join(VERIF, "evidence", self.pid + ".json"), "w") as f:
            json.dump(ev, f, indent=1)
        print("%s %s: %s (%.0fs)" % (self.pid, self.tier,
              "FAIL" if self.violations else "ok", time.time() - self.t0))
        return 1 if self.violations else 0
