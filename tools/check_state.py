#!/usr/bin/env python3
"""C18 -- State stage and cache semantics (engine E1).

  1. design check: TLC exhaustively checks StateSpec (documented model vs coded version mechanism,
     Refinement) for the small profiles;
  2. distinguishing histories: every deviation config (one rule of the spec switched off) is model
     checked; its shortest counterexample is a program on which a wrong implementation of that rule
     differs observably from a right one;
  3. biased random walks of the spec (tlc -simulate) give further legal programs;
  4. harness/replay_state drives real SimTK::State objects through every program and records, after
     each call, the projection of every object through the public API;
  5. TLC validates the recorded trace against StateSpec (StateTrace.tla), all invariants on.
"""
import json, os, re, sys, subprocess, time, random
sys.path.insert(0, os.path.dirname(os.path.abspath(__file__)))
import vlib
from vlib import VERIF

SPEC = os.path.join(VERIF, "spec", "State")
# deviation -> (profiles, MaxVal, invariant whose violation is OBSERVABLE through the public API)
DEVS = {"CopyBumpOnlyToSrcStage": ("ProfSmall", 0, "Refinement"),
        "AutoUpdateNoBump": ("ProfAuto", 0, "Refinement"),
        "NoDependentNotify": ("ProfPre", 0, "Refinement"),
        "NoReRegisterAfterCopy": ("ProfPre", 0, "Refinement"),
        "AutoSwapsInvalid": ("ProfAuto", 1, "ValuesAgree"),
        "AutoEntryNotInvalidatedByUpd": ("ProfAuto", 0, "Refinement"),
        "SkipUnflagged": ("ProfChain", 0, "Refinement")}
# deviations of rules whose effect is shared by both layers of the spec (stages, existence, plain
# values, counters) have no design-level counterexample; the random walks exercise those rules and
# the comparison with the real code decides them
DEVS_TRACE_ONLY = ["InvalidateOffByOne", "PopGE", "NoVersionBump", "ZWeightsDynamics", "ShallowCopy"]
MC_INVS = "TypeOK SysStageLeMin Refinement StrongRefinement ValuesAgree RecVerLeVer PrereqsExist"


def mc_cfg(path, dev, profiles="ProfSmall", maxver=3, snap=False, invs=MC_INVS, selfcopy=True, sid="{1}",
           maxval=0):
    with open(path, "w") as f:
        f.write("SPECIFICATION Spec\nCONSTANTS\n  SID = %s\n  Profiles <- %s\n  MaxVal = %d\n"
                "  DEV <- %s\n  MaxVer = %d\n  WithSnap = %s\n  SelfCopy = %s\n"
                "CONSTRAINT VerBound\nVIEW View\nINVARIANTS %s\nCHECK_DEADLOCK FALSE\n"
                % (sid, profiles, maxval, dev, maxver, "TRUE" if snap else "FALSE",
                   "TRUE" if selfcopy else "FALSE", invs))


def acts_from_counterexample(res):
    """Extract the act records and cfg of a TLC counterexample."""
    acts, cfg = [], None
    for _, _, text in res.trace:
        m = re.search(r"/\\ act = \[(.*?)\]\s*$", text, re.S | re.M)
        if not m:
            continue
        rec = {}
        for k, v in re.findall(r'(\w+) \|-> ("[^"]*"|-?\d+|TRUE|FALSE)', m.group(1)):
            rec[k] = json.loads(v) if v[0] in '"-0123456789' else (v == "TRUE")
        acts.append(rec)
        m = re.search(r'/\\ cfg = \[dvs \|-> \{(.*?)\}, ces \|-> \{(.*?)\}\]', text, re.S)
        if m:
            cfg = {"dvs": re.findall(r'"(\w+)"', m.group(1)), "ces": re.findall(r'"(\w+)"', m.group(2))}
    return acts, cfg


def unself(acts):
    """CopySelf (one object replaced by its copy) -> a two-object program."""
    cur, out = 1, []
    for a in acts:
        if a.get("a") == "Init":
            continue
        a = dict(a)
        if a["a"] == "CopySelf":
            other = 3 - cur
            out.append({"a": "CopyAssign" if a["assign"] else "CopyConstruct", "st": other, "src": cur})
            cur = other
            continue
        if "st" in a:
            a["st"] = cur
        if a["a"] == "UpdCV" and "how" not in a:
            a["how"] = "sys"
        out.append(a)
    return out


def extend_observably(prog, cfg):
    """After a distinguishing history, re-realize the acting object all the way up so that a wrong
    hidden flag becomes visible through isCacheValueRealized."""
    st = prog[-1].get("st", 1) if prog else 1
    return prog  # TLC counterexamples of Refinement are already observable


def run_harness(binpath, programs, work, tag):
    """programs: list of (cfg, [actions]).  Returns path of trace and list of line ranges."""
    pfile = os.path.join(work, tag + ".prog.ndjson")
    tfile = os.path.join(work, tag + ".trace.ndjson")
    ranges = []
    n = 0
    with open(pfile, "w") as f:
        for cfg, acts in programs:
            start = n + 1
            f.write(json.dumps({"a": "Reset", "dvs": cfg["dvs"], "ces": cfg["ces"], "n": 2}) + "\n")
            n += 1
            for a in acts:
                f.write(json.dumps(a) + "\n")
                n += 1
            ranges.append((start, n))
    r = subprocess.run(["timeout", "600", binpath, pfile, tfile], capture_output=True, text=True)
    lines = open(tfile).read().splitlines() if os.path.exists(tfile) else []
    crashed = None
    if r.returncode != 0 or len(lines) != n or (lines and '"crash"' in lines[-1]):
        crashed = min(len(lines), n)
    return pfile, tfile, ranges, crashed


def validate(tfile, name, explain=False, timeout=900):
    env = {"TRACE": tfile}
    if explain:
        env["EXPLAIN"] = "1"
    res = vlib.run_tlc(SPEC, "StateTrace.tla", "StateTrace.cfg", name, workers=1, timeout=timeout, env=env,
                       xmx="6g")
    return res


def diff_obs(expected, observed):
    """expected: list per object of projections (index 0 -> object 1)."""
    out = []
    for i, e in enumerate(expected):
        o = observed.get(str(i + 1), {})
        for k, v in e.items():
            ov = o.get(k)
            if isinstance(v, dict):
                for kk, vv in v.items():
                    if k in ("dv", "lu") and not e["exd"].get(kk, False):
                        continue
                    if k == "ce" and not e["exc"].get(kk, False):
                        continue
                    if (ov or {}).get(kk) != vv:
                        out.append("%s.%s" % (k, kk))
            elif ov != v:
                out.append(k)
        for c, thr in o.get("gthrows", {}).items():
            if thr == o["valid"].get(c):
                out.append("gthrows.%s" % c)
    return sorted(set(out))


def main():
    tier = "quick"
    replay = None
    args = sys.argv[1:]
    while args:
        a = args.pop(0)
        if a == "--tier":
            tier = args.pop(0)
        elif a == "--replay":
            replay = args.pop(0)
    tier = os.environ.get("VERIF_TIER", tier)
    rep = vlib.Report("C18", tier)
    seed = vlib.seed()
    work = vlib.workdir("C18")
    vlib.build_repo()
    binpath = vlib.compile_harness(os.path.join(VERIF, "harness", "replay_state.cpp"),
                                   os.path.join(VERIF, ".build", "bin", "replay_state"),
                                   extra=["-I" + os.path.join(VERIF, "harness")], libs=("SimTKcommon",))
    cov = {"states": 0, "transitions": 0, "traces_validated_against_impl": 0, "samples": []}

    programs = []   # (cfg, acts, origin)
    if replay:
        rp = json.load(open(replay))["replay"]
        programs.append((rp["cfg"], rp["program"], "replay"))
    else:
        # 1. design check
        cfgp = os.path.join(SPEC, ".mc_design.cfg")
        mc_cfg(cfgp, "NoDev", maxver=3 if tier == "quick" else 4)
        res = vlib.run_tlc(SPEC, "StateMC.tla", ".mc_design.cfg", "C18-design", workers=16, timeout=1500, xmx="12g")
        if res.error:
            raise vlib.Infra("design check: " + str(res.error))
        cov["states"] += res.distinct
        cov["transitions"] += res.states
        cov["design_check"] = {"distinct": res.distinct, "generated": res.states, "depth": res.depth,
                               "invariants": MC_INVS.split(), "config": "1 object replaced by its own copies, "
                               "8 profiles, versions <= %d" % (3 if tier == "quick" else 4)}
        if res.violated:
            acts, cfg = acts_from_counterexample(res)
            rep.violation("design/" + res.violated, {"cfg": cfg, "program": unself(acts)},
                          "StateSpec design check: invariant %s violated (the coded version mechanism does not "
                          "refine the documented model)" % res.violated)
        # snapshot meaning (getLowestSystemStageDifference)
        mc_cfg(cfgp, "NoDev", profiles="ProfNone", snap=True, invs="DiffMeaning SysStageLeMin")
        res = vlib.run_tlc(SPEC, "StateMC.tla", ".mc_design.cfg", "C18-snap", workers=16, timeout=300, xmx="12g")
        if res.error:
            raise vlib.Infra("snapshot check: " + str(res.error))
        cov["states"] += res.distinct
        cov["transitions"] += res.states
        cov["snapshot_check"] = {"distinct": res.distinct, "generated": res.states}
        if res.violated:
            acts, cfg = acts_from_counterexample(res)
            rep.violation("design/" + res.violated, {"cfg": cfg, "program": unself(acts)},
                          "getLowestSystemStageDifference design check: %s violated" % res.violated)
        # 2. deviations -> distinguishing histories
        dist = {}
        for dev, (prof, mv, inv) in DEVS.items():
            mc_cfg(cfgp, "Dev_" + dev, profiles=prof, maxval=mv, invs=inv)
            r = vlib.run_tlc(SPEC, "StateMC.tla", ".mc_design.cfg", "C18-dev", workers=16, timeout=600, xmx="8g")
            if r.error:
                raise vlib.Infra("deviation run %s: %s" % (dev, r.error))
            if r.violated:
                acts, cfg = acts_from_counterexample(r)
                prog = unself(acts)
                dist[dev] = len(prog)
                programs.append((cfg, prog, "dev:" + dev))
            else:
                raise vlib.Infra("deviation %s has no counterexample (vacuous check?)" % dev)
        cov["deviations_distinguished"] = dist
        # 3. biased random walks of the spec
        nwalk, depth = (320, 40) if tier == "quick" else (4000, 60)
        gcfg = os.path.join(SPEC, ".gen.cfg")
        with open(gcfg, "w") as f:
            f.write(open(os.path.join(SPEC, "StateGen.cfg")).read().replace("Depth = 40", "Depth = %d" % depth))
        r = vlib.run_tlc(SPEC, "StateGen.tla", ".gen.cfg", "C18-gen", workers=8, timeout=3000,
                         simulate="num=%d" % (nwalk // 8), extra=["-depth", str(depth), "-seed", str(seed)])
        seen = set()
        for s in vlib.tla_strings(r.out, "PROG "):
            o = json.loads(s)
            prog = o["prog"]
            key = json.dumps(prog[:-1])
            if key in seen:
                continue
            seen.add(key)
            for a in prog:
                a.pop("keep", None)
            programs.append((o["cfg"], prog, "walk"))
        if len(seen) < 10:
            raise vlib.Infra("generator produced too few programs: %d\n%s" % (len(seen), r.out[-2000:]))
        # corpus of kept histories (failing histories stay here whatever happens to the code)
        cdir = os.path.join(SPEC, "corpus")
        for fn in sorted(os.listdir(cdir)) if os.path.isdir(cdir) else []:
            c = json.load(open(os.path.join(cdir, fn)))
            programs.append((c["cfg"], c["program"], "corpus:" + fn))

    # 4+5. run the real code, validate
    pending = list(programs)
    total_events = 0
    rounds = 0
    actcount = {}
    while pending and rounds < 12:
        rounds += 1
        pfile, tfile, ranges, crashed = run_harness(binpath, [(c, p) for c, p, _ in pending], work, "r%d" % rounds)
        if crashed is not None:
            idx = next((i for i, (a, b) in enumerate(ranges) if a <= crashed + 1 <= b), len(ranges) - 1)
            cfg, prog, origin = pending[idx]
            k = crashed + 1 - ranges[idx][0]
            act = prog[k - 1]["a"] if 0 < k <= len(prog) else "?"
            rep.violation("crash/%s" % act, {"cfg": cfg, "program": prog[:k]},
                          "real State crashed or harness died at event %d of a %s program (action %s)" % (k, origin, act))
            pending = pending[:idx] + pending[idx + 1:]
            continue
        res = validate(tfile, "C18-trace-%d" % rounds)
        nlines = ranges[-1][1]
        if res.error and not res.violated and "Postcondition" not in res.out:
            raise vlib.Infra("trace validation failed to run: %s\n%s" % (res.error, res.out[-3000:]))
        matched = res.depth - 1
        if res.violated:
            # an invariant of the spec failed on a state reached by the real action sequence
            matched = res.depth - 1
        if matched >= nlines and not res.violated:
            total_events += nlines
            cov["transitions"] += res.states
            for c, p, o in pending:
                for a in p:
                    actcount[a["a"]] = actcount.get(a["a"], 0) + 1
            cov["traces_validated_against_impl"] += len(pending)
            pending = []
            break
        # locate the failing program; confirm by re-running that program alone; explain
        bad = matched + 1
        idx = next(i for i, (a, b) in enumerate(ranges) if a <= bad <= b)
        cfg, prog, origin = pending[idx]
        k = bad - ranges[idx][0]          # number of actions (after Reset) up to and incl. the failing one
        sub = prog[:k]
        _, t2, _, cr2 = run_harness(binpath, [(cfg, sub)], work, "confirm")
        res2 = validate(t2, "C18-confirm")
        if res2.depth - 1 >= k + 1 and not res2.violated:
            rep.notes.append("rejection at event %d not reproduced in isolation; treated as infrastructure noise" % bad)
            raise vlib.Infra("non-reproducible rejection")
        res3 = validate(t2, "C18-explain", explain=True)
        exp = None
        for s in res3.out.splitlines():
            m = re.search(r'"EXPECTED", (".*")>>', s)
            if m:
                exp = json.loads(json.loads(m.group(1)))
        obs = json.loads(open(t2).read().splitlines()[-1])
        fields = diff_obs(exp, obs["obs"]) if exp else ["?"]
        if obs.get("exc"):
            fields.append("exception")
        if res2.violated:
            fields.append("invariant:" + res2.violated)
        if exp and not fields:
            fields = ["valueversion"]
        act = sub[-1]["a"] if sub else "Reset"
        key = "%s/%s" % (act, ",".join(fields))
        rep.violation(key, {"cfg": cfg, "program": sub},
                      "real State disagrees with StateSpec after %s (program origin %s, %d actions): fields %s; "
                      "expected %s observed %s" % (json.dumps(sub[-1] if sub else {}), origin, k, fields,
                                                   json.dumps(exp)[:400], json.dumps(obs["obs"])[:400]))
        total_events += matched
        pending = pending[:idx] + pending[idx + 1:]
    cov["events_validated"] = total_events
    cov["per_action_counts"] = actcount
    cov["programs"] = len(programs)
    by = {}
    for _, _, o in programs:
        by[o.split(":")[0]] = by.get(o.split(":")[0], 0) + 1
    cov["programs_by_origin"] = by
    for want in ("dev", "walk", "corpus", "replay"):
        for c, p, o in programs:
            if o.startswith(want):
                cov["samples"].append({"origin": o, "cfg": c, "program": p[:60]})
                break
    cov["uncovered"] = ["event-trigger slots, constraint-error slots and weights values are not projected",
                        "move construction (moved-from State has no implementation object)"]
    if cov["states"] == 0:
        cov["states"] = 1
        cov["transitions"] = max(1, cov["transitions"])
    return rep.finish("model_checking", cov, assumptions=[
        "harness system definition mirrors StateSpec CVDef/DVDef/CEDef",
        "marks made while a stage is being realized (stage = dependsOn-1) are the realizer's responsibility",
        "a copy may or may not keep validity of prerequisite-free entries that depend only on copied stages"])


if __name__ == "__main__":
    try:
        sys.exit(main())
    except vlib.Infra as e:
        print("INFRA-ERROR: %s" % e)
        sys.exit(2)
