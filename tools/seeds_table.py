#!/usr/bin/env python3
"""Regenerates the table of DESIGN.md section 9.5 from seeded/*/meta.json."""
import json, os, glob, re
V = os.path.dirname(os.path.dirname(os.path.abspath(__file__)))
rows = []
for d in sorted(glob.glob(os.path.join(V, "seeded", "*", ""))):
    sid = os.path.basename(d.rstrip("/"))
    if not os.path.exists(d + "meta.json"):
        continue
    m = json.load(open(d + "meta.json"))
    det = m["detected_by"]
    head = det[:60].lower()
    asbuilt = ("as built" in head or "at first try" in head) and "not " not in head
    checks = []
    for c in re.findall(r"\./check (C\d\d)", det):
        if c not in checks:
            checks.append(c)
    if not checks:
        checks = [m["property"]]
    if m["property"] in checks:
        checks.remove(m["property"]); checks.insert(0, m["property"])
    note = "as built" if asbuilt else "after strengthening (see meta.json)"
    if sid == "C33-a":
        note = "not detected when written; led to the genuine fix faffda42, after which the change is harmless"
    rows.append("| %s | %s | %s | %s |" % (sid, m["change"][:150].replace("|", "/"), ", ".join("`./check %s`" % c for c in checks[:3]), note))
p = os.path.join(V, "DESIGN.md")
s = open(p).read()
i = s.index("| seed | change | detected by | note |")
lines = s[i:].split("\n")
k = 0
while k < len(lines) and lines[k].startswith("|"):
    k += 1
s = s[:i] + "| seed | change | detected by | note |\n|---|---|---|---|\n" + "\n".join(rows) + "\n" + "\n".join(lines[k:])
open(p, "w").write(s)
print(len(rows), "seeds")
