// E7 harness: builds the MultibodySystem described by a lattice configuration (chain of Pin / Slider /
// Weld mobilizers with lattice frames, integer mass properties), sets the lattice coordinates and
// integer speeds, and reports what the real code computes; the checker compares with the exact
// rationals TLC computed from spec/Lattice/LatticeMech.tla.
// usage: replay_lattice <configs.ndjson> <out.ndjson>
#include "Simbody.h"
#include "mini_json.h"
#include <fstream>
#include <sstream>
#include <memory>
using namespace SimTK;
using std::string;

static const double THETA = std::atan2(4.0, 3.0);
static double angleOf(const mj::Value& a) { return a["k"].num() * (Pi / 2) + a["m"].num() * THETA; }
static Rotation frameRot(const mj::Value& f) {
    const string ax = f["ax"].str();
    if (ax == "i") return Rotation();
    if (ax == "x") return Rotation(angleOf(f), XAxis);
    if (ax == "y") return Rotation(angleOf(f), YAxis);
    return Rotation(angleOf(f), ZAxis);
}
static Vec3 vec(const mj::Value& v) { return Vec3(v[0].dbl(), v[1].dbl(), v[2].dbl()); }
static string num(double x) { if (x != x) return "NaN"; if (x > 1e308) return "Infinity"; if (x < -1e308) return "-Infinity"; char b[40]; snprintf(b, sizeof b, "%.17g", x); return b; }
static string jv(const Vec3& v) { return "[" + num(v[0]) + "," + num(v[1]) + "," + num(v[2]) + "]"; }
static string jm(const Mat33& m) { return "[" + jv(Vec3(m(0,0), m(0,1), m(0,2))) + "," + jv(Vec3(m(1,0), m(1,1), m(1,2))) + "," + jv(Vec3(m(2,0), m(2,1), m(2,2))) + "]"; }

int main(int argc, char** argv) {
    if (argc < 3) return 2;
    std::ifstream in(argv[1]);
    FILE* out = fopen(argv[2], "w");
    string line; int lineno = 0;
    while (std::getline(in, line)) {
        ++lineno;
        mj::Value c = mj::parse(line.c_str());
        if (!c.isObject()) continue;
        std::ostringstream js;
        js << "{\"i\":" << lineno;
        try {
            MultibodySystem system; SimbodyMatterSubsystem matter(system); GeneralForceSubsystem forces(system);
            std::vector<MobilizedBody> mb; mb.push_back(matter.Ground());
            const int N = (int)c["desc"].size();
            for (int i = 0; i < N; ++i) {
                const mj::Value& d = c["desc"][i];
                const double m = d["mass"].dbl(); const Vec3 com = vec(d["com"]);
                Mat33 Ic(0); Ic(0,0) = d["ic"][0].dbl(); Ic(1,1) = d["ic"][1].dbl(); Ic(2,2) = d["ic"][2].dbl();
                // inertia about the body origin from the central inertia (parallel axis), computed here
                Mat33 Io = Ic + m * (dot(com, com) * Mat33(1) - outer(com, com));
                Body::Rigid body(MassProperties(m, com, Inertia(Io)));
                const Transform XPF(frameRot(d["RF"]), vec(d["pF"])), XBM(frameRot(d["RM"]), vec(d["pM"]));
                const string t = d["type"].str();
                MobilizedBody& P = mb[(int)d["parent"].num()];
                const MobilizedBody::Direction dir = d["rev"].num() ? MobilizedBody::Reverse : MobilizedBody::Forward;
                if (d.has("fb") && d["fb"].num()) {
                    // the same mobilizer through the user-defined route: FunctionBased with linear functions of the coordinates.
                    // slots: x, y, z rotation (body-fixed sequence), x, y, z translation; slot -> coordinate index (or -1)
                    int slot[6] = {-1, -1, -1, -1, -1, -1}; int nm = 0;
                    if (t == "pin") { slot[2] = 0; nm = 1; } else if (t == "slider") { slot[3] = 0; nm = 1; }
                    else if (t == "universal") { slot[0] = 0; slot[1] = 1; nm = 2; } else if (t == "cylinder") { slot[2] = 0; slot[5] = 1; nm = 2; }
                    else if (t == "planar") { slot[2] = 0; slot[3] = 1; slot[4] = 2; nm = 3; } else if (t == "translation") { slot[3] = 0; slot[4] = 1; slot[5] = 2; nm = 3; }
                    else if (t == "gimbal") { slot[0] = 0; slot[1] = 1; slot[2] = 2; nm = 3; }
                    else if (t == "bushing") { for (int k = 0; k < 6; ++k) slot[k] = k; nm = 6; }
                    else if (t == "euler5") { for (int k = 0; k < 5; ++k) slot[k] = k; nm = 5; }
                    else throw std::runtime_error("no FunctionBased route for " + t);
                    std::vector<const Function*> fn; std::vector<std::vector<int>> ci;
                    for (int k = 0; k < 6; ++k) {
                        if (slot[k] < 0) { fn.push_back(new Function::Constant(0, 0)); ci.push_back(std::vector<int>()); }
                        else { Vector co(2); co[0] = 1; co[1] = 0; fn.push_back(new Function::Linear(co)); ci.push_back(std::vector<int>(1, slot[k])); }
                    }
                    mb.push_back(MobilizedBody::FunctionBased(P, XPF, body, XBM, nm, fn, ci, dir));
                }
                else if (t == "pin") mb.push_back(MobilizedBody::Pin(P, XPF, body, XBM, dir));
                else if (t == "slider") mb.push_back(MobilizedBody::Slider(P, XPF, body, XBM, dir));
                else if (t == "universal") mb.push_back(MobilizedBody::Universal(P, XPF, body, XBM, dir));
                else if (t == "cylinder") mb.push_back(MobilizedBody::Cylinder(P, XPF, body, XBM, dir));
                else if (t == "bendstretch") mb.push_back(MobilizedBody::BendStretch(P, XPF, body, XBM, dir));
                else if (t == "planar") mb.push_back(MobilizedBody::Planar(P, XPF, body, XBM, dir));
                else if (t == "translation") mb.push_back(MobilizedBody::Translation(P, XPF, body, XBM, dir));
                else if (t == "gimbal") mb.push_back(MobilizedBody::Gimbal(P, XPF, body, XBM, dir));
                else if (t == "bushing") mb.push_back(MobilizedBody::Bushing(P, XPF, body, XBM, dir));
                else if (t == "spherical") { const mj::Value& o = d["opt"];
                    mb.push_back(MobilizedBody::SphericalCoords(P, XPF, body, XBM, angleOf(o["azOff"]), o["azNeg"].num() != 0, angleOf(o["zeOff"]), o["zeNeg"].num() != 0,
                                                                o["axis"].str() == "x" ? CoordinateAxis(0) : CoordinateAxis(2), o["rNeg"].num() != 0, dir)); }
                else if (t == "ellipsoid" || t == "ellipsoide") mb.push_back(MobilizedBody::Ellipsoid(P, XPF, body, XBM, vec(d["opt"]["radii"]), dir));
                else if (t == "lineori" || t == "lineorie") mb.push_back(MobilizedBody::LineOrientation(P, XPF, body, XBM, dir));
                else if (t == "freeline" || t == "freelinee") mb.push_back(MobilizedBody::FreeLine(P, XPF, body, XBM, dir));
                else if (t == "ball" || t == "balle") mb.push_back(MobilizedBody::Ball(P, XPF, body, XBM, dir));
                else if (t == "free" || t == "freee") mb.push_back(MobilizedBody::Free(P, XPF, body, XBM, dir));
                else if (t == "weld") mb.push_back(MobilizedBody::Weld(P, XPF, body, XBM));
                else throw std::runtime_error("unknown mobilizer type " + t);
            }
            Force::DiscreteForces applied(forces, matter);
            // constraints (spec: cons), all disabled by default so that the unconstrained phases are unaffected
            std::vector<Constraint> cons;
            auto axisOf = [&](const mj::Value& a) { const double sc = std::pow(5.0, a["e"].dbl()); return UnitVec3(Vec3(a["n"][0].dbl() / sc, a["n"][1].dbl() / sc, a["n"][2].dbl() / sc)); };
            for (auto& k : c["cons"].arr()) {
                const string t = k["type"].str(); MobilizedBody& b1 = mb[(int)k["b1"].num()];
                const bool rt = k.has("rt") && k["rt"].num() != 0;      // built with decoy defaults; the real parameters are set in the State
                if (k.has("weld")) {     // six spec entries (three orientation, three position equations), one library Weld
                    if (k["part"].num() == 0) { cons.push_back(Constraint::Weld(b1, Transform(frameRot(k["RB"]), vec(k["pB"])), mb[(int)k["b2"].num()], Transform(frameRot(k["RF"]), vec(k["pF"])))); cons.back().setDisabledByDefault(true); }
                    else cons.push_back(Constraint());
                    continue;
                }
                if (t == "ballc") {      // one library Ball for the three spec entries
                    if (k["part"].num() == 0) { cons.push_back(Constraint::Ball(b1, vec(k["st"]) + (rt ? Vec3(1, -1, 2) : Vec3(0)), mb[(int)k["b2"].num()], vec(k["st2"]) + (rt ? Vec3(-2, 1, 1) : Vec3(0)))); cons.back().setDisabledByDefault(true); }
                    else cons.push_back(Constraint());
                    continue;
                }
                if (t == "cang" && k.has("grp")) {      // part of a ConstantOrientation: one library constraint for the three spec entries
                    if (k["part"].num() == 0) { cons.push_back(Constraint::ConstantOrientation(b1, frameRot(k["RB"]), mb[(int)k["b2"].num()], frameRot(k["RF"]))); cons.back().setDisabledByDefault(true); }
                    else cons.push_back(Constraint());       // placeholder (empty handle) keeping the indices aligned
                    continue;
                }
                if (t == "pip") cons.push_back(Constraint::PointInPlane(b1, axisOf(k["n"]), k["h"].dbl(), mb[(int)k["b2"].num()], vec(k["st"])));
                else if (t == "cang") cons.push_back(Constraint::ConstantAngle(b1, axisOf(k["a1"]), mb[(int)k["b2"].num()], axisOf(k["a2"]), std::acos(k["cosn"].dbl() / std::pow(5.0, k["cose"].dbl()))));
                else if (t == "cspeed") cons.push_back(Constraint::ConstantSpeed(b1, MobilizerUIndex((int)k["k"].num() - 1), k["s"].dbl() + (rt ? 3 : 0)));
                else if (t == "noslip") cons.push_back(Constraint::NoSlip1D(b1, vec(k["st"]) + (rt ? Vec3(1, 2, -1) : Vec3(0)), rt ? UnitVec3(Vec3(1, 2, 2)) : axisOf(k["n"]), mb[(int)k["b2"].num()], mb[(int)k["b3"].num()]));
                else if (t == "ccoord") cons.push_back(Constraint::ConstantCoordinate(b1, MobilizerQIndex((int)k["k"].num() - 1), k["s"].dbl() + (rt ? -2 : 0)));
                else if (t == "cacc") cons.push_back(Constraint::ConstantAcceleration(b1, MobilizerUIndex((int)k["k"].num() - 1), k["s"].dbl() + (rt ? 5 : 0)));
                else if (t == "rod") cons.push_back(Constraint::Rod(b1, vec(k["st"]) + (rt ? Vec3(1, 1, -2) : Vec3(0)), mb[(int)k["b2"].num()], vec(k["st2"]) + (rt ? Vec3(2, -1, 1) : Vec3(0)), k["d"].dbl() + (rt ? 2 : 0)));
                else throw std::runtime_error("unknown constraint type " + t);
                cons.back().setDisabledByDefault(true);
            }
            // force elements (spec: felems), all disabled by default so that the other phases see none of them
            std::vector<Force> fel;
            std::unique_ptr<CableTrackerSubsystem> cables;
            for (auto& e : c["felems"].arr()) if (e["type"].str() == "cable" && !cables) cables.reset(new CableTrackerSubsystem(system));
            for (auto& e : c["felems"].arr()) {
                const string t = e["type"].str();
                if (t == "gravity") fel.push_back(Force::Gravity(forces, matter, vec(e["g"])));
                else if (t == "ugravity") fel.push_back(Force::UniformGravity(forces, matter, vec(e["g"]), 0));
                else if (t == "cforce") fel.push_back(Force::ConstantForce(forces, mb[(int)e["b"].num()], vec(e["st"]), vec(e["f"])));
                else if (t == "ctorque") fel.push_back(Force::ConstantTorque(forces, mb[(int)e["b"].num()], vec(e["f"])));
                else if (t == "mcf") fel.push_back(Force::MobilityConstantForce(forces, mb[(int)e["b"].num()], MobilizerUIndex((int)e["k"].num() - 1), e["c"].dbl()));
                else if (t == "mls") fel.push_back(Force::MobilityLinearSpring(forces, mb[(int)e["b"].num()], MobilizerQIndex((int)e["k"].num() - 1), e["c"].dbl(), e["q0"].dbl()));
                else if (t == "mld") fel.push_back(Force::MobilityLinearDamper(forces, mb[(int)e["b"].num()], MobilizerUIndex((int)e["k"].num() - 1), e["c"].dbl()));
                else if (t == "gdamper") fel.push_back(Force::GlobalDamper(forces, matter, e["c"].dbl()));
                else if (t == "tpls") fel.push_back(Force::TwoPointLinearSpring(forces, mb[(int)e["b"].num()], vec(e["st"]), mb[(int)e["b2"].num()], vec(e["st2"]), e["c"].dbl(), e["x0"].dbl()));
                else if (t == "tpld") fel.push_back(Force::TwoPointLinearDamper(forces, mb[(int)e["b"].num()], vec(e["st"]), mb[(int)e["b2"].num()], vec(e["st2"]), e["c"].dbl()));
                else if (t == "lbush") {      // a LinearBushing across the Bushing mobilizer of body e.b, on that mobilizer's own frames
                    const int b = (int)e["b"].num(); const mj::Value& d = c["desc"][b - 1];
                    const Transform XPF(frameRot(d["RF"]), vec(d["pF"])), XBM(frameRot(d["RM"]), vec(d["pM"]));
                    Vec6 kk, cc; for (int i = 0; i < 6; ++i) { kk[i] = e["k6"][i].dbl(); cc[i] = e["c6"][i].dbl(); }
                    fel.push_back(Force::LinearBushing(forces, mb[(int)d["parent"].num()], XPF, mb[b], XBM, kk, cc));
                }
                else if (t == "cable") {      // a cable through points on bodies; disabled via points are obstacles disabled by default
                    const mj::Value& pts = e["pts"]; const int np = (int)pts.size();
                    CablePath path(*cables, mb[(int)pts[0]["b"].num()], vec(pts[0]["st"]), mb[(int)pts[np - 1]["b"].num()], vec(pts[np - 1]["st"]));
                    for (int i = 1; i + 1 < np; ++i) { CableObstacle::ViaPoint vp(path, mb[(int)pts[i]["b"].num()], vec(pts[i]["st"])); if (!pts[i]["on"].num()) vp.setDisabledByDefault(true); }
                    fel.push_back(CableSpring(forces, path, e["c"].dbl(), e["x0"].dbl(), e["diss"].dbl()));
                }
                else if (t == "tpcf") fel.push_back(Force::TwoPointConstantForce(forces, mb[(int)e["b"].num()], vec(e["st"]), mb[(int)e["b2"].num()], vec(e["st2"]), e["c"].dbl()));
                else throw std::runtime_error("unknown force element " + t);
                fel.back().setDisabledByDefault(true);
            }
            system.realizeTopology();
            State s = system.getDefaultState();
            if (c.has("euler") && c["euler"].num()) matter.setUseEulerAngles(s, true);
            system.realizeModel(s);
            // coordinate kinds per type: a = lattice angle, l = length, c = quaternion component
            auto setCoords = [&](State& st, const mj::Value& Q, const mj::Value& U) {
                for (int i = 0; i < N; ++i) {
                    const string t = c["desc"][i]["type"].str();
                    const string kinds = t == "pin" ? "a" : t == "slider" ? "l" : t == "universal" ? "aa" : t == "cylinder" ? "al"
                        : t == "bendstretch" ? "al" : t == "planar" ? "all" : t == "translation" ? "lll" : t == "gimbal" ? "aaa"
                        : t == "euler5" ? "aaall" : t == "bushing" ? "aaalll" : t == "ball" ? "cccc" : t == "free" ? "cccclll" : t == "balle" ? "aaa" : t == "freee" ? "aaalll"
                        : t == "spherical" ? "aal" : t == "ellipsoid" ? "cccc" : t == "ellipsoide" ? "aaa"
                        : t == "lineori" ? "cccc" : t == "lineorie" ? "aaa" : t == "freeline" ? "cccclll" : t == "freelinee" ? "aaalll" : "";
                    if ((int)kinds.size() != mb[i + 1].getNumQ(st)) throw std::runtime_error("nq mismatch for " + t);
                    for (int k = 0; k < (int)kinds.size(); ++k) {
                        const mj::Value& qk = Q[i][k];
                        const double v = kinds[k] == 'a' ? angleOf(qk) : kinds[k] == 'l' ? qk["k"].dbl() : qk["k"].dbl() / std::pow(5.0, qk["m"].dbl());
                        mb[i + 1].setOneQ(st, k, v);
                    }
                    for (int k = 0; k < mb[i + 1].getNumU(st); ++k) mb[i + 1].setOneU(st, k, U[i][k].dbl());
                }
            };
            setCoords(s, c["q"], c["u"]);
            system.realize(s, Stage::Velocity);
            js << ",\"X\":[";
            for (int i = 1; i <= N; ++i) { const Transform& X = mb[i].getBodyTransform(s); js << (i > 1 ? "," : "") << "{\"R\":" << jm(X.R().asMat33()) << ",\"p\":" << jv(X.p()) << "}"; }
            js << "],\"V\":[";
            for (int i = 1; i <= N; ++i) { const SpatialVec& V = mb[i].getBodyVelocity(s); js << (i > 1 ? "," : "") << "{\"w\":" << jv(V[0]) << ",\"v\":" << jv(V[1]) << "}"; }
            js << "]";
            // explicit mass matrix, in u order (= body order, the spec's Dofs order)
            const int nu = s.getNU();
            Matrix M; matter.calcM(s, M);
            js << ",\"M\":[";
            for (int j = 0; j < nu; ++j) { js << (j ? "," : "") << "[";
                for (int k = 0; k < nu; ++k) js << (k ? "," : "") << num(M(j, k));
                js << "]"; }
            js << "]";
            // operator forms against the explicit matrix and the reported velocities
            const Vector& u = s.getU();
            double errMu = 0, errMinv = 0, errMinvM = 0, errJ = 0, errJT = 0, errStation = 0;
            if (nu) {
                Vector Mu; matter.multiplyByM(s, u, Mu);
                errMu = (Mu - M * u).normInf();
                Vector MinvMu; matter.multiplyByMInv(s, Mu, MinvMu);
                errMinv = (MinvMu - u).normInf();
                Matrix MInv; matter.calcMInv(s, MInv);
                Matrix P = MInv * M; for (int j = 0; j < nu; ++j) P(j, j) -= 1;
                for (int j = 0; j < nu; ++j) for (int k = 0; k < nu; ++k) errMinvM = std::max(errMinvM, std::abs(P(j, k)));
                // a second probe vector e = (1, -2, 3, ...)
                Vector e(nu); for (int j = 0; j < nu; ++j) e[j] = (j % 2 ? -1.0 : 1.0) * (j + 1);
                Vector Me; matter.multiplyByM(s, e, Me); errMu = std::max(errMu, (Me - M * e).normInf());
                Vector MiMe; matter.multiplyByMInv(s, Me, MiMe); errMinv = std::max(errMinv, (MiMe - e).normInf());
            }
            Vector_<SpatialVec> Ju; matter.multiplyBySystemJacobian(s, u, Ju);
            for (int i = 1; i <= N; ++i) { const SpatialVec d = Ju[mb[i].getMobilizedBodyIndex()] - mb[i].getBodyVelocity(s); errJ = std::max(errJ, std::max(d[0].norm(), d[1].norm())); }
            {   // adjoint: <F, J u> = <J'F, u> for an integer spatial force pattern; explicit J against the operator
                Vector_<SpatialVec> F(matter.getNumBodies());
                for (int b = 0; b < matter.getNumBodies(); ++b) F[b] = SpatialVec(Vec3(b + 1, -2, b % 2), Vec3(1, b, -3));
                Vector JtF; matter.multiplyBySystemJacobianTranspose(s, F, JtF);
                double lhs = 0; for (int b = 0; b < matter.getNumBodies(); ++b) lhs += ~F[b][0] * Ju[b][0] + ~F[b][1] * Ju[b][1];
                const double rhs = nu ? ~JtF * u : 0.0;
                errJT = std::abs(lhs - rhs);
                // station Jacobian on the last body: J_S u = station velocity
                const Vec3 st(1, -2, 3);
                Vec3 vS = matter.multiplyByStationJacobian(s, mb[N].getMobilizedBodyIndex(), st, u);
                errStation = (vS - mb[N].findStationVelocityInGround(s, st)).norm();
                if (nu) { Matrix JS; matter.calcStationJacobian(s, mb[N].getMobilizedBodyIndex(), st, JS);
                          Vector r = JS * u; errStation = std::max(errStation, (Vec3(r[0], r[1], r[2]) - vS).norm()); }
            }
            js << ",\"errMu\":" << num(errMu) << ",\"errMinv\":" << num(errMinv) << ",\"errMinvM\":" << num(errMinvM)
               << ",\"errJ\":" << num(errJ) << ",\"errJT\":" << num(errJT) << ",\"errStation\":" << num(errStation);
            js << ",\"ke2\":" << num(2 * system.calcKineticEnergy(s));
            const SpatialVec mom = matter.calcSystemMomentumAboutGroundOrigin(s);
            js << ",\"P\":" << jv(mom[1]) << ",\"L\":" << jv(mom[0]);
            const double mass = matter.calcSystemMass(s);
            const Vec3 C = matter.calcSystemMassCenterLocationInGround(s);
            js << ",\"mass\":" << num(mass) << ",\"mcom\":" << jv(mass * C);
            js << ",\"vcom\":" << jv(mass * matter.calcSystemMassCenterVelocityInGround(s));
            {   // inertia about the Ground origin from the reported central inertia (parallel axis, computed here)
                const Mat33 IC = matter.calcSystemCentralInertiaInGround(s).toMat33();
                const Mat33 IO = IC + mass * (dot(C, C) * Mat33(1) - outer(C, C));
                js << ",\"IO\":" << jm(IO);
                // momentum about the mass centre = L_O - C x P
                const SpatialVec mc = matter.calcSystemCentralMomentum(s);
                js << ",\"Lc\":" << jv(mc[0] + C % mom[1]);
            }
            if (c["dyn"].num()) {
                // inverse dynamics with udot = 0 and no applied forces: the residual is the inertial bias
                system.realize(s, Stage::Dynamics);
                Vector residual; matter.calcResidualForceIgnoringConstraints(s, Vector(), Vector_<SpatialVec>(), Vector(), residual);
                js << ",\"bias\":[";
                for (int j = 0; j < nu; ++j) js << (j ? "," : "") << num(residual[j]);
                js << "]";
                // body accelerations for udot = 0: A = Jdot u
                Vector_<SpatialVec> A0; matter.calcBodyAccelerationFromUDot(s, Vector(), A0);
                Vector_<SpatialVec> Jdu; matter.calcBiasForSystemJacobian(s, Jdu);
                double errJdot = 0;
                js << ",\"A0\":[";
                for (int i = 1; i <= N; ++i) { const SpatialVec& A = A0[mb[i].getMobilizedBodyIndex()];
                    const SpatialVec d = A - Jdu[mb[i].getMobilizedBodyIndex()]; errJdot = std::max(errJdot, std::max(d[0].norm(), d[1].norm()));
                    js << (i > 1 ? "," : "") << "{\"aw\":" << jv(A[0]) << ",\"a\":" << jv(A[1]) << "}"; }
                js << "],\"errJdot\":" << num(errJdot);
                // forward dynamics with no applied forces: M udot + bias = 0
                system.realize(s, Stage::Acceleration);
                js << ",\"udot\":[";
                for (int j = 0; j < nu; ++j) js << (j ? "," : "") << num(s.getUDot()[j]);
                js << "]";
                // the same state with applied body forces F (torque, force at the body origin, in Ground) and the
                // mobility forces tau the spec computed so that udot = ud
                const int nb = matter.getNumBodies();
                Vector_<SpatialVec> bodyF(nb, SpatialVec(Vec3(0), Vec3(0)));
                for (int i = 1; i <= N; ++i) bodyF[mb[i].getMobilizedBodyIndex()] = SpatialVec(vec(c["F"][i - 1]["t"]), vec(c["F"][i - 1]["f"]));
                Vector tau(nu), ud(nu);
                { int j = 0; for (int i = 0; i < N; ++i) for (int k = 0; k < mb[i + 1].getNumU(s); ++k, ++j) { ud[j] = c["ud"][i][k].dbl(); tau[j] = c["tau"][j].dbl(); } }
                // some mobilizers are LOCKED at acceleration level to their ud: the lock then supplies the force the spec
                // computed for them (nothing is applied there), and every udot is still ud
                Vector tauApplied = tau;
                { int j = 0; for (int i = 0; i < N; ++i) { const int n = mb[i + 1].getNumU(s);
                    if (n && c["locked"][i].num()) { Vector lv(n); for (int k = 0; k < n; ++k) { lv[k] = ud[j + k]; tauApplied[j + k] = 0; }
                                                     mb[i + 1].lockAt(s, lv, Motion::Acceleration); }
                    j += n; } }
                applied.setAllBodyForces(s, bodyF);
                applied.setAllMobilityForces(s, tauApplied);
                system.realize(s, Stage::Acceleration);
                { Vector mf; matter.findMotionForces(s, mf); js << ",\"motionF\":["; for (int j = 0; j < nu; ++j) js << (j ? "," : "") << num(mf[j]); js << "]"; }
                js << ",\"udotF\":[";
                for (int j = 0; j < nu; ++j) js << (j ? "," : "") << num(s.getUDot()[j]);
                js << "]";
                // inverse dynamics of the prescribed udot with the same applied forces: zero residual; with no
                // applied forces: M ud + bias
                Vector res0, res1;
                matter.calcResidualForceIgnoringConstraints(s, tau, bodyF, ud, res0);
                matter.calcResidualForceIgnoringConstraints(s, Vector(), Vector_<SpatialVec>(), ud, res1);
                double errRes = 0; for (int j = 0; j < nu; ++j) errRes = std::max(errRes, std::abs(res0[j]));
                js << ",\"errResidual\":" << num(errRes) << ",\"MudBias\":[";
                for (int j = 0; j < nu; ++j) js << (j ? "," : "") << num(res1[j]);
                js << "]";
                // J'F through the operator
                Vector JtF; matter.multiplyBySystemJacobianTranspose(s, bodyF, JtF);
                js << ",\"JtF\":[";
                for (int j = 0; j < nu; ++j) js << (j ? "," : "") << num(JtF[j]);
                js << "],\"A\":[";
                for (int i = 1; i <= N; ++i) { const SpatialVec& A = mb[i].getBodyAcceleration(s); js << (i > 1 ? "," : "") << "{\"aw\":" << jv(A[0]) << ",\"a\":" << jv(A[1]) << "}"; }
                js << "]";
                // mobilizer reactions
                Vector_<SpatialVec> RM, RMfb; matter.calcMobilizerReactionForces(s, RM); matter.calcMobilizerReactionForcesUsingFreebodyMethod(s, RMfb);
                double errFb = 0, errFind = 0;
                js << ",\"reactM\":[";
                for (int i = 1; i <= N; ++i) { const MobilizedBodyIndex bx = mb[i].getMobilizedBodyIndex();
                    js << (i > 1 ? "," : "") << "{\"t\":" << jv(RM[bx][0]) << ",\"f\":" << jv(RM[bx][1]) << "}";
                    const SpatialVec d = RM[bx] - RMfb[bx]; errFb = std::max(errFb, std::max(d[0].norm(), d[1].norm()));
                    const SpatialVec e = RM[bx] - mb[i].findMobilizerReactionOnBodyAtMInGround(s); errFind = std::max(errFind, std::max(e[0].norm(), e[1].norm())); }
                js << "],\"reactF\":[";
                for (int i = 1; i <= N; ++i) { const SpatialVec r = mb[i].findMobilizerReactionOnParentAtFInGround(s);
                    js << (i > 1 ? "," : "") << "{\"t\":" << jv(r[0]) << ",\"f\":" << jv(r[1]) << "}"; }
                js << "],\"errFreebody\":" << num(errFb) << ",\"errFindReaction\":" << num(errFind);
            }
            {   // the same state in the other orientation representation: poses and velocities must not change
                State so;
                if (c.has("euler") && c["euler"].num()) matter.convertToQuaternions(s, so); else matter.convertToEulerAngles(s, so);
                system.realize(so, Stage::Velocity);
                js << ",\"Xconv\":[";
                for (int i = 1; i <= N; ++i) { const Transform& X = mb[i].getBodyTransform(so); js << (i > 1 ? "," : "") << "{\"R\":" << jm(X.R().asMat33()) << ",\"p\":" << jv(X.p()) << "}"; }
                js << "],\"Vconv\":[";
                for (int i = 1; i <= N; ++i) { const SpatialVec& V = mb[i].getBodyVelocity(so); js << (i > 1 ? "," : "") << "{\"w\":" << jv(V[0]) << ",\"v\":" << jv(V[1]) << "}"; }
                js << "],\"convNQ\":" << so.getNQ();
            }
            {   // multi-task station and frame Jacobians (repeated bodies and Ground allowed)
                Array_<MobilizedBodyIndex> tb; Array_<Vec3> ts; const int nt = (int)c["tasks"].size();
                Vector_<Vec3> tf(nt); Vector_<SpatialVec> tF(nt);
                for (int k = 0; k < nt; ++k) { const mj::Value& t = c["tasks"][k];
                    tb.push_back(mb[(int)t["b"].num()].getMobilizedBodyIndex()); ts.push_back(vec(t["st"]));
                    tf[k] = vec(t["f"]); tF[k] = SpatialVec(vec(t["T"]), vec(t["f"])); }
                Vector_<Vec3> JSu; matter.multiplyByStationJacobian(s, tb, ts, u, JSu);
                Vector_<SpatialVec> JFu; matter.multiplyByFrameJacobian(s, tb, ts, u, JFu);
                Vector JStF, JFtF; matter.multiplyByStationJacobianTranspose(s, tb, ts, tf, JStF); matter.multiplyByFrameJacobianTranspose(s, tb, ts, tF, JFtF);
                double errExplicit = 0;
                if (nu) { Matrix JS, JF; matter.calcStationJacobian(s, tb, ts, JS); matter.calcFrameJacobian(s, tb, ts, JF);
                    Vector a = JS * u, b = JF * u;
                    for (int k = 0; k < nt; ++k) for (int d = 0; d < 3; ++d) {
                        errExplicit = std::max(errExplicit, std::abs(a[3 * k + d] - JSu[k][d]));
                        errExplicit = std::max(errExplicit, std::abs(b[6 * k + d] - JFu[k][0][d]));
                        errExplicit = std::max(errExplicit, std::abs(b[6 * k + 3 + d] - JFu[k][1][d])); }
                    Vector tfv(3 * nt), tFv(6 * nt);
                    for (int k = 0; k < nt; ++k) for (int d = 0; d < 3; ++d) { tfv[3 * k + d] = tf[k][d]; tFv[6 * k + d] = tF[k][0][d]; tFv[6 * k + 3 + d] = tF[k][1][d]; }
                    errExplicit = std::max(errExplicit, (~JS * tfv - JStF).normInf());
                    errExplicit = std::max(errExplicit, (~JF * tFv - JFtF).normInf()); }
                js << ",\"taskV\":[";
                for (int k = 0; k < nt; ++k) js << (k ? "," : "") << "{\"w\":" << jv(JFu[k][0]) << ",\"v\":" << jv(JFu[k][1]) << ",\"vs\":" << jv(JSu[k]) << "}";
                js << "],\"JStF\":[";
                for (int j = 0; j < nu; ++j) js << (j ? "," : "") << num(JStF[j]);
                js << "],\"JFtF\":[";
                for (int j = 0; j < nu; ++j) js << (j ? "," : "") << num(JFtF[j]);
                js << "],\"errTaskExplicit\":" << num(errExplicit);
                if (c["dyn"].num()) {
                    Vector_<Vec3> bs; matter.calcBiasForStationJacobian(s, tb, ts, bs);
                    Vector_<SpatialVec> bf; matter.calcBiasForFrameJacobian(s, tb, ts, bf);
                    js << ",\"taskA0\":[";
                    for (int k = 0; k < nt; ++k) js << (k ? "," : "") << "{\"aw\":" << jv(bf[k][0]) << ",\"a\":" << jv(bf[k][1]) << ",\"as\":" << jv(bs[k]) << "}";
                    js << "]";
                }
            }
            {   // fitting: the spec's X_FM / V_FM for a second coordinate set must be reproduced by the fitting calls
                js << ",\"fit\":[";
                for (int i = 1; i <= N; ++i) {
                    const mj::Value& f = c["fitTarget"][i - 1];
                    Mat33 Rm; for (int a = 0; a < 3; ++a) for (int b = 0; b < 3; ++b) Rm(a, b) = f["R"][a][b].dbl();
                    const Rotation R(Rm); const Vec3 p = vec(f["p"]), w = vec(f["w"]), v = vec(f["v"]);
                    if ((c["desc"][i - 1].has("fb") && c["desc"][i - 1]["fb"].num()) || c["desc"][i - 1]["type"].str() == "spherical") {   // fitting is not part of the user-defined route; spherical coordinates are not unique
                        js << (i > 1 ? "," : "") << "{\"R1\":" << jm(R.asMat33()) << ",\"p1\":" << jv(p) << ",\"R2\":" << jm(R.asMat33()) << ",\"p2\":" << jv(p)
                           << ",\"w1\":" << jv(w) << ",\"v1\":" << jv(v) << ",\"w2\":" << jv(w) << ",\"v2\":" << jv(v) << "}";
                        continue;
                    }
                    State s1 = s, s2 = s;
                    mb[i].setQToFitTransform(s1, Transform(R, p)); system.realize(s1, Stage::Position);
                    mb[i].setUToFitVelocity(s1, SpatialVec(w, v)); system.realize(s1, Stage::Velocity);
                    mb[i].setQToFitRotation(s2, R); mb[i].setQToFitTranslation(s2, p); system.realize(s2, Stage::Position);
                    mb[i].setUToFitAngularVelocity(s2, w); mb[i].setUToFitLinearVelocity(s2, v); system.realize(s2, Stage::Velocity);
                    const Transform X1 = mb[i].getMobilizerTransform(s1), X2 = mb[i].getMobilizerTransform(s2);
                    const SpatialVec V1 = mb[i].getMobilizerVelocity(s1), V2 = mb[i].getMobilizerVelocity(s2);
                    js << (i > 1 ? "," : "") << "{\"R1\":" << jm(X1.R().asMat33()) << ",\"p1\":" << jv(X1.p()) << ",\"R2\":" << jm(X2.R().asMat33()) << ",\"p2\":" << jv(X2.p())
                       << ",\"w1\":" << jv(V1[0]) << ",\"v1\":" << jv(V1[1]) << ",\"w2\":" << jv(V2[0]) << ",\"v2\":" << jv(V2[1]) << "}";
                }
                js << "]";
            }
            if (!fel.empty()) {   // force elements: first parameter set, then the second one applied to the SAME State
                State sf = system.getDefaultState();
                if (c.has("euler") && c["euler"].num()) matter.setUseEulerAngles(sf, true);
                system.realizeModel(sf); setCoords(sf, c["q"], c["u"]);
                for (int pass = 0; pass < 4; ++pass) {
                    const mj::Value& FE = pass ? c["felems2"] : c["felems"];
                    if (pass == 3) {      // fourth pass: ONLY the coordinates change (time, parameters, speeds as they are): every pose-dependent law must follow
                        setCoords(sf, c["q2"], c["u2"]);
                    } else
                    if (pass == 2) {      // third pass: ONLY the speeds change (second parameter set stays): velocity-dependent laws must follow
                        for (int i = 0; i < N; ++i) for (int k = 0; k < mb[i + 1].getNumU(sf); ++k) mb[i + 1].setOneU(sf, k, c["u2"][i][k].dbl());
                    } else
                    for (size_t k = 0; k < fel.size(); ++k) {
                        const mj::Value& e = FE[(int)k]; const string t = e["type"].str();
                        const mj::Value& e0 = c["felems"][(int)k];      // only what CHANGES is touched in the second pass
                        if (!pass || e["on"].num() != e0["on"].num()) { if (e["on"].num()) fel[k].enable(sf); else fel[k].disable(sf); }
                        if (pass == 1) {   // runtime parameter changes
                            if (t == "gravity") { const Force::Gravity& g = Force::Gravity::downcast(fel[k]);
                                                  if (vec(e["g"]) != vec(e0["g"])) g.setGravityVector(sf, vec(e["g"]));
                                                  for (int i = 1; i <= N; ++i) if (e["ex"][i - 1].num() != e0["ex"][i - 1].num()) g.setBodyIsExcluded(sf, mb[i].getMobilizedBodyIndex(), e["ex"][i - 1].num() != 0); }
                            else if (t == "mcf") { if (e["c"].dbl() != e0["c"].dbl()) Force::MobilityConstantForce::downcast(fel[k]).setForce(sf, e["c"].dbl()); }
                            else if (t == "mls") { if (e["c"].dbl() != e0["c"].dbl()) Force::MobilityLinearSpring::downcast(fel[k]).setStiffness(sf, e["c"].dbl());
                                                   if (e["q0"].dbl() != e0["q0"].dbl()) Force::MobilityLinearSpring::downcast(fel[k]).setQZero(sf, e["q0"].dbl()); }
                            else if (t == "mld") { if (e["c"].dbl() != e0["c"].dbl()) Force::MobilityLinearDamper::downcast(fel[k]).setDamping(sf, e["c"].dbl()); }
                            else if (t == "lbush") { Vec6 kk, cc, k0, c0; for (int i = 0; i < 6; ++i) { kk[i] = e["k6"][i].dbl(); cc[i] = e["c6"][i].dbl(); k0[i] = e0["k6"][i].dbl(); c0[i] = e0["c6"][i].dbl(); }
                                                     if (kk != k0) Force::LinearBushing::downcast(fel[k]).setStiffness(sf, kk);
                                                     if (cc != c0) Force::LinearBushing::downcast(fel[k]).setDamping(sf, cc); }
                        } else if (t == "gravity") { const Force::Gravity& g = Force::Gravity::downcast(fel[k]);
                            for (int i = 1; i <= N; ++i) g.setBodyIsExcluded(sf, mb[i].getMobilizedBodyIndex(), e["ex"][i - 1].num() != 0); }
                    }
                    system.realize(sf, Stage::Dynamics);
                    const Vector_<SpatialVec>& BF = system.getRigidBodyForces(sf, Stage::Dynamics); const Vector& MF = system.getMobilityForces(sf, Stage::Dynamics);
                    js << (pass == 3 ? ",\"forces4\":{" : pass == 2 ? ",\"forces3\":{" : pass ? ",\"forces2\":{" : ",\"forces\":{") << "\"body\":[";
                    for (int i = 1; i <= N; ++i) { const SpatialVec& W = BF[mb[i].getMobilizedBodyIndex()]; js << (i > 1 ? "," : "") << "{\"t\":" << jv(W[0]) << ",\"f\":" << jv(W[1]) << "}"; }
                    js << "],\"mob\":["; for (int j = 0; j < nu; ++j) js << (j ? "," : "") << num(MF[j]);
                    js << "],\"pe2\":" << num(2 * system.calcPotentialEnergy(sf)) << ",\"power\":[";
                    for (size_t k = 0; k < fel.size(); ++k) {
                        double pw = 0;
                        if (FE[(int)k]["on"].num()) { Vector_<SpatialVec> bf; Vector_<Vec3> pf; Vector mf; fel[k].calcForceContribution(sf, bf, pf, mf);
                            for (int i = 1; i <= N; ++i) { const SpatialVec& V = mb[i].getBodyVelocity(sf); const SpatialVec& W = bf[mb[i].getMobilizedBodyIndex()]; pw += ~W[0] * V[0] + ~W[1] * V[1]; }
                            for (int j = 0; j < nu; ++j) pw += mf[j] * sf.getU()[j]; }
                        js << (k ? "," : "") << num(pw);
                    }
                    // interaction elements: their own contribution on every body INCLUDING Ground, and the third-law residuals
                    // (total force, total moment about the Ground origin) of that contribution
                    js << "],\"tp\":[";
                    bool firstTp = true;
                    for (size_t k = 0; k < fel.size(); ++k) {
                        const string t = FE[(int)k]["type"].str();
                        if (!(t == "tpls" || t == "tpld" || t == "tpcf" || t == "cable" || t == "lbush") || !FE[(int)k]["on"].num()) continue;
                        Vector_<SpatialVec> bf; Vector_<Vec3> pf; Vector mf; fel[k].calcForceContribution(sf, bf, pf, mf);
                        Vec3 ftot(0), mtot(0);
                        js << (firstTp ? "" : ",") << "{\"k\":" << k << ",\"W\":["; firstTp = false;
                        for (int i = 0; i <= N; ++i) { const SpatialVec& W = bf[mb[i].getMobilizedBodyIndex()]; const Vec3 o = mb[i].getBodyOriginLocation(sf);
                            ftot += W[1]; mtot += W[0] + o % W[1];
                            js << (i ? "," : "") << "{\"t\":" << jv(W[0]) << ",\"f\":" << jv(W[1]) << "}"; }
                        { Vector gen; matter.multiplyBySystemJacobianTranspose(sf, bf, gen); js << "],\"gen\":["; for (int j = 0; j < nu; ++j) js << (j ? "," : "") << num(gen[j]); }
                        js << "],\"mobnorm\":" << num(mf.size() ? mf.normInf() : 0.0) << ",\"ftot\":" << jv(ftot) << ",\"mtot\":" << jv(mtot) << ",\"pe\":" << num(fel[k].calcPotentialEnergyContribution(sf)) << "}";
                    }
                    js << "]}";
                }
            }
            if (!cons.empty()) {   // constraints: errors, G and its operators, constraint forces, constrained forward dynamics
                State sc = system.getDefaultState();
                if (c.has("euler") && c["euler"].num()) matter.setUseEulerAngles(sc, true);
                system.realizeModel(sc);
                int nen = 0;
                auto ownerOf = [&](size_t k) { const mj::Value& e = c["cons"][(int)k]; return e.has("grp") ? k - (size_t)e["part"].num() : k; };
                auto eqOf = [&](size_t k) { const mj::Value& e = c["cons"][(int)k]; return e.has("grp") ? (int)e["part"].num() : 0; };
                for (size_t k = 0; k < cons.size(); ++k) if (c["cons"][(int)k]["on"].num() && ownerOf(k) == k) { cons[k].enable(sc); ++nen; }
                system.realizeModel(sc);
                for (size_t k = 0; k < cons.size(); ++k) {       // parameters given at run time, in the State
                    const mj::Value& e = c["cons"][(int)k];
                    if (!(e.has("rt") && e["rt"].num()) || !e["on"].num() || ownerOf(k) != k) continue;
                    const string t = e["type"].str();
                    if (e.has("grp") && t == "ballc") { const Constraint::Ball& b = Constraint::Ball::downcast(cons[k]); b.setPointOnBody1(sc, vec(e["st"])); b.setPointOnBody2(sc, vec(e["st2"])); }
                    else if (t == "rod") { const Constraint::Rod& r = Constraint::Rod::downcast(cons[k]); r.setPointOnBody1(sc, vec(e["st"])); r.setPointOnBody2(sc, vec(e["st2"])); r.setRodLength(sc, e["d"].dbl()); }
                    else if (t == "cspeed") Constraint::ConstantSpeed::downcast(cons[k]).setSpeed(sc, e["s"].dbl());
                    else if (t == "ccoord") Constraint::ConstantCoordinate::downcast(cons[k]).setPosition(sc, e["s"].dbl());
                    else if (t == "cacc") Constraint::ConstantAcceleration::downcast(cons[k]).setAcceleration(sc, e["s"].dbl());
                    else if (t == "noslip") { const Constraint::NoSlip1D& n = Constraint::NoSlip1D::downcast(cons[k]); n.setContactPoint(sc, vec(e["st"])); n.setDirection(sc, axisOf(e["n"])); }
                }
                setCoords(sc, c["q"], c["u"]);
                system.realize(sc, Stage::Velocity);
                js << ",\"cons\":[";
                for (size_t k = 0; k < cons.size(); ++k) {
                    js << (k ? "," : "");
                    if (!c["cons"][(int)k]["on"].num()) { js << "null"; continue; }
                    const Constraint& ck = cons[ownerOf(k)]; const int eq = eqOf(k);
                    int mp, mv, ma; ck.getNumConstraintEquationsInUse(sc, mp, mv, ma);
                    const Vector pe = ck.getPositionErrorsAsVector(sc), ve = ck.getVelocityErrorsAsVector(sc);
                    js << "{\"mp\":" << mp << ",\"mv\":" << mv << ",\"perr\":" << num(mp ? pe[eq] : 0.0) << ",\"verr\":" << num(ve.size() ? ve[eq] : 0.0) << "}";
                }
                js << "]";
                Matrix G; matter.calcG(sc, G);
                const int m = G.nrow();
                js << ",\"G\":[";
                for (int r = 0; r < m; ++r) { js << (r ? "," : "") << "["; for (int j = 0; j < nu; ++j) js << (j ? "," : "") << num(G(r, j)); js << "]"; }
                js << "]";
                double errG = 0, errGt = 0, errCF = 0;
                if (m && nu) {
                    Vector probe(nu), lam(m); for (int j = 0; j < nu; ++j) probe[j] = (j % 2 ? -1.0 : 1.0) * (j + 1); for (int r = 0; r < m; ++r) lam[r] = (r % 2 ? 2.0 : -3.0) + r;
                    Vector Gp; matter.multiplyByG(sc, probe, Gp); errG = (Gp - G * probe).normInf();
                    Vector Gtl; matter.multiplyByGTranspose(sc, lam, Gtl); errGt = (Gtl - ~G * lam).normInf();
                    Vector_<SpatialVec> cF; Vector cf; matter.calcConstraintForcesFromMultipliers(sc, lam, cF, cf);
                    Vector JtF; matter.multiplyBySystemJacobianTranspose(sc, cF, JtF); errCF = (JtF + cf - ~G * lam).normInf();
                }
                Vector bias; matter.calcBiasForAccelerationConstraints(sc, bias);
                js << ",\"errG\":" << num(errG) << ",\"errGt\":" << num(errGt) << ",\"errCF\":" << num(errCF) << ",\"cbias\":[";
                for (int r = 0; r < m; ++r) js << (r ? "," : "") << num(bias[r]);
                js << "]";
                {   // the SAME State after a u-only change (q and time untouched): velocity errors and acceleration bias again
                    State su = sc;      // (a copy is used for the fresh reference below; the re-used object is sc2)
                    State& sc2 = sc;
                    system.realize(sc2, Stage::Acceleration);                    // fill every cache at the first speeds
                    for (int i = 0; i < N; ++i) for (int k = 0; k < mb[i + 1].getNumU(sc2); ++k) mb[i + 1].setOneU(sc2, k, c["u2"][i][k].dbl());
                    system.realize(sc2, Stage::Acceleration);
                    Vector bias2; matter.calcBiasForAccelerationConstraints(sc2, bias2);
                    js << ",\"udotU2\":["; for (int j = 0; j < nu; ++j) js << (j ? "," : "") << num(sc2.getUDot()[j]); js << "]";
                    js << ",\"cbiasU2\":["; for (int r = 0; r < m; ++r) js << (r ? "," : "") << num(bias2[r]);
                    js << "],\"verrU2\":[";
                    bool first = true;
                    for (size_t k = 0; k < cons.size(); ++k) { if (!c["cons"][(int)k]["on"].num()) continue; const Vector v2 = cons[ownerOf(k)].getVelocityErrorsAsVector(sc2); js << (first ? "" : ",") << num(v2.size() ? v2[eqOf(k)] : 0.0); first = false; }
                    js << "]";
                    // back to the first speeds for the dynamics below
                    for (int i = 0; i < N; ++i) for (int k = 0; k < mb[i + 1].getNumU(sc2); ++k) mb[i + 1].setOneU(sc2, k, c["u"][i][k].dbl());
                    system.realize(sc2, Stage::Velocity);
                }
                if (c["dyn"].num()) {   // constrained forward dynamics with the applied body forces F and the mobility forces tau
                    const int nb = matter.getNumBodies();
                    Vector_<SpatialVec> bodyF(nb, SpatialVec(Vec3(0), Vec3(0)));
                    for (int i = 1; i <= N; ++i) bodyF[mb[i].getMobilizedBodyIndex()] = SpatialVec(vec(c["F"][i - 1]["t"]), vec(c["F"][i - 1]["f"]));
                    Vector tau(nu); for (int j = 0; j < nu; ++j) tau[j] = c["tau"][j].dbl();
                    applied.setAllBodyForces(sc, bodyF); applied.setAllMobilityForces(sc, tau);
                    string dexc;
                    try { system.realize(sc, Stage::Acceleration); } catch (const std::exception& e) { dexc = e.what(); }
                    js << ",\"cdynExc\":" << mj::quote(dexc.substr(0, 150));
                    if (dexc.empty()) {
                        js << ",\"cudot\":["; for (int j = 0; j < nu; ++j) js << (j ? "," : "") << num(sc.getUDot()[j]);
                        js << "],\"clambda\":["; for (int r = 0; r < m; ++r) js << (r ? "," : "") << num(sc.getMultipliers()[r]);
                        js << "],\"caerr\":" << num(sc.getUDotErr().size() ? sc.getUDotErr().normInf() : 0.0);
                    }
                }
            }
            {   // composite body inertias (about each body's origin, in Ground) at the first coordinate set
                State sc = s; setCoords(sc, c["q"], c["u"]); system.realize(sc, Stage::Position);
                Array_<SpatialInertia, MobilizedBodyIndex> CB; matter.calcCompositeBodyInertias(sc, CB);
                js << ",\"comp\":[";
                for (int i = 1; i <= N; ++i) { const SpatialInertia& S = CB[mb[i].getMobilizedBodyIndex()];
                    js << (i > 1 ? "," : "") << "{\"mass\":" << num(S.getMass()) << ",\"mcom\":" << jv(S.getMass() * S.getMassCenter()) << ",\"I\":" << jm((S.getMass() * S.getUnitInertia()).toMat33()) << "}"; }
                js << "]";
            }
            {   // the SAME State object moved to the second coordinate set, and back: nothing computed at the first
                // configuration may survive
                setCoords(s, c["q2"], c["u2"]); system.realize(s, Stage::Velocity);
                js << ",\"X2\":[";
                for (int i = 1; i <= N; ++i) { const Transform& X = mb[i].getBodyTransform(s); js << (i > 1 ? "," : "") << "{\"R\":" << jm(X.R().asMat33()) << ",\"p\":" << jv(X.p()) << "}"; }
                js << "],\"V2\":[";
                for (int i = 1; i <= N; ++i) { const SpatialVec& V = mb[i].getBodyVelocity(s); js << (i > 1 ? "," : "") << "{\"w\":" << jv(V[0]) << ",\"v\":" << jv(V[1]) << "}"; }
                Vector_<SpatialVec> Ju2; matter.multiplyBySystemJacobian(s, s.getU(), Ju2);
                double e2 = 0; for (int i = 1; i <= N; ++i) { const SpatialVec d = Ju2[mb[i].getMobilizedBodyIndex()] - mb[i].getBodyVelocity(s); e2 = std::max(e2, std::max(d[0].norm(), d[1].norm())); }
                js << "],\"errJ2\":" << num(e2);
                setCoords(s, c["q"], c["u"]); system.realize(s, Stage::Velocity);
                js << ",\"X3\":[";
                for (int i = 1; i <= N; ++i) { const Transform& X = mb[i].getBodyTransform(s); js << (i > 1 ? "," : "") << "{\"R\":" << jm(X.R().asMat33()) << ",\"p\":" << jv(X.p()) << "}"; }
                js << "],\"V3\":[";
                for (int i = 1; i <= N; ++i) { const SpatialVec& V = mb[i].getBodyVelocity(s); js << (i > 1 ? "," : "") << "{\"w\":" << jv(V[0]) << ",\"v\":" << jv(V[1]) << "}"; }
                js << "]";
                // two configurations in a row brought up to date through the lazy route only
                // (realize(Instance) + realizePositionKinematics + realizeVelocityKinematics), on the same State object
                for (int pass = 0; pass < 2; ++pass) {
                    setCoords(s, pass ? c["q"] : c["q2"], pass ? c["u"] : c["u2"]); system.realize(s, Stage::Instance);
                    matter.realizePositionKinematics(s); matter.realizeVelocityKinematics(s);
                    js << (pass ? ",\"X4\":[" : ",\"X5\":[");
                    for (int i = 1; i <= N; ++i) { const Transform& X = mb[i].getBodyTransform(s); js << (i > 1 ? "," : "") << "{\"R\":" << jm(X.R().asMat33()) << ",\"p\":" << jv(X.p()) << "}"; }
                    js << (pass ? "],\"V4\":[" : "],\"V5\":[");
                    for (int i = 1; i <= N; ++i) { const SpatialVec& V = mb[i].getBodyVelocity(s); js << (i > 1 ? "," : "") << "{\"w\":" << jv(V[0]) << ",\"v\":" << jv(V[1]) << "}"; }
                    js << "]";
                }
            }
            js << ",\"exc\":\"\"}";
        } catch (const std::exception& e) { js << ",\"exc\":" << mj::quote(string(e.what()).substr(0, 200)) << "}"; }
        fprintf(out, "%s\n", js.str().c_str());
    }
    fclose(out);
    return 0;
}
