// E7d / C35 harness: runs the real contact detectors (ContactTracker::SphereSphere / HalfSpaceSphere and the older
// CollisionDetectionAlgorithm::SphereSphere / HalfSpaceSphere) on the surface pairs TLC evaluated exactly from
// spec/Lattice/LatticeGeom.tla: as given, with both surfaces moved by the same rigid motion, and (spheres) with the roles swapped.
// usage: replay_geom <cases.ndjson> <out.ndjson>
#include "SimTKcommon.h"
#include "simmath/internal/common.h"
#include "simmath/internal/ContactGeometry.h"
#include "simmath/internal/Contact.h"
#include "simmath/internal/ContactTracker.h"
#include "simmath/internal/CollisionDetectionAlgorithm.h"
#include "mini_json.h"
#include <fstream>
#include <sstream>
using namespace SimTK;
using std::string;

static string num(double x) { if (x != x) return "NaN"; if (x > 1e308) return "Infinity"; if (x < -1e308) return "-Infinity"; char b[40]; snprintf(b, sizeof b, "%.17g", x); return b; }
static string jv(const Vec3& v) { return "[" + num(v[0]) + "," + num(v[1]) + "," + num(v[2]) + "]"; }
static Transform xf(const mj::Value& R, const mj::Value& p) {
    Mat33 m; for (int i = 0; i < 3; ++i) for (int j = 0; j < 3; ++j) m(i, j) = R[i][j].dbl();
    Rotation rot; rot.setRotationFromApproximateMat33(m);      // (the entries are exact rationals rounded to double)
    return Transform(rot, Vec3(p[0].dbl(), p[1].dbl(), p[2].dbl()));
}
static string tracked(const ContactTracker& tr, const Transform& X1, const ContactGeometry& g1, const Transform& X2, const ContactGeometry& g2) {
    UntrackedContact prior(ContactSurfaceIndex(0), ContactSurfaceIndex(1));
    Contact cur; std::ostringstream o;
    const bool ok = tr.trackContact(prior, X1, g1, X2, g2, 0, cur);
    o << "{\"ok\":" << (ok ? 1 : 0);
    if (ok && !cur.isEmpty() && CircularPointContact::isInstance(cur)) {
        const CircularPointContact& c = CircularPointContact::getAs(cur);
        o << ",\"contact\":1,\"depth\":" << num(c.getDepth()) << ",\"normal\":" << jv(Vec3(c.getNormal())) << ",\"origin\":" << jv(c.getOrigin())
          << ",\"reff\":" << num(c.getEffectiveRadius()) << ",\"r1\":" << num(c.getRadius1()) << ",\"r2\":" << num(c.getRadius2()) << ",\"p12\":" << jv(c.getTransform().p());
    } else o << ",\"contact\":0,\"empty\":" << (cur.isEmpty() ? 1 : 0);
    o << "}"; return o.str();
}
static string detected(const CollisionDetectionAlgorithm& alg, const ContactGeometry& g1, const Transform& X1, const ContactGeometry& g2, const Transform& X2) {
    Array_<Contact> cs; alg.processObjects(ContactSurfaceIndex(0), g1, X1, ContactSurfaceIndex(1), g2, X2, cs);
    std::ostringstream o; o << "{\"n\":" << cs.size();
    if (cs.size() == 1 && PointContact::isInstance(cs[0])) { const PointContact& c = static_cast<const PointContact&>(cs[0]);
        o << ",\"depth\":" << num(c.getDepth()) << ",\"normal\":" << jv(c.getNormal()) << ",\"location\":" << jv(c.getLocation()) << ",\"radius\":" << num(c.getEffectiveRadiusOfCurvature())
          << ",\"s1\":" << (int)c.getSurface1() << ",\"s2\":" << (int)c.getSurface2(); }
    o << "}"; return o.str();
}

int main(int argc, char** argv) {
    if (argc < 3) return 2;
    std::ifstream in(argv[1]);
    FILE* out = fopen(argv[2], "w");
    string line; int lineno = 0;
    while (std::getline(in, line)) {
        ++lineno;
        mj::Value c = mj::parse(line.c_str());
        if (!c.isObject()) continue;
        std::ostringstream js; js << "{\"i\":" << lineno; string exc;
        try {
            const Transform X1 = xf(c["R1"], c["p1"]), X2 = xf(c["R2"], c["p2"]), X1m = xf(c["R1m"], c["p1m"]), X2m = xf(c["R2m"], c["p2m"]);
            if (c["kind"].str() == "ss") {
                ContactGeometry::Sphere s1(c["r1"].dbl()), s2(c["r2"].dbl());
                ContactTracker::SphereSphere tr; CollisionDetectionAlgorithm::SphereSphere alg;
                js << ",\"tracked\":" << tracked(tr, X1, s1, X2, s2) << ",\"trackedMoved\":" << tracked(tr, X1m, s1, X2m, s2) << ",\"trackedSwapped\":" << tracked(tr, X2, s2, X1, s1)
                   << ",\"detected\":" << detected(alg, s1, X1, s2, X2) << ",\"detectedMoved\":" << detected(alg, s1, X1m, s2, X2m) << ",\"detectedSwapped\":" << detected(alg, s2, X2, s1, X1);
            } else if (c["kind"].str() == "hb") {
                ContactGeometry::HalfSpace h; ContactGeometry::Brick b(Vec3(c["h"][0].dbl(), c["h"][1].dbl(), c["h"][2].dbl()));
                ContactTracker::HalfSpaceBrick tr;
                auto one = [&](const Transform& XH, const Transform& XB) {
                    UntrackedContact prior(ContactSurfaceIndex(0), ContactSurfaceIndex(1)); Contact cur; std::ostringstream o;
                    const bool ok = tr.trackContact(prior, XH, h, XB, b, 0, cur);
                    o << "{\"ok\":" << (ok ? 1 : 0);
                    if (ok && !cur.isEmpty() && BrickHalfSpaceContact::isInstance(cur)) { const BrickHalfSpaceContact& bc = BrickHalfSpaceContact::getAs(cur);
                        o << ",\"contact\":1,\"depth\":" << num(bc.getDepth()) << ",\"vertex\":" << bc.getLowestVertex() << ",\"pHB\":" << jv(bc.getTransform().p()); }
                    else o << ",\"contact\":0";
                    o << "}"; return o.str(); };
                js << ",\"tracked\":" << one(X1, X2) << ",\"trackedMoved\":" << one(X1m, X2m);
            } else {
                ContactGeometry::HalfSpace h; ContactGeometry::Sphere s2(c["r2"].dbl());
                ContactTracker::HalfSpaceSphere tr; CollisionDetectionAlgorithm::HalfSpaceSphere alg;
                js << ",\"tracked\":" << tracked(tr, X1, h, X2, s2) << ",\"trackedMoved\":" << tracked(tr, X1m, h, X2m, s2)
                   << ",\"detected\":" << detected(alg, h, X1, s2, X2) << ",\"detectedMoved\":" << detected(alg, h, X1m, s2, X2m);
            }
        } catch (const std::exception& e) { exc = e.what(); }
        js << ",\"exc\":" << mj::quote(exc.substr(0, 200)) << "}";
        fprintf(out, "%s\n", js.str().c_str()); fflush(out);
    }
    fclose(out);
    return 0;
}
