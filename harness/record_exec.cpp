// E2 harness: drives ParallelExecutor / Parallel2DExecutor / ParallelWorkQueue through scenarios read
// from a program file (ndjson) and records every hook event (linearization points inside the library)
// plus the task-level events produced by the harness's own Task objects.
//
// Event order: a global sequence number taken under the tracer's own mutex at the END of the hook
// callback (after the optional seeded perturbation delay), so for events logged inside a critical
// section of the library the order is the lock order.  "own" is read from the library's mutex itself
// (glibc: native_handle()->__data.__owner), not assumed.
#include "SimTKcommon.h"
#include "SimTKcommon/internal/VerifHooks.h"
#include "mini_json.h"
#include <atomic>
#include <chrono>
#include <cstdio>
#include <cstring>
#include <map>
#include <mutex>
#include <thread>
#include <vector>
#include <sys/syscall.h>
#include <unistd.h>
#include <pthread.h>

using namespace SimTK;
using std::string;

struct Ev { const char* label; int th; long tid; int own; long a, b, c; long seq; };
static std::mutex gMu;
static std::vector<Ev> gEvents;
static std::map<long,int> gThreadIds;     // gettid -> small id (0 = main)
static long gSeq = 0;
static unsigned gSeed = 1;
static int gPerturb = 0;                  // 0 none, 1 yields, 2 sleeps
static thread_local unsigned tlRng = 0;
static long gMainTid = 0;

static long mytid() { static thread_local long t = syscall(SYS_gettid); return t; }

static unsigned rnd() {
    if (!tlRng) tlRng = gSeed * 2654435761u ^ (unsigned)mytid() * 40503u ^ 0x9e3779b9u;
    tlRng ^= tlRng << 13; tlRng ^= tlRng >> 17; tlRng ^= tlRng << 5; return tlRng;
}

static void record(const char* label, const void* mutex, long a, long b, long c) {
    if (gPerturb) {
        unsigned r = rnd() % 16;
        if (r < 6) std::this_thread::yield();
        else if (r < 8 && gPerturb > 1) std::this_thread::sleep_for(std::chrono::microseconds(20 + rnd() % 200));
    }
    int own = 0;
    if (mutex) {
        std::mutex* m = (std::mutex*)mutex;
        own = (m->native_handle()->__data.__owner == (int)mytid()) ? 1 : 0;
    }
    std::lock_guard<std::mutex> g(gMu);
    long t = mytid();
    gEvents.push_back(Ev{label, t == gMainTid ? 0 : 1, t, own, a, b, c, gSeq++});
}
static void hook(const char* label, const void* obj, const void* mutex, long a, long b, long c) {
    record(label, mutex, a, b, c);
}

static FILE* out = stdout;
static void flushEvents(const string& header) {
    fprintf(out, "%s\n", header.c_str());
    for (auto& e : gEvents)
        fprintf(out, "{\"e\":\"%s\",\"main\":%d,\"tid\":%ld,\"own\":%d,\"a\":%ld,\"b\":%ld,\"c\":%ld}\n",
                e.label, e.th == 0 ? 1 : 0, e.tid, e.own, e.a, e.b, e.c);
    fflush(out);
    gEvents.clear(); gThreadIds.clear(); gSeq = 0;
}

// ------------------------------------------------------------------ tasks
struct PETask : public ParallelExecutor::Task {
    int round;
    explicit PETask(int r) : round(r) {}
    void initialize() override { record("T.init", nullptr, round, 0, 0); }
    void execute(int i) override { record("T.exec", nullptr, round, i, 0); }
    void finish() override { record("T.finish", nullptr, round, 0, 0); }
};
struct P2DTask : public Parallel2DExecutor::Task {
    void initialize() override { record("T2.init", nullptr, 0, 0, 0); }
    void execute(int i, int j) override { record("T2.exec", nullptr, i, j, 0); }
    void finish() override { record("T2.finish", nullptr, 0, 0, 0); }
};
static std::atomic<int> gDeleted{0};
struct WQTask : public ParallelWorkQueue::Task {
    int id, work;
    WQTask(int id, int work) : id(id), work(work) {}
    ~WQTask() { record("TQ.delete", nullptr, id, 0, 0); gDeleted++; }
    void execute() override {
        record("TQ.exec", nullptr, id, 0, 0);
        if (work) std::this_thread::sleep_for(std::chrono::microseconds(work));
        record("TQ.execEnd", nullptr, id, 0, 0);
    }
};

int main(int argc, char** argv) {
    FILE* in = stdin;
    if (argc > 1) in = fopen(argv[1], "r");
    if (argc > 2) out = fopen(argv[2], "w");
    if (!in || !out) return 2;
    gMainTid = mytid();
    SimTK_verifSetHook(hook);
    char* buf = nullptr; size_t cap = 0;
    while (getline(&buf, &cap, in) > 0) {
        mj::Value p = mj::parse(buf);
        if (!p.isObject()) continue;
        string kind = p["kind"].str();
        gSeed = p.has("seed") ? (unsigned)p["seed"].num() : 1;
        gPerturb = p.has("perturb") ? p["perturb"].num() : 0;
        tlRng = 0;
        string line(buf); while (!line.empty() && (line.back()=='\n'||line.back()=='\r')) line.pop_back();
        if (kind == "pe") {
            {
                ParallelExecutor ex(p["t"].num());
                int r = 1;
                for (auto& c : p["counts"].arr()) { PETask t(r++); ex.execute(t, c.num()); }
            }   // destructor
            flushEvents(line);
        } else if (kind == "p2d" && p.has("shared") && p["shared"].num()) {
            // executor supplied by the caller; "procs" is the processor count of the machine
            SimTK_verifSetNumProcessors(p["procs"].num());
            {
                ParallelExecutor pe(p["t"].num());
                Parallel2DExecutor ex0(p["grid"].num(), pe);
                Parallel2DExecutor ex1(ex0);     // copy: clone() of the implementation
                Parallel2DExecutor& ex = (p.has("copy") && p["copy"].num()) ? ex1 : ex0;
                P2DTask t;
                for (int k = 0; k < (p.has("reps") ? p["reps"].num() : 1); ++k)
                    ex.execute(t, (Parallel2DExecutor::RangeType)p["range"].num());
            }
            SimTK_verifSetNumProcessors(0);
            flushEvents(line);
        } else if (kind == "p2d") {
            {
                Parallel2DExecutor ex(p["grid"].num(), p["procs"].num());
                P2DTask t;
                for (int k = 0; k < (p.has("reps") ? p["reps"].num() : 1); ++k)
                    ex.execute(t, (Parallel2DExecutor::RangeType)p["range"].num());
            }
            flushEvents(line);
        } else if (kind == "wq") {
            {
                ParallelWorkQueue q(p["qsize"].num(), p["t"].num());
                int id = 0;
                for (auto& op : p["ops"].arr()) {
                    string o = op.str();
                    if (o == "add") { record("Q.addCall", nullptr, id, 0, 0); q.addTask(new WQTask(id, p["work"].num())); ++id; }
                    else if (o == "flush") { record("Q.flushCall", nullptr, id, 0, 0); q.flush(); record("Q.flushRet", nullptr, id, 0, 0); }
                }
                record("Q.dtorCall", nullptr, id, 0, 0);
            }
            record("Q.dtorRet", nullptr, 0, 0, 0);
            flushEvents(line);
        }
    }
    return 0;
}
