// E10 / C41 harness: evaluates with the real Function_ classes, the step helpers of Scalar.h and Spline_ / SplineFitter
// the cases TLC evaluated exactly from spec/Func/FuncAlg.tla.
// usage: replay_func <cases.ndjson> <out.ndjson>
#include "SimTKcommon.h"
#include "simmath/internal/common.h"
#include "simmath/internal/Spline.h"
#include "simmath/internal/SplineFitter.h"
#include "simmath/Differentiator.h"
#include "mini_json.h"
#include <fstream>
#include <sstream>
#include <functional>
#include <complex>
using namespace SimTK;
using std::string;

static string num(double x) { if (x != x) return "NaN"; if (x > 1e308) return "Infinity"; if (x < -1e308) return "-Infinity"; char b[40]; snprintf(b, sizeof b, "%.17g", x); return b; }
static string jv(const Vec3& v) { return "[" + num(v[0]) + "," + num(v[1]) + "," + num(v[2]) + "]"; }
static const Vec3 MIX(1, 2, -1);      // the Vec3-valued variants carry the scalar function times this vector

template <class F, class F3> static void orders(std::ostringstream& js, const F& f, const F3& f3, double x, int nmax) {
    Vector xv(1, x);
    js << "\"v\":[";
    for (int k = 0; k <= nmax; ++k) js << (k ? "," : "") << num(k ? f.calcDerivative(Array_<int>(k, 0), xv) : f.calcValue(xv));
    js << "],\"v3\":[";
    for (int k = 0; k <= nmax; ++k) js << (k ? "," : "") << jv(k ? f3.calcDerivative(Array_<int>(k, 0), xv) : f3.calcValue(xv));
    js << "],\"vstd\":[";      // the std::vector overload
    for (int k = 1; k <= nmax; ++k) js << (k > 1 ? "," : "") << num(f.calcDerivative(std::vector<int>(k, 0), xv));
    js << "]";
}

// C30: the root finder on the coefficients the spec expanded; every API variant that fits the degree and coefficient type
template <class T> static string jroots(const std::vector<std::complex<T> >& r) {
    std::ostringstream o; o << "["; for (size_t i = 0; i < r.size(); ++i) o << (i ? "," : "") << "[" << num(r[i].real()) << "," << num(r[i].imag()) << "]"; o << "]"; return o.str(); }
template <class T> static void rootsFor(std::ostringstream& js, const mj::Value& c, const char* tag) {
    typedef std::complex<T> C;
    const int n = (int)c["re"].size() - 1; const bool real = c["real"].num() != 0;
    std::vector<C> co(n + 1); for (int i = 0; i <= n; ++i) co[i] = C((T)c["re"][i].dbl(), (T)c["im"][i].dbl());
    auto emit = [&](const char* api, std::function<std::vector<C>()> f) {
        js << ",\"" << tag << "/" << api << "\":";
        try { js << "{\"roots\":" << jroots<T>(f()) << "}"; } catch (const std::exception& e) { js << "{\"exc\":" << mj::quote(string(e.what()).substr(0, 200)) << "}"; }
    };
    if (real) {
        if (n == 2) emit("Vec3", [&] { Vec<3, T> v(co[0].real(), co[1].real(), co[2].real()); Vec<2, C> r; PolynomialRootFinder::findRoots(v, r); return std::vector<C>{r[0], r[1]}; });
        if (n == 3) emit("Vec4", [&] { Vec<4, T> v(co[0].real(), co[1].real(), co[2].real(), co[3].real()); Vec<3, C> r; PolynomialRootFinder::findRoots(v, r); return std::vector<C>{r[0], r[1], r[2]}; });
        emit("Vector", [&] { Vector_<T> v(n + 1); for (int i = 0; i <= n; ++i) v[i] = co[i].real(); Vector_<C> r(n); PolynomialRootFinder::findRoots(v, r); std::vector<C> o(n); for (int i = 0; i < n; ++i) o[i] = r[i]; return o; });
    }
    if (n == 2) emit("Vec3c", [&] { Vec<3, C> v(co[0], co[1], co[2]); Vec<2, C> r; PolynomialRootFinder::findRoots(v, r); return std::vector<C>{r[0], r[1]}; });
    if (n == 3) emit("Vec4c", [&] { Vec<4, C> v(co[0], co[1], co[2], co[3]); Vec<3, C> r; PolynomialRootFinder::findRoots(v, r); return std::vector<C>{r[0], r[1], r[2]}; });
    emit("Vectorc", [&] { Vector_<C> v(n + 1); for (int i = 0; i <= n; ++i) v[i] = co[i]; Vector_<C> r(n); PolynomialRootFinder::findRoots(v, r); std::vector<C> o(n); for (int i = 0; i < n; ++i) o[i] = r[i]; return o; });
}

// C40: the quadratic map of a case as the three kinds of user function a Differentiator takes
struct QuadMap {
    int nf, ny; std::vector<double> A, B, C; mutable int calls = 0;
    explicit QuadMap(const mj::Value& c) : nf((int)c["B"].size()), ny((int)c["xp"].size()) {
        A.resize(nf * ny * ny); B.resize(nf * ny); C.resize(nf);
        for (int i = 0; i < nf; ++i) { C[i] = c["C"][i].dbl();
            for (int j = 0; j < ny; ++j) { B[i * ny + j] = c["B"][i][j].dbl(); for (int k = 0; k < ny; ++k) A[(i * ny + j) * ny + k] = c["A"][i][j][k].dbl(); } }
    }
    double eval(int i, const Vector& y) const { double v = C[i]; for (int j = 0; j < ny; ++j) { v += B[i * ny + j] * y[j]; for (int k = 0; k < ny; ++k) v += A[(i * ny + j) * ny + k] * y[j] * y[k]; } return v; }
};
struct QJac : public Differentiator::JacobianFunction { const QuadMap& m; QJac(const QuadMap& m, Real acc) : Differentiator::JacobianFunction(m.nf, m.ny, acc), m(m) {}
    int f(const Vector& y, Vector& fy) const override { ++m.calls; fy.resize(m.nf); for (int i = 0; i < m.nf; ++i) fy[i] = m.eval(i, y); return 0; } };
struct QGrad : public Differentiator::GradientFunction { const QuadMap& m; QGrad(const QuadMap& m, Real acc) : Differentiator::GradientFunction(m.ny, acc), m(m) {}
    int f(const Vector& y, Real& fy) const override { ++m.calls; fy = m.eval(0, y); return 0; } };
struct QScal : public Differentiator::ScalarFunction { const QuadMap& m; QScal(const QuadMap& m, Real acc) : Differentiator::ScalarFunction(acc), m(m) {}
    int f(Real y, Real& fy) const override { ++m.calls; fy = m.eval(0, Vector(1, y)); return 0; } };
static string jmat(const Matrix& M) { std::ostringstream o; o << "["; for (int i = 0; i < M.nrow(); ++i) { o << (i ? "," : "") << "["; for (int j = 0; j < M.ncol(); ++j) o << (j ? "," : "") << num(M(i, j)); o << "]"; } o << "]"; return o.str(); }
static string jvec(const Vector& v) { std::ostringstream o; o << "["; for (int i = 0; i < v.size(); ++i) o << (i ? "," : "") << num(v[i]); o << "]"; return o.str(); }

static string run(const mj::Value& c) {
    std::ostringstream js; const string kind = c["kind"].str();
    if (kind == "poly") {
        const int n = (int)c["coef"].size(); Vector co(n); Vector_<Vec3> co3(n);
        for (int i = 0; i < n; ++i) { co[i] = c["coef"][i].dbl(); co3[i] = co[i] * MIX; }
        Function::Polynomial f(co); Function_<Vec3>::Polynomial f3(co3);
        orders(js, f, f3, c["p"].dbl() / c["q"].dbl(), (int)c["nmax"].num());
        js << ",\"argsize\":" << f.getArgumentSize();
    } else if (kind == "linear" || kind == "const") {
        const int na = kind == "linear" ? (int)c["coef"].size() - 1 : (int)c["nargs"].num();
        Vector xv(na); for (int i = 0; i < na; ++i) xv[i] = c["xp"][i].dbl() / c["q"].dbl();
        std::unique_ptr<Function> f; std::unique_ptr<Function_<Vec3> > f3;
        if (kind == "linear") { Vector co(na + 1); Vector_<Vec3> co3(na + 1); for (int i = 0; i <= na; ++i) { co[i] = c["coef"][i].dbl(); co3[i] = co[i] * MIX; }
                                f.reset(new Function::Linear(co)); f3.reset(new Function_<Vec3>::Linear(co3)); }
        else { f.reset(new Function::Constant(c["value"].dbl(), na)); f3.reset(new Function_<Vec3>::Constant(c["value"].dbl() * MIX, na)); }
        js << "\"v\":" << num(f->calcValue(xv)) << ",\"v3\":" << jv(f3->calcValue(xv)) << ",\"dv\":[";
        for (int j = 0; j < (int)c["derivs"].size(); ++j) { Array_<int> d; for (int k = 0; k < (int)c["derivs"][j].size(); ++k) d.push_back((int)c["derivs"][j][k].num());
            js << (j ? "," : "") << num(f->calcDerivative(d, xv)); }
        js << "],\"dv3\":[";
        for (int j = 0; j < (int)c["derivs"].size(); ++j) { Array_<int> d; for (int k = 0; k < (int)c["derivs"][j].size(); ++k) d.push_back((int)c["derivs"][j][k].num());
            js << (j ? "," : "") << jv(f3->calcDerivative(d, xv)); }
        js << "],\"argsize\":" << f->getArgumentSize();
        std::unique_ptr<Function> g(f->clone());       // a clone is the same function
        js << ",\"vclone\":" << num(g->calcValue(xv));
    } else if (kind == "roots") {
        js << "\"n\":" << (int)c["re"].size() - 1;
        rootsFor<double>(js, c, "double");
        if (c["float"].num()) rootsFor<float>(js, c, "float");
    } else if (kind == "diff") {
        QuadMap m(c); const double acc = c["acc"].dbl();      // -1: the default
        Vector y(m.ny); for (int j = 0; j < m.ny; ++j) y[j] = c["xp"][j].dbl() / c["q"].dbl();
        Vector fy(m.nf); for (int i = 0; i < m.nf; ++i) fy[i] = m.eval(i, y);
        js << "\"f\":" << jvec(fy);
        const Differentiator::Method meth[2] = {Differentiator::ForwardDifference, Differentiator::CentralDifference};
        const char* mname[2] = {"forward", "central"};
        for (int mi = 0; mi < 2; ++mi) {
            // the method is named per call (0), given to the constructor (1), or set with setDefaultMethod() on an object that
            // was built with the OTHER method (2)
            const int how = (int)c["asdefault"].num();
            QJac fj(m, acc); Differentiator dj(fj, how == 1 ? meth[mi] : how == 2 ? meth[1 - mi] : Differentiator::UnspecifiedMethod);
            if (how == 2) dj.setDefaultMethod(meth[mi]);
            const Differentiator::Method arg = how ? Differentiator::UnspecifiedMethod : meth[mi];
            Matrix J; m.calls = 0; dj.calcJacobian(y, fy, J, arg); const int c1 = m.calls;
            m.calls = 0; Matrix J2 = dj.calcJacobian(y, arg); const int c2 = m.calls;
            js << ",\"" << mname[mi] << "\":{\"J\":" << jmat(J) << ",\"J2\":" << jmat(J2) << ",\"calls\":" << c1 << ",\"calls2\":" << c2
               << ",\"stat\":[" << dj.getNumDifferentiations() << "," << dj.getNumDifferentiationFailures() << "," << dj.getNumCallsToUserFunction() << "]"
               << ",\"order\":" << Differentiator::getMethodOrder(meth[mi]);
            if (m.nf == 1) { QGrad fg(m, acc); Differentiator dg(fg); Vector g; m.calls = 0; dg.calcGradient(y, fy[0], g, meth[mi]); js << ",\"g\":" << jvec(g) << ",\"gcalls\":" << m.calls;
                             js << ",\"g2\":" << jvec(dg.calcGradient(y, meth[mi])); }
            if (m.nf == 1 && m.ny == 1) { QScal fs(m, acc); Differentiator ds(fs); Real d; m.calls = 0; ds.calcDerivative(y[0], fy[0], d, meth[mi]); js << ",\"d\":" << num(d) << ",\"dcalls\":" << m.calls;
                             js << ",\"d2\":" << num(ds.calcDerivative(y[0], meth[mi])); }
            js << "}";
        }
    } else if (kind == "sinus") {
        // a sin(w t + p): w = j*pi/2, t integer, p chosen so that w t + p is the lattice angle of the case
        const double th = std::atan2(4.0, 3.0); const double j = c["j"].dbl(), t = c["t"].dbl();
        const double w = j * (Pi / 2), p = (c["ang"]["k"].dbl() - j * t) * (Pi / 2) + c["ang"]["m"].dbl() * th;
        Function::Sinusoid f(c["a"].dbl(), w, p); Vector xv(1, t);
        js << "\"v\":[";
        for (int k = 0; k <= (int)c["nmax"].num(); ++k) js << (k ? "," : "") << num(k ? f.calcDerivative(Array_<int>(k, 0), xv) : f.calcValue(xv));
        js << "],\"w\":" << num(w);
    } else if (kind == "stepup") {
        const double x = c["p"].dbl() / c["q"].dbl(); const float xf = (float)x;
        js << "\"up\":[" << num(stepUp(x)) << "," << num(dstepUp(x)) << "," << num(d2stepUp(x)) << "," << num(d3stepUp(x)) << "]"
           << ",\"down\":[" << num(stepDown(x)) << "," << num(dstepDown(x)) << "," << num(d2stepDown(x)) << "," << num(d3stepDown(x)) << "]"
           << ",\"upf\":[" << num(stepUp(xf)) << "," << num(dstepUp(xf)) << "," << num(d2stepUp(xf)) << "," << num(d3stepUp(xf)) << "]"
           << ",\"downf\":[" << num(stepDown(xf)) << "," << num(dstepDown(xf)) << "," << num(d2stepDown(xf)) << "," << num(d3stepDown(xf)) << "]";
    } else if (kind == "stepfn") {
        const double y0 = c["y0"].dbl(), y1 = c["y1"].dbl(), x0 = c["x0"].dbl(), x1 = c["x1"].dbl(), x = c["p"].dbl() / c["q"].dbl();
        Function::Step f(y0, y1, x0, x1); Function_<Vec3>::Step f3(y0 * MIX, y1 * MIX, x0, x1);
        orders(js, f, f3, x, 3);
        Function::Step g(0, 1, 0, 1); g.setParameters(y0, y1, x0, x1);      // re-parameterised object = freshly built one
        js << ",\"vset\":" << num(g.calcValue(Vector(1, x)));
        if (c["inside"].num()) {
            const double oox = 1 / (x1 - x0);
            js << ",\"any\":[" << num(stepAny(y0, y1 - y0, x0, oox, x)) << "," << num(dstepAny(y1 - y0, x0, oox, x)) << "," << num(d2stepAny(y1 - y0, x0, oox, x)) << "," << num(d3stepAny(y1 - y0, x0, oox, x)) << "]";
            const float ooxf = 1 / (float)(x1 - x0);
            js << ",\"anyf\":[" << num(stepAny((float)y0, (float)(y1 - y0), (float)x0, ooxf, (float)x)) << "," << num(dstepAny((float)(y1 - y0), (float)x0, ooxf, (float)x)) << ","
               << num(d2stepAny((float)(y1 - y0), (float)x0, ooxf, (float)x)) << "," << num(d3stepAny((float)(y1 - y0), (float)x0, ooxf, (float)x)) << "]";
        }
    } else if (kind == "spline" || kind == "chord" || kind == "interp") {
        const int n = (int)c["knots"].size(); const int deg = (int)c["degree"].num();
        Vector xs(n), ys(n); Vector_<Vec3> y3(n);
        for (int i = 0; i < n; ++i) { xs[i] = c["knots"][i].dbl(); ys[i] = c["y"][i].dbl(); y3[i] = ys[i] * MIX; }
        const double sp = c["smooth"].dbl();
        Spline f = SplineFitter<Real>::fitForSmoothingParameter(deg, xs, ys, sp).getSpline();
        Spline_<Vec3> f3 = SplineFitter<Vec3>::fitForSmoothingParameter(deg, xs, y3, sp).getSpline();
        const double x = c["p"].dbl() / c["q"].dbl(); const int nmax = (int)c["nmax"].num();
        js << "\"v\":["; for (int k = 0; k <= nmax; ++k) js << (k ? "," : "") << num(k ? f.calcDerivative(k, x) : f.calcValue(x));
        js << "],\"v3\":["; for (int k = 0; k <= nmax; ++k) js << (k ? "," : "") << jv(k ? f3.calcDerivative(k, x) : f3.calcValue(x));
        js << "],\"vfn\":[";      // through the Function_ interface
        { const Function& g = f; Vector xv(1, x); for (int k = 0; k <= nmax; ++k) js << (k ? "," : "") << num(k ? g.calcDerivative(Array_<int>(k, 0), xv) : g.calcValue(xv)); }
        js << "],\"atknots\":["; for (int i = 0; i < n; ++i) js << (i ? "," : "") << num(f.calcValue(xs[i]));
        js << "],\"atknots3\":["; for (int i = 0; i < n; ++i) js << (i ? "," : "") << jv(f3.calcValue(xs[i]));
        js << "],\"degree\":" << f.getSplineDegree() << ",\"maxorder\":" << (f.getMaxDerivativeOrder() > 1000 ? 1000 : f.getMaxDerivativeOrder());
        Spline copy(f);       // copies share the representation: same values
        js << ",\"vcopy\":" << num(copy.calcValue(x));
    }
    return js.str();
}

int main(int argc, char** argv) {
    if (argc < 3) return 2;
    std::ifstream in(argv[1]);
    FILE* out = fopen(argv[2], "w");
    string line; int lineno = 0;
    while (std::getline(in, line)) {
        ++lineno;
        mj::Value c = mj::parse(line.c_str());
        if (!c.isObject()) continue;
        string body, exc;
        try { body = run(c); } catch (const std::exception& e) { exc = e.what(); body = ""; }
        fprintf(out, "{\"i\":%d,%s%s\"exc\":%s}\n", lineno, body.c_str(), body.empty() ? "" : ",", mj::quote(exc.substr(0, 200)).c_str());
        fflush(out);
    }
    fclose(out);
    return 0;
}
