// E1 harness: interpreter of the StateSpec action alphabet on real SimTK::State objects.
// Reads a program (ndjson, one action per line) on stdin or argv[1], writes a trace (ndjson) to
// stdout or argv[2]: for every action the action itself plus the projection of EVERY State object
// through the public State API, taken after the call returned (sequential linearization point).
//
// The system definition below mirrors spec/State/StateSpec.tla (CVDef, DVDef, CEDef).
#include "SimTKcommon.h"
#include "mini_json.h"
#include <cstdio>
#include <cstdlib>
#include <csignal>
#include <map>
#include <set>
#include <string>
#include <vector>
#include <unistd.h>

using namespace SimTK;
using std::string;

struct CVD { const char* name; int own; int alloc; char kind; };
struct DVD { const char* name; int own; int alloc; int inv; const char* autoc; };
struct CED { const char* name; int own; int alloc; int dep; int comp; std::vector<string> pre; };

static const CVD CVs[] = {{"q0",0,1,'q'},{"u0",0,1,'u'},{"z0",0,2,'z'},{"q1",1,2,'q'}};
static const DVD DVsDef[] = {
    {"d0",0,1,2,""},{"d1",0,2,3,""},{"d2",1,1,7,""},{"d3",1,2,7,"c5"},{"d4",0,1,9,"c6"}};
static const CED CEsDef[] = {
    {"c0",0,1,5,10,{}},{"c1",0,2,4,6,{}},{"c2",1,3,5,10,{"d2","c0"}},{"c3",1,1,2,10,{"q"}},
    {"c4",0,1,1,10,{}},{"c5",1,2,4,10,{}},{"c6",0,1,6,10,{}},{"c7",1,2,3,7,{"z","d1","u"}},{"c8",1,3,4,10,{"d3"}},{"c9",1,2,3,10,{"c7"}}};

static const DVD* dvDef(const string& n){ for (auto& d: DVsDef) if (n==d.name) return &d; return nullptr; }
static const CED* ceDef(const string& n){ for (auto& c: CEsDef) if (n==c.name) return &c; return nullptr; }
static const CVD* cvDef(const string& n){ for (auto& c: CVs) if (n==c.name) return &c; return nullptr; }

struct Obj {
    State st;
    std::map<string,int> dvIdx, ceIdx, cvIdx;   // last index handed out by the real allocation
    bool haveSnap = false;
    Array_<StageVersion> snap;
};

static std::set<string> inDV, inCE;
static std::map<int,Obj*> objs;
static FILE* out = stdout;

static void freshObj(Obj& o) {
    o.st.clear();
    o.st.setNumSubsystems(2);
    o.dvIdx.clear(); o.ceIdx.clear(); o.cvIdx.clear();
    o.haveSnap = false; o.snap.clear();
}

static bool isAutoEntry(const string& c) {
    for (auto& d: DVsDef) if (c==d.autoc && inDV.count(d.name)) return true;
    return false;
}

static void allocateFor(Obj& o, int s, int g) {
    SubsystemIndex sx(s);
    for (auto& v: CVs) if (v.own==s && v.alloc==g) {
        Vector init(1, Real(0));
        int ix = v.kind=='q' ? (int)o.st.allocateQ(sx, init)
               : v.kind=='u' ? (int)o.st.allocateU(sx, init) : (int)o.st.allocateZ(sx, init);
        o.cvIdx[v.name] = ix;
    }
    for (auto& d: DVsDef) if (d.own==s && d.alloc==g && inDV.count(d.name)) {
        if (d.autoc[0]) {
            const CED* c = ceDef(d.autoc);
            DiscreteVariableIndex dx = o.st.allocateAutoUpdateDiscreteVariable
                (sx, Stage(d.inv), new Value<int>(0), Stage(c->dep));
            o.dvIdx[d.name] = dx;
            o.ceIdx[c->name] = o.st.getDiscreteVarUpdateIndex(sx, dx);
        } else
            o.dvIdx[d.name] = o.st.allocateDiscreteVariable(sx, Stage(d.inv), new Value<int>(0));
    }
    for (auto& c: CEsDef) if (c.own==s && c.alloc==g && inCE.count(c.name) && !isAutoEntry(c.name)) {
        if (c.pre.empty())
            o.ceIdx[c.name] = o.st.allocateCacheEntry(sx, Stage(c.dep), Stage(c.comp), new Value<int>(0));
        else {
            bool q=false,u=false,z=false; Array_<DiscreteVarKey> dks; Array_<CacheEntryKey> cks;
            for (auto& p: c.pre) {
                if (p=="q") q=true; else if (p=="u") u=true; else if (p=="z") z=true;
                else if (p[0]=='d') dks.push_back(DiscreteVarKey(SubsystemIndex(dvDef(p)->own),
                                                  DiscreteVariableIndex(o.dvIdx.at(p))));
                else cks.push_back(CacheEntryKey(SubsystemIndex(ceDef(p)->own),
                                                  CacheEntryIndex(o.ceIdx.at(p))));
            }
            o.ceIdx[c.name] = o.st.allocateCacheEntryWithPrerequisites
                (sx, Stage(c.dep), Stage(c.comp), q, u, z, dks, cks, new Value<int>(0));
        }
    }
}

static bool exD(const Obj& o, const string& d) {
    auto it = o.dvIdx.find(d); if (it==o.dvIdx.end()) return false;
    return o.st.hasDiscreteVar(DiscreteVarKey(SubsystemIndex(dvDef(d)->own), DiscreteVariableIndex(it->second)));
}
static bool exC(const Obj& o, const string& c) {
    auto it = o.ceIdx.find(c); if (it==o.ceIdx.end()) return false;
    return o.st.hasCacheEntry(CacheEntryKey(SubsystemIndex(ceDef(c)->own), CacheEntryIndex(it->second)));
}
static int tok(Real x) { return isNaN(x) ? -1 : (int)x; }

static string obs(const Obj& o) {
    const State& s = o.st;
    string r = "{";
    int sys = s.getSystemStage();
    r += "\"sys\":" + std::to_string(sys);
    r += ",\"stg\":{\"s0\":" + std::to_string((int)s.getSubsystemStage(SubsystemIndex(0)))
       + ",\"s1\":" + std::to_string((int)s.getSubsystemStage(SubsystemIndex(1))) + "}";
    r += ",\"t\":" + std::to_string(tok(s.getTime()));
    r += ",\"cv\":{";
    bool first=true;
    for (auto& v: CVs) {
        int val = 0;
        if (sys >= Stage::Model) {
            SubsystemIndex sx(v.own);
            const Vector& vec = v.kind=='q' ? s.getQ(sx) : v.kind=='u' ? s.getU(sx) : s.getZ(sx);
            auto it = o.cvIdx.find(v.name);
            val = (it!=o.cvIdx.end() && it->second < vec.size()) ? (int)vec[it->second] : -99;
        }
        r += string(first?"":",") + "\"" + v.name + "\":" + std::to_string(val); first=false;
    }
    r += "}";
    string exd="{", dv="{", lu="{", dver="{";
    first=true;
    for (auto& d: DVsDef) if (inDV.count(d.name)) {
        bool e = exD(o, d.name); int val=0, l=-1; long long ver=0;
        if (e) { SubsystemIndex sx(d.own); DiscreteVariableIndex dx(o.dvIdx.at(d.name));
            val = Value<int>::downcast(s.getDiscreteVariable(sx,dx)).get();
            l = tok(s.getDiscreteVarLastUpdateTime(sx,dx));
            ver = s.getDiscreteVarInfo(DiscreteVarKey(sx,dx)).getValueVersion(); }
        string k = string(first?"":",") + "\"" + d.name + "\":"; first=false;
        exd += k + (e?"true":"false"); dv += k + std::to_string(val); lu += k + std::to_string(l);
        dver += k + std::to_string(ver);
    }
    r += ",\"exd\":" + exd + "},\"dv\":" + dv + "},\"lu\":" + lu + "}";
    string exc="{", ce="{", va="{", gt="{", cver="{";
    first=true;
    for (auto& c: CEsDef) if (inCE.count(c.name)) {
        bool e = exC(o, c.name); int val=0; bool valid=false, thr=true; long long ver=0;
        if (e) { SubsystemIndex sx(c.own); CacheEntryIndex cx(o.ceIdx.at(c.name));
            val = Value<int>::downcast(s.updCacheEntry(sx,cx)).get();
            valid = s.isCacheValueRealized(sx,cx);
            try { (void)s.getCacheEntry(sx,cx); thr=false; } catch (const std::exception&) { thr=true; }
            ver = s.getCacheEntryInfo(CacheEntryKey(sx,cx)).getValueVersion(); }
        string k = string(first?"":",") + "\"" + c.name + "\":"; first=false;
        exc += k + (e?"true":"false"); ce += k + std::to_string(val);
        va += k + (valid?"true":"false"); gt += k + (thr?"true":"false"); cver += k + std::to_string(ver);
    }
    r += ",\"exc\":" + exc + "},\"ce\":" + ce + "},\"valid\":" + va + "},\"gthrows\":" + gt + "}";
    int diff = -1;
    if (o.haveSnap) diff = (int)s.getLowestSystemStageDifference(o.snap);
    if (diff > 10) diff = 10;
    r += ",\"diff\":" + std::to_string(diff);
    r += ",\"cnt\":{\"q\":" + std::to_string((long long)s.getQValueVersion())
       + ",\"u\":" + std::to_string((long long)s.getUValueVersion())
       + ",\"z\":" + std::to_string((long long)s.getZValueVersion());
    for (auto& d: DVsDef) if (inDV.count(d.name)) {
        long long ver=0;
        if (exD(o,d.name)) ver = s.getDiscreteVarInfo(DiscreteVarKey(SubsystemIndex(d.own),
                                   DiscreteVariableIndex(o.dvIdx.at(d.name)))).getValueVersion();
        r += string(",\"") + d.name + "\":" + std::to_string(ver);
    }
    r += "}";
    r += ",\"nq\":" + std::to_string(sys>=Stage::Model ? s.getNQ() : -1);
    r += "}";
    return r;
}

static void emit(const string& actJson, const string& exc) {
    string line = "{\"act\":" + actJson + ",\"exc\":" + (exc.empty() ? "\"\"" : mj::quote(exc)) + ",\"obs\":{";
    bool first=true;
    for (auto& kv: objs) {
        line += string(first?"":",") + "\"" + std::to_string(kv.first) + "\":" + obs(*kv.second); first=false;
    }
    line += "}}\n";
    fputs(line.c_str(), out); fflush(out);
}

static void onCrash(int sig) {
    const char msg[] = "{\"crash\":true}\n";
    if (out) { fputs(msg, out); fflush(out); }
    _exit(3);
}

int main(int argc, char** argv) {
    FILE* in = stdin;
    if (argc > 1) in = fopen(argv[1], "r");
    if (argc > 2) out = fopen(argv[2], "w");
    if (!in || !out) { fprintf(stderr, "cannot open files\n"); return 2; }
    signal(SIGSEGV, onCrash); signal(SIGABRT, onCrash); signal(SIGFPE, onCrash);
    std::set_terminate([]{ onCrash(0); });
    int nObj = 2;
    char* buf = nullptr; size_t cap = 0;
    while (getline(&buf, &cap, in) > 0) {
        mj::Value a = mj::parse(buf);
        if (!a.isObject()) continue;
        string name = a["a"].str();
        string exc;
        try {
            if (name == "Reset") {
                inDV.clear(); inCE.clear();
                for (auto& x: a["dvs"].arr()) inDV.insert(x.str());
                for (auto& x: a["ces"].arr()) inCE.insert(x.str());
                if (a.has("n")) nObj = a["n"].num();
                for (auto& kv: objs) delete kv.second;
                objs.clear();
                for (int i=1; i<=nObj; ++i) { objs[i] = new Obj(); freshObj(*objs[i]); }
            } else {
                Obj& o = *objs.at(a["st"].num());
                State& s = o.st;
                if (name == "Realize") {
                    int sub = a["s"].str()=="s0" ? 0 : 1, g = a["g"].num();
                    allocateFor(o, sub, g);
                    s.advanceSubsystemToStage(SubsystemIndex(sub), Stage(g));
                } else if (name == "AdvanceSys") {
                    s.advanceSystemToStage(Stage(a["g"].num()));
                } else if (name == "InvalidateAll") {
                    s.invalidateAll(Stage(a["g"].num()));
                } else if (name == "InvalidateCache") {
                    s.invalidateAllCacheAtOrAbove(Stage(a["g"].num()));
                } else if (name == "UpdT") {
                    if (a["v"].num() % 2) s.updTime() = a["v"].num(); else s.setTime(a["v"].num());
                } else if (name == "UpdCV") {
                    const CVD* v = cvDef(a["x"].str()); SubsystemIndex sx(v->own);
                    int li = o.cvIdx.at(v->name); Real val = a["v"].num();
                    if (a["how"].str() == "sub") {
                        if (v->kind=='q') s.updQ(sx)[li] = val; else if (v->kind=='u') s.updU(sx)[li] = val;
                        else s.updZ(sx)[li] = val;
                    } else {
                        if (v->kind=='q') s.updQ()[(int)s.getQStart(sx)+li] = val;
                        else if (v->kind=='u') s.updU()[(int)s.getUStart(sx)+li] = val;
                        else s.updZ()[(int)s.getZStart(sx)+li] = val;
                    }
                } else if (name == "UpdY") {
                    s.updY() = Real(a["v"].num());
                } else if (name == "UpdW") {
                    string w = a["w"].str();
                    if (w=="uw") s.updUWeights(); else if (w=="zw") s.updZWeights();
                    else if (w=="uwsub") s.updUWeights(SubsystemIndex(0));
                    else if (w=="zwsub") s.updZWeights(SubsystemIndex(0));
                    else if (w=="qerrw") s.updQErrWeights(); else if (w=="uerrw") s.updUErrWeights();
                } else if (name == "UpdDV") {
                    const DVD* d = dvDef(a["d"].str());
                    Value<int>::updDowncast(s.updDiscreteVariable(SubsystemIndex(d->own),
                        DiscreteVariableIndex(o.dvIdx.at(d->name)))) = a["v"].num();
                } else if (name == "SetCE") {
                    const CED* c = ceDef(a["c"].str());
                    Value<int>::updDowncast(s.updCacheEntry(SubsystemIndex(c->own),
                        CacheEntryIndex(o.ceIdx.at(c->name)))) = a["v"].num();
                } else if (name == "MarkValid") {
                    const CED* c = ceDef(a["c"].str());
                    s.markCacheValueRealized(SubsystemIndex(c->own), CacheEntryIndex(o.ceIdx.at(c->name)));
                } else if (name == "MarkInvalid") {
                    const CED* c = ceDef(a["c"].str());
                    s.markCacheValueNotRealized(SubsystemIndex(c->own), CacheEntryIndex(o.ceIdx.at(c->name)));
                } else if (name == "AutoUpdate") {
                    s.autoUpdateDiscreteVariables();
                } else if (name == "Snapshot") {
                    s.getSystemStageVersions(o.snap); o.haveSnap = true;
                } else if (name == "Clear") {
                    freshObj(o);
                } else if (name == "CopyAssign" || name == "CopyConstruct" || name == "MoveAssign") {
                    Obj& src = *objs.at(a["src"].num());
                    if (name == "CopyAssign") {
                        s = src.st;
                        o.dvIdx = src.dvIdx; o.ceIdx = src.ceIdx; o.cvIdx = src.cvIdx;
                    } else if (name == "CopyConstruct") {
                        State tmp(src.st);
                        s = std::move(tmp);
                        o.dvIdx = src.dvIdx; o.ceIdx = src.ceIdx; o.cvIdx = src.cvIdx;
                    } else {
                        s = std::move(src.st);
                        std::swap(o.dvIdx, src.dvIdx); std::swap(o.ceIdx, src.ceIdx); std::swap(o.cvIdx, src.cvIdx);
                        src.haveSnap = false;
                    }
                    o.haveSnap = false;
                } else {
                    exc = "unknown action " + name;
                }
            }
        } catch (const std::exception& e) {
            exc = e.what();
            if (exc.size() > 200) exc.resize(200);
        }
        string line(buf);
        while (!line.empty() && (line.back()=='\n' || line.back()=='\r')) line.pop_back();
        emit(line, exc);
    }
    return 0;
}
