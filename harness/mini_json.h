// Minimal JSON reader/writer helpers for the harnesses (no external dependency).
#pragma once
#include <map>
#include <string>
#include <vector>
#include <stdexcept>
#include <cstdlib>
#include <cstring>
#include <cstdio>

namespace mj {
struct Value {
    enum Kind { Null, Bool, Num, Str, Arr, Obj } kind = Null;
    bool b = false; double n = 0; std::string s;
    std::vector<Value> a; std::map<std::string, Value> o;
    bool isObject() const { return kind == Obj; }
    bool isArray() const { return kind == Arr; }
    bool has(const std::string& k) const { return kind == Obj && o.count(k); }
    const Value& operator[](const std::string& k) const {
        static Value nul; auto it = o.find(k); return it == o.end() ? nul : it->second; }
    const Value& operator[](size_t i) const { return a.at(i); }
    size_t size() const { return kind == Arr ? a.size() : o.size(); }
    int num() const { return (int)n; }
    double dbl() const { return n; }
    bool boolean() const { return kind == Bool ? b : n != 0; }
    const std::string& str() const { return s; }
    const std::vector<Value>& arr() const { return a; }
};
struct Parser {
    const char* p;
    void ws() { while (*p==' '||*p=='\t'||*p=='\n'||*p=='\r') ++p; }
    Value val() {
        ws(); Value v;
        if (*p=='{') { ++p; v.kind=Value::Obj; ws(); if (*p=='}') {++p; return v;}
            for (;;) { ws(); Value k = val(); ws(); if (*p!=':') throw std::runtime_error("json ':'"); ++p;
                v.o[k.s] = val(); ws(); if (*p==',') {++p; continue;} if (*p=='}') {++p; break;}
                throw std::runtime_error("json obj"); }
        } else if (*p=='[') { ++p; v.kind=Value::Arr; ws(); if (*p==']') {++p; return v;}
            for (;;) { v.a.push_back(val()); ws(); if (*p==',') {++p; continue;} if (*p==']') {++p; break;}
                throw std::runtime_error("json arr"); }
        } else if (*p=='"') { ++p; v.kind=Value::Str;
            while (*p && *p!='"') { if (*p=='\\') { ++p; char c=*p++;
                    switch (c) { case 'n': v.s+='\n'; break; case 't': v.s+='\t'; break; case 'r': v.s+='\r'; break;
                        case 'u': { unsigned x=0; sscanf(p, "%4x", &x); p+=4; v.s += (char)x; break; }
                        default: v.s+=c; } }
                else v.s += *p++; }
            if (*p=='"') ++p;
        } else if (!strncmp(p,"true",4)) { p+=4; v.kind=Value::Bool; v.b=true; v.n=1; }
        else if (!strncmp(p,"false",5)) { p+=5; v.kind=Value::Bool; v.b=false; }
        else if (!strncmp(p,"null",4)) { p+=4; }
        else { char* e; v.kind=Value::Num; v.n=strtod(p,&e); if (e==p) throw std::runtime_error("json value"); p=e; }
        return v;
    }
};
inline Value parse(const char* text) { Parser ps{text}; try { return ps.val(); } catch (...) { return Value(); } }
inline std::string quote(const std::string& s) {
    std::string r = "\"";
    for (unsigned char c : s) {
        if (c=='"' || c=='\\') { r += '\\'; r += (char)c; }
        else if (c=='\n') r += "\\n"; else if (c=='\t') r += "\\t"; else if (c=='\r') r += "\\r";
        else if (c < 0x20 || c >= 0x7f) { char b[8]; snprintf(b, sizeof b, "\\u%04x", c); r += b; }
        else r += (char)c;
    }
    return r + "\"";
}
} // namespace mj
