// E9/C10 harness: executes programs of lock / unlock / lockAt / Motion enable-disable / set / prescribe
// actions on a real system whose mobilizers mirror spec/Lock/LockMC (Mot5, DL5, DQ5) and records, after
// every action, what the State shows: q and u of every mobilizer, udot after realize(Acceleration), lock
// level and recorded lock value, and the verdict of the force oracle: the forces reported for prescribed
// mobilities (findMotionForces), applied as ordinary mobility forces to the SAME model without any
// prescription at the same t, q, u (with the documented sign: M udot + tau = f, so -tau is applied), must
// reproduce the same udot for every mobility.
// usage: record_lock <programs.ndjson> <out.ndjson>
#include "Simbody.h"
#include "mini_json.h"
#include <fstream>
#include <sstream>
using namespace SimTK;
using std::string;

struct LinMotion : Motion::Custom::Implementation {
    Motion::Level level; Real a, b;
    LinMotion(Motion::Level l, Real a, Real b) : level(l), a(a), b(b) {}
    Implementation* clone() const override { return new LinMotion(*this); }
    Motion::Level getLevel(const State&) const override { return level; }
    void calcPrescribedPosition(const State& s, int nq, Real* q) const override { q[0] = a + b * s.getTime(); }
    void calcPrescribedPositionDot(const State&, int nq, Real* qd) const override { qd[0] = b; }
    void calcPrescribedPositionDotDot(const State&, int nq, Real* qdd) const override { qdd[0] = 0; }
    void calcPrescribedVelocity(const State& s, int nu, Real* u) const override { u[0] = a + b * s.getTime(); }
    void calcPrescribedVelocityDot(const State&, int nu, Real* ud) const override { ud[0] = b; }
    void calcPrescribedAcceleration(const State&, int nu, Real* ud) const override { ud[0] = a; }
};

struct Model {
    MultibodySystem sys; SimbodyMatterSubsystem matter; GeneralForceSubsystem forces;
    std::vector<MobilizedBody> mb; std::vector<Motion> motion; Force::DiscreteForces* df = nullptr;
    Model(bool prescriptions) : matter(sys), forces(sys) {
        Force::Gravity(forces, matter, Vec3(0.3, -9.8, 0.1));
        Body::Rigid body(MassProperties(2.0, Vec3(0.1, -0.2, 0.05), Inertia(0.3, 0.4, 0.5)));
        mb.push_back(MobilizedBody::Pin(matter.Ground(), Transform(Rotation(0.3, XAxis), Vec3(0)), body, Transform(Vec3(0, 0.5, 0))));
        mb.push_back(MobilizedBody::Slider(mb[0], Transform(Vec3(0.2, 0, 0)), body, Transform(Rotation(0.4, YAxis), Vec3(0, 0.3, 0))));
        mb.push_back(MobilizedBody::Pin(mb[1], Transform(Rotation(-0.5, YAxis), Vec3(0, -0.2, 0)), body, Transform(Vec3(0.1, 0.4, 0))));
        mb.push_back(MobilizedBody::Pin(mb[2], Transform(Vec3(0)), body, Transform(Vec3(0, 0.5, 0.1))));
        mb.push_back(MobilizedBody::Slider(matter.Ground(), Transform(Vec3(1, 0, 0)), body, Transform()));
        MobilizedBody::Pin::updDowncast(mb[3]).setDefaultAngle(1);
        MobilizedBody::Slider::updDowncast(mb[4]).setDefaultLength(2);
        Force::MobilityLinearSpring(forces, mb[3], MobilizerQIndex(0), 7.0, 0.2);
        Force::TwoPointLinearSpring(forces, mb[4], Vec3(0), mb[2], Vec3(0, 0.1, 0), 11.0, 0.7);
        if (prescriptions) {
            motion.push_back(Motion::Custom(mb[0], new LinMotion(Motion::Position, 1, 2)));
            motion.push_back(Motion::Custom(mb[1], new LinMotion(Motion::Velocity, -1, 1)));
            motion.push_back(Motion::Custom(mb[2], new LinMotion(Motion::Acceleration, 3, 0)));
            mb[4].lockByDefault(Motion::Position);
        }
        df = new Force::DiscreteForces(forces, matter);
        sys.realizeTopology();
    }
};

static Motion::Level levelOf(const string& s) { return s == "pos" ? Motion::Position : s == "vel" ? Motion::Velocity : Motion::Acceleration; }
static const char* nameOf(Motion::Level l) { return l == Motion::Position ? "pos" : l == Motion::Velocity ? "vel" : l == Motion::Acceleration ? "acc" : "none"; }
static string num(double x) { if (x != x) return "NaN"; if (x > 1e308) return "Infinity"; if (x < -1e308) return "-Infinity"; char b[40]; snprintf(b, sizeof b, "%.17g", x); return b; }

int main(int argc, char** argv) {
    if (argc < 3) return 2;
    std::ifstream in(argv[1]);
    FILE* out = fopen(argv[2], "w");
    Model real(true), plain(false);
    string line;
    while (std::getline(in, line)) {
        mj::Value prog = mj::parse(line.c_str());
        if (!prog.isArray()) continue;
        State s = real.sys.getDefaultState(); real.sys.realizeModel(s);
        State p = plain.sys.getDefaultState(); plain.sys.realizeModel(p);
        bool first = true;
        for (auto& a : prog.arr()) {
            const string op = first ? "reset" : a["op"].str();
            string exc;
            try {
                if (!first) {
                    const int m = a.has("m") ? (int)a["m"].num() - 1 : 0; const double v = a.has("v") ? a["v"].dbl() : 0;
                    if (op == "setTime") s.setTime(v);
                    else if (op == "setQ") real.mb[m].setOneQ(s, 0, v);
                    else if (op == "setU") real.mb[m].setOneU(s, 0, v);
                    else if (op == "lock") real.mb[m].lock(s, levelOf(a["lv"].str()));
                    else if (op == "lockAt") real.mb[m].lockAt(s, v, levelOf(a["lv"].str()));
                    else if (op == "unlock") real.mb[m].unlock(s);
                    else if (op == "disable") real.motion[m].disable(s);
                    else if (op == "enable") real.motion[m].enable(s);
                    else if (op == "prescribe") real.sys.prescribe(s);
                    else throw std::runtime_error("unknown op " + op);
                }
                State w = s;
                real.sys.realize(w, Stage::Acceleration);
                // force oracle on the model without prescriptions
                Vector f; real.matter.findMotionForces(w, f);
                p.setTime(s.getTime()); p.updQ() = s.getQ(); p.updU() = s.getU();
                // documented convention: M udot + tau + f_inertial = f_applied, so the equivalent applied force is -tau
                plain.df->setAllMobilityForces(p, Vector(-f));
                plain.sys.realize(p, Stage::Acceleration);
                const double err = (p.getUDot() - w.getUDot()).normInf();
                std::ostringstream js;
                js << "{\"op\":\"" << op << "\",\"m\":" << (a.has("m") ? (int)a["m"].num() : 0) << ",\"v\":" << (a.has("v") ? (int)a["v"].num() : 0)
                   << ",\"lv\":\"" << (a.has("lv") ? a["lv"].str() : string("none")) << "\"";
                js << ",\"q\":["; for (int i = 0; i < 5; ++i) js << (i ? "," : "") << num(real.mb[i].getOneQ(s, 0)); js << "]";
                js << ",\"u\":["; for (int i = 0; i < 5; ++i) js << (i ? "," : "") << num(real.mb[i].getOneU(s, 0)); js << "]";
                js << ",\"ud\":["; for (int i = 0; i < 5; ++i) js << (i ? "," : "") << num(real.mb[i].getOneUDot(w, 0)); js << "]";
                js << ",\"lock\":["; for (int i = 0; i < 5; ++i) js << (i ? "," : "") << "\"" << nameOf(real.mb[i].getLockLevel(s)) << "\""; js << "]";
                js << ",\"lockVal\":["; for (int i = 0; i < 5; ++i) { const Vector lv = real.mb[i].getLockValueAsVector(s); js << (i ? "," : "") << num(lv.size() ? lv[0] : 0.0); } js << "]";
                js << ",\"oracleErr\":" << num(err) << ",\"exc\":\"\"}";
                fprintf(out, "%s\n", js.str().c_str());
            } catch (const std::exception& e) {
                fprintf(out, "{\"op\":\"%s\",\"exc\":%s}\n", op.c_str(), mj::quote(string(e.what()).substr(0, 300)).c_str());
                break;
            }
            first = false;
        }
        fflush(out);
    }
    fclose(out);
    return 0;
}
