// E6/C25 harness: interprets programs of spec/Data/MatrixModel.tla on real Matrix_<E> objects (E = double and
// float) and the real view classes: a view term [base, i, j, m, n, tr, neg, sel, k] is built with the library's
// own updBlock / updTranspose / updNegate / updRow / updCol / updDiag, and every action is done by the
// library's own operators on those view objects (setTo, =, +=, -=, *=, +, -, *, elementwiseMultiply, colSum,
// rowSum, normSqr, copy construction).  After every action the three objects and the expression value are
// reported as integers.
// usage: replay_matrix <programs.ndjson> <out.ndjson>
#include "SimTKcommon.h"
#include "mini_json.h"
#include <fstream>
#include <sstream>
#include <type_traits>
using namespace SimTK;
using std::string;

struct VS { string base; int i, j, m, n, tr, neg; string sel; int k; };
static VS vs(const mj::Value& v) { return VS{v["base"].str(), (int)v["i"].num(), (int)v["j"].num(), (int)v["m"].num(), (int)v["n"].num(), (int)v["tr"].num(), (int)v["neg"].num(), v["sel"].str(), (int)v["k"].num()}; }

// kinds of view / result objects: 0 matrix-like, 1 column vector, 2 row vector (whatever the concrete class)
template <class E> std::integral_constant<int, 1> kindOf(const VectorBase<E>*);
template <class E> std::integral_constant<int, 2> kindOf(const RowVectorBase<E>*);
std::integral_constant<int, 0> kindOf(const void*);
template <class T> struct Kind { static const int value = decltype(kindOf((const T*)nullptr))::value; };

template <class V> static string dense(const V& v) {      // as a matrix of integers
    std::ostringstream o; o << "[";
    if constexpr (Kind<V>::value == 0) {
        for (int r = 0; r < v.nrow(); ++r) { o << (r ? "," : "") << "["; for (int c = 0; c < v.ncol(); ++c) o << (c ? "," : "") << (long)std::lround((double)v(r, c)); o << "]"; }
    } else if constexpr (Kind<V>::value == 1) {
        for (int r = 0; r < v.size(); ++r) o << (r ? "," : "") << "[" << (long)std::lround((double)v[r]) << "]";
    } else {
        if (v.size() >= 0) { o << "["; for (int c = 0; c < v.size(); ++c) o << (c ? "," : "") << (long)std::lround((double)v[c]); o << "]"; }
    }
    o << "]"; return o.str();
}

template <class MV, class F> static void withSel(MV&& v, const VS& s, F&& f) {
    if (s.sel == "all") f(v);
    else if (s.sel == "row") { auto r = v.updRow(s.k); f(r); }
    else if (s.sel == "col") { auto c = v.updCol(s.k); f(c); }
    else { auto d = v.updDiag(); f(d); }
}
template <class MV, class F> static void withNeg(MV&& v, const VS& s, F&& f) {
    if (!s.neg) withSel(v, s, f); else withSel(v.updNegate(), s, f);
}
template <class E, class F> static void withView(Matrix_<E>& base, const VS& s, F&& f) {
    MatrixView_<E> b = base.updBlock(s.i, s.j, s.m, s.n);
    if (!s.tr) withNeg(b, s, f); else { auto t = b.updTranspose(); withNeg(t, s, f); }
}

template <class E> struct Machine {
    Matrix_<E> A, B, C; string res = "[]", note;
    Matrix_<E>& obj(const string& n) { return n == "A" ? A : n == "B" ? B : C; }

    bool step(const mj::Value& a) {
        const string op = a["op"].str();
        const int m = a["m"].num(), n = a["n"].num(), i = a["i"].num(), j = a["j"].num(); const E c = (E)a["c"].dbl();
        res = "[]";
        if (op == "resizeFill") { Matrix_<E>& X = obj(a["x"].str()); X.resize(m, n); X.setTo(c); }
        else if (op == "resizeKeep") { Matrix_<E>& X = obj(a["x"].str()); const int r0 = X.nrow(), c0 = X.ncol(); X.resizeKeep(m, n);
                                       for (int r = 0; r < m; ++r) for (int cc = 0; cc < n; ++cc) if (r >= r0 || cc >= c0) X(r, cc) = c; }
        else if (op == "setElt") obj(a["x"].str())(i, j) = c;
        else if (op == "fill") { const VS d = vs(a["d"]); withView(obj(d.base), d, [&](auto& v) { v.setTo(typename std::decay_t<decltype(v)>::E(c)); }); }
        else if (op == "scaleBy") { const VS d = vs(a["d"]); withView(obj(d.base), d, [&](auto& v) { v *= c; }); }
        else if (op == "copyTo") { const VS s = vs(a["s"]); Matrix_<E>& X = obj(a["x"].str());
            withView(obj(s.base), s, [&](auto& v) {
                using V = std::decay_t<decltype(v)>;
                if constexpr (Kind<V>::value == 0) { Matrix_<E> T(v); X = T; }                 // object from a view: a copy
                else if constexpr (Kind<V>::value == 1) { Vector_<E> T(v); X.resize(T.size(), 1); X.updCol(0) = T; }
                else { RowVector_<E> T(v); X.resize(1, T.size()); X.updRow(0) = T; } }); }
        else if (op == "assign" || op == "addTo" || op == "subFrom") {
            const VS d = vs(a["d"]), s = vs(a["s"]);
            withView(obj(d.base), d, [&](auto& dv) { withView(obj(s.base), s, [&](auto& sv) {
                using D = std::decay_t<decltype(dv)>; using S = std::decay_t<decltype(sv)>;
                // (the library offers no assignment between views of negated and plain elements: same element type only)
                if constexpr (!std::is_same<typename D::E, typename S::E>::value) note = "kinds";
                else if constexpr (Kind<D>::value == Kind<S>::value) { if (op == "assign") dv = sv; else if (op == "addTo") dv += sv; else dv -= sv; }
                else {   // a row of one and a column of the other: go through the transposed view of the source
                    if constexpr (Kind<D>::value != 0 && Kind<S>::value != 0) { if (op == "assign") dv = ~sv; else if (op == "addTo") dv += ~sv; else dv -= ~sv; }
                    else note = "kinds"; } }); });
        }
        else {   // expressions
            const VS s = vs(a["s"]);
            withView(obj(s.base), s, [&](auto& sv) {
                using S = std::decay_t<decltype(sv)>;
                if (op == "val") res = dense(sv);
                else if (op == "smul") { auto r = sv * c; res = dense(r); }
                else if (op == "normSqr") { std::ostringstream o; o << "[[" << (long)std::lround((double)sv.normSqr()) << "]]"; res = o.str(); }
                else if (op == "colSum") { if constexpr (Kind<S>::value == 0) { auto r = sv.colSum(); res = dense(r); } else if constexpr (Kind<S>::value == 1) { std::ostringstream o; o << "[[" << (long)std::lround((double)sv.sum()) << "]]"; res = o.str(); } else res = dense(sv); }
                else if (op == "rowSum") { if constexpr (Kind<S>::value == 0) { auto r = sv.rowSum(); res = dense(r); } else if constexpr (Kind<S>::value == 2) { std::ostringstream o; o << "[[" << (long)std::lround((double)sv.sum()) << "]]"; res = o.str(); } else res = dense(sv); }
                else { const VS d = vs(a["d"]);
                    withView(obj(d.base), d, [&](auto& dv) {
                        using D = std::decay_t<decltype(dv)>;
                        if constexpr (!std::is_same<typename D::E, typename S::E>::value) note = "kinds";
                        else if (op == "add" || op == "sub" || op == "emul") {
                            if constexpr (Kind<D>::value == Kind<S>::value) {
                                if (op == "add") { auto r = sv + dv; res = dense(r); } else if (op == "sub") { auto r = sv - dv; res = dense(r); }
                                else { auto r = sv.elementwiseMultiply(dv); res = dense(r); } }
                            else note = "kinds";
                        } else if (op == "mul") {
                            if constexpr (Kind<S>::value == 2 && Kind<D>::value == 1) { std::ostringstream o; o << "[[" << (long)std::lround((double)(sv * dv)) << "]]"; res = o.str(); }
                            else if constexpr ((Kind<S>::value == 0 && Kind<D>::value != 2) || (Kind<S>::value == 2 && Kind<D>::value == 0)) { auto r = sv * dv; res = dense(r); }
                            else note = "kinds";
                        } }); } });
        }
        return true;
    }
};

template <class E> static void run(const mj::Value& prog, FILE* out, const char* tname, int lineno) {
    Machine<E> mc; int stepno = 0;
    for (auto& a : prog.arr()) {
        ++stepno; string exc;
        try { mc.note.clear(); mc.step(a); } catch (const std::exception& e) { exc = e.what(); }
        fprintf(out, "{\"prog\":%d,\"type\":\"%s\",\"step\":%d,\"A\":%s,\"B\":%s,\"C\":%s,\"res\":%s,\"note\":%s,\"exc\":%s}\n", lineno, tname, stepno,
                dense(mc.A).c_str(), dense(mc.B).c_str(), dense(mc.C).c_str(), mc.res.c_str(), mj::quote(mc.note).c_str(), mj::quote(exc.substr(0, 200)).c_str());
        if (!exc.empty()) break;
    }
}

int main(int argc, char** argv) {
    if (argc < 3) return 2;
    std::ifstream in(argv[1]);
    FILE* out = fopen(argv[2], "w");
    string line; int lineno = 0;
    while (std::getline(in, line)) {
        ++lineno;
        mj::Value p = mj::parse(line.c_str());
        if (!p.isArray()) continue;
        run<double>(p, out, "double", lineno);
        run<float>(p, out, "float", lineno);
    }
    fclose(out);
    return 0;
}
