// E3b harness (C17): replays configurations enumerated by TLC from spec/ForceSum on a real
// GeneralForceSubsystem.  Every element is a Force::Custom that adds an INTEGER to mobility force 0
// and to the torque on body 2, so sums are exact in floating point and independent of the order
// of summation: totals can be compared exactly with the specification's sum and across thread
// counts.  The non-parallel elements widen their own  array[i] += f  into read / wait / write,
// where the wait lasts until every other worker of the executor has completed finish() (seen
// through the ParallelExecutor hooks) or a timeout: if the array the element was handed is one
// that other workers' finish() also adds into, their contributions are lost deterministically.
//
// usage: replay_forcesum <configs.ndjson> <out.ndjson>
#include "Simbody.h"
#include "SimTKcommon/internal/VerifHooks.h"
#include "mini_json.h"
#include <atomic>
#include <chrono>
#include <thread>
#include <fstream>
#include <sstream>
#include <cstring>
#include <unistd.h>
#include <sys/syscall.h>

using namespace SimTK;
using std::string;

static std::atomic<int> gFinished{0};      // PE.incr events since the last publish
static std::atomic<int> gThreads{0};       // thread count of the executor of the current execute
static std::atomic<int> gInline{0};
static std::atomic<int> gPublishes{0};
static std::atomic<bool> gForce{true};
static void hook(const char* label, const void*, const void*, long a, long b, long) {
    if (!strcmp(label, "PE.publish")) { gFinished = 0; gThreads = (int)b; gInline = 0; gPublishes++; }
    else if (!strcmp(label, "PE.inline")) { gFinished = 0; gThreads = 1; gInline = 1; gPublishes++; }
    else if (!strcmp(label, "PE.incr")) gFinished++;
}

struct Elem : public Force::Custom::Implementation {
    bool par, pos; int f; MobilizedBody b1, b2; int id;
    mutable std::atomic<int> calls{0};
    Elem(bool par, bool pos, int f, MobilizedBody b1, MobilizedBody b2, int id)
    : par(par), pos(pos), f(f), b1(b1), b2(b2), id(id) {}
    bool dependsOnlyOnPositions() const override { return pos; }
    bool shouldBeParallelIfPossible() const override { return par; }
    void calcForce(const State& s, Vector_<SpatialVec>& bf, Vector_<Vec3>&, Vector& mf) const override {
        calls++;
        const int ux = 0;
        const MobilizedBodyIndex bx = b2.getMobilizedBodyIndex();
        if (!par && gForce && gThreads > 1) {
            // read ... wait for the other workers' finish() ... write
            const Real m0 = mf[ux]; const Real t0 = bf[bx][0][0];
            const auto start = std::chrono::steady_clock::now();
            while (gFinished < gThreads - 1 &&
                   std::chrono::steady_clock::now() - start < std::chrono::milliseconds(250))
                std::this_thread::yield();
            mf[ux] = m0 + f; bf[bx][0][0] = t0 + 2 * f;
        } else { mf[ux] += f; bf[bx][0][0] += 2 * f; }
    }
    Real calcPotentialEnergy(const State&) const override { return 0; }
};

int main(int argc, char** argv) {
    if (argc < 3) return 2;
    std::ifstream in(argv[1]);
    FILE* out = fopen(argv[2], "w");
    SimTK_verifSetHook(hook);
    string line; int lineno = 0;
    while (std::getline(in, line)) {
        ++lineno;
        mj::Value c = mj::parse(line.c_str());
        if (!c.isObject()) continue;
        std::ostringstream js;
        js << "{\"i\":" << lineno << ",\"res\":[";
        string exc;
        try {
            MultibodySystem system; SimbodyMatterSubsystem matter(system); GeneralForceSubsystem forces(system);
            Body::Rigid body(MassProperties(1, Vec3(0), Inertia(1)));
            MobilizedBody::Slider b1(matter.Ground(), Transform(), body, Transform());
            MobilizedBody::Pin b2(b1, Transform(Vec3(1, 0, 0)), body, Transform());
            std::vector<Elem*> elems; std::vector<Force::Custom> handles;
            int k = 0;
            for (auto& e : c["elems"].arr()) {
                Elem* el = new Elem(e["par"].boolean(), e["pos"].boolean(), e["f"].num(), b1, b2, k++);
                elems.push_back(el);
                handles.push_back(Force::Custom(forces, el));
                if (!e["en"].boolean()) handles.back().setDisabledByDefault(true);
            }
            forces.setNumberOfThreads(c["T"].num());
            gForce = !c.has("force") || c["force"].boolean();
            system.realizeTopology();
            State s = system.getDefaultState();
            bool first = true;
            for (auto& st : c["seq"].arr()) {
                const string op = st["op"].str();
                if (op == "q") b1.setOneQ(s, 0, st["v"].dbl());
                else if (op == "u") b1.setOneU(s, 0, st["v"].dbl());
                else if (op == "t") s.setTime(st["v"].dbl());
                else if (op == "en") handles[st["e"].num()].enable(s);
                else if (op == "dis") handles[st["e"].num()].disable(s);
                else if (op == "copy") { State c2(s); s = c2; }
                else if (op == "dyn") {
                    const int p0 = gPublishes;
                    system.realize(s, Stage::Dynamics);
                    const Real mob = system.getMobilityForces(s, Stage::Dynamics)[0];
                    const Real tq = system.getRigidBodyForces(s, Stage::Dynamics)[b2.getMobilizedBodyIndex()][0][0];
                    js << (first ? "" : ",") << "{\"mob\":" << mob << ",\"tq\":" << tq
                       << ",\"executes\":" << (gPublishes - p0) << ",\"threads\":" << gThreads << ",\"inline\":" << gInline << "}";
                    first = false;
                }
            }
        } catch (const std::exception& e) { exc = e.what(); }
        js << "],\"exc\":" << mj::quote(exc.substr(0, 300)) << "}";
        fprintf(out, "%s\n", js.str().c_str()); fflush(out);
    }
    fclose(out);
    return 0;
}
