// E8 harness (C46, C31): executes schedules enumerated by TLC from spec/Isolation/Isolation.tla.
// Instances are sequential programs of segments; after every segment a digest of the instance's whole
// observable state (time, continuous state, results; for random generators the values drawn) is
// recorded.  Mode "solo" runs each instance alone (reference table), mode "sched" interleaves.
// Also mode "range": Random::Uniform range checks for TLC-chosen ranges.
// usage: record_isolation <in.ndjson> <out.ndjson>
#include "Simbody.h"
#include "mini_json.h"
#include <fstream>
#include <sstream>
#include <memory>
#include <cstring>
using namespace SimTK;
using std::string;

struct Hash {
    uint64_t h = 1469598103934665603ULL;
    void add(const void* p, size_t n) { const unsigned char* c = (const unsigned char*)p; for (size_t i = 0; i < n; ++i) { h ^= c[i]; h *= 1099511628211ULL; } }
    void add(double x) { if (std::isnan(x)) x = 12345.678; add(&x, sizeof x); }
    void add(const Vector& v) { for (int i = 0; i < v.size(); ++i) add(v[i]); }
    string words() const { std::ostringstream o; o << "[" << (h & 0xffff) << "," << ((h >> 16) & 0xffff) << "," << ((h >> 32) & 0xffff) << "," << ((h >> 48) & 0xffff) << "]"; return o.str(); }
};

// segment numbers run on past nseg when the SAME objects are used for a repeat of the simulation:
// segment nseg+1 re-initialises them with the same initial state, nseg+2 steps again, ...
struct Instance { virtual ~Instance() {} virtual string segment(int k, int nseg) = 0; };

// results produced through the System's handlers and reporters are part of what must repeat
struct Results { Hash h; int reports = 0, events = 0; };
struct Kick : ScheduledEventHandler {      // one-shot at t = 0
    Results& res; const SimbodyMatterSubsystem& matter;
    Kick(Results& r, const SimbodyMatterSubsystem& m) : res(r), matter(m) {}
    Real getNextEventTime(const State& s, bool includeCurrent) const override { return (s.getTime() < 0 || (includeCurrent && s.getTime() == 0)) ? 0 : Infinity; }
    void handleEvent(State& s, Real, bool&) const override { s.updU()[s.getNU() - 1] += 0.25; res.events++; res.h.add(s.getTime()); }   // the last mobility is unconstrained in every model here
};
struct Rep : PeriodicEventReporter {
    Results& res;
    Rep(Results& r, Real dt) : PeriodicEventReporter(dt), res(r) {}
    void handleEvent(const State& s) const override { res.reports++; res.h.add(s.getTime()); res.h.add(s.getY()); }
};

// a simulation: model + integrator; segment 1 builds and initialises, later segments step
struct Sim : Instance {
    string kind, integName;
    std::unique_ptr<MultibodySystem> sys; std::unique_ptr<SimbodyMatterSubsystem> matter; std::unique_ptr<GeneralForceSubsystem> forces;
    std::unique_ptr<ContactTrackerSubsystem> tracker; std::unique_ptr<CompliantContactSubsystem> contact;
    std::unique_ptr<Integrator> integ; std::unique_ptr<TimeStepper> ts;
    Results res; string reuse;
    Sim(const string& kind, const string& integ, const string& reuse) : kind(kind), integName(integ), reuse(reuse) {}
    void makeIntegrator() {
        if (integName == "RKM") integ.reset(new RungeKuttaMersonIntegrator(*sys));
        else if (integName == "CPodes") integ.reset(new CPodesIntegrator(*sys));
        else if (integName == "Verlet") integ.reset(new VerletIntegrator(*sys));
        else if (integName == "RK3") integ.reset(new RungeKutta3Integrator(*sys));
        else if (integName == "SEE2") integ.reset(new SemiExplicitEuler2Integrator(*sys));
        else integ.reset(new RungeKuttaFeldbergIntegrator(*sys));
        integ->setAccuracy(1e-4);
    }
    // repeat the simulation with the same System and TimeStepper (and, unless reuse == "ts", the same Integrator)
    void reinit() {
        res = Results();
        if (reuse == "ts") { makeIntegrator(); ts->setIntegrator(*integ); }
        ts->initialize(sys->getDefaultState());
    }
    void build() {
        sys.reset(new MultibodySystem()); matter.reset(new SimbodyMatterSubsystem(*sys)); forces.reset(new GeneralForceSubsystem(*sys));
        forces->setNumberOfThreads(1);
        Force::Gravity(*forces, *matter, Vec3(0, -9.8, 0));
        Body::Rigid body(MassProperties(1.0, Vec3(0), Inertia(1)));
        if (kind == "contact") {
            tracker.reset(new ContactTrackerSubsystem(*sys)); contact.reset(new CompliantContactSubsystem(*sys, *tracker));
            matter->Ground().updBody().addContactSurface(Transform(Rotation(-Pi / 2, ZAxis), Vec3(0)),
                ContactSurface(ContactGeometry::HalfSpace(), ContactMaterial(1e5, 0.3, 0.5, 0.5, 0.1)));
            body.addContactSurface(Transform(), ContactSurface(ContactGeometry::Sphere(0.3), ContactMaterial(1e5, 0.3, 0.5, 0.5, 0.1)));
            MobilizedBody::Free ball(matter->Ground(), Transform(Vec3(0, 0.5, 0)), body, Transform());
            MobilizedBody::Free ball2(matter->Ground(), Transform(Vec3(1, 0.35, 0)), body, Transform());
        } else if (kind == "loop") {
            MobilizedBody::Pin p1(matter->Ground(), Transform(Vec3(0)), body, Transform(Vec3(0, 1, 0)));
            MobilizedBody::Pin p2(p1, Transform(Vec3(0)), body, Transform(Vec3(0, 1, 0)));
            Constraint::Rod(matter->Ground(), Vec3(1.2, -0.4, 0), p2, Vec3(0), 1.1);
            MobilizedBody::Ball b(matter->Ground(), Transform(Vec3(3, 0, 0)), body, Transform(Vec3(0, 0.3, 0)));
            p1.setDefaultAngle(0.7); p2.setDefaultAngle(0.9);
        } else {
            MobilizedBody::Pin p1(matter->Ground(), Transform(Vec3(0)), body, Transform(Vec3(0, 1, 0)));
            MobilizedBody::Pin p2(p1, Transform(Vec3(0)), body, Transform(Vec3(0, 1, 0)));
            Force::MobilityLinearSpring(*forces, p2, MobilizerQIndex(0), 30, 0.2);
            p1.setDefaultAngle(0.4);
        }
        sys->addEventHandler(new Kick(res, *matter));
        sys->addEventReporter(new Rep(res, 10.0));      // due at the start only
        sys->addEventReporter(new Rep(res, 0.04));
        sys->realizeTopology();
        State s = sys->getDefaultState();
        makeIntegrator();
        ts.reset(new TimeStepper(*sys, *integ));
        ts->initialize(s);
    }
    string segment(int k, int nseg) override {
        const int kk = (k - 1) % nseg + 1;
        if (k == 1) build(); else if (kk == 1) reinit(); else ts->stepTo(0.15 * (kk - 1));
        const State& s = integ->getState();
        sys->realize(s, Stage::Acceleration);
        Hash h; h.add(s.getTime()); h.add(s.getY()); h.add(s.getYDot()); h.add(s.getMultipliers());
        h.add(sys->calcEnergy(s)); h.add((double)integ->getNumStepsTaken());
        h.add((double)res.reports); h.add((double)res.events); h.add((double)res.h.h);
        return h.words();
    }
};
struct Rng : Instance {
    string kind; int seed, draws; std::unique_ptr<Random::Uniform> u; std::unique_ptr<Random::Gaussian> g;
    Rng(const string& kind, int seed, int draws) : kind(kind), seed(seed), draws(draws) {}
    string segment(int k, int nseg) override {
        if (k > 1 && (k - 1) % nseg == 0) { if (kind == "uniform") u->setSeed(seed); else g->setSeed(seed); }   // reseeding restarts the stream
        if (k == 1) { if (kind == "uniform") { u.reset(new Random::Uniform(-2.0, 5.0)); u->setSeed(seed); } else { g.reset(new Random::Gaussian(1.0, 2.0)); g->setSeed(seed); } }
        Hash h;
        // the number of values drawn per segment is a parameter: generators caching part of their output (the
        // second normal of a pair) behave differently after odd and even numbers of draws
        const int kk = (k - 1) % nseg;       // later segments draw one more value each, so totals of both parities occur
        for (int i = 0; i < draws + kk; ++i) h.add(kind == "uniform" ? u->getValue() : g->getValue());
        if (kind == "uniform") { Vector v(7); u->fillArray(&v[0], 7); h.add(v); h.add((double)u->getIntValue()); }
        else if (draws % 4 == 1) { Vector v(3); g->fillArray(&v[0], 3); h.add(v); }
        return h.words();
    }
};

static Instance* make(const mj::Value& d) {
    const string t = d["type"].str();
    if (t == "sim") return new Sim(d["model"].str(), d["integ"].str(), d.has("reuse") ? d["reuse"].str() : string("all"));
    return new Rng(d["dist"].str(), d["seed"].num(), d.has("draws") ? (int)d["draws"].num() : 50);
}

int main(int argc, char** argv) {
    if (argc < 3) return 2;
    std::ifstream in(argv[1]);
    FILE* out = fopen(argv[2], "w");
    string line;
    while (std::getline(in, line)) {
        mj::Value p = mj::parse(line.c_str());
        if (!p.isObject()) continue;
        const string mode = p["mode"].str();
        try {
            if (mode == "range") {
                // Random::Uniform range / determinism checks for one TLC-chosen range
                const double lo = p["lo"].dbl(), hi = p["hi"].dbl(); const int seed = p["seed"].num(), n = p["n"].num();
                Random::Uniform a(lo, hi), b(lo, hi); a.setSeed(seed); b.setSeed(seed);
                bool inRange = true, intRange = true, same = true, reseed = true;
                std::vector<double> first;
                for (int i = 0; i < n; ++i) {
                    const double x = a.getValue(), y = b.getValue();
                    if (!(x >= lo && x < hi)) inRange = false;
                    if (std::memcmp(&x, &y, sizeof x)) same = false;
                    if (i < 20) first.push_back(x);
                }
                for (int i = 0; i < n / 4; ++i) { const int v = a.getIntValue(); const int w = b.getIntValue(); if (!(v >= std::ceil(lo) - (lo == std::floor(lo) ? 0 : 0) && v < hi && v >= lo)) intRange = false; if (v != w) same = false; }
                a.setSeed(seed);
                for (int i = 0; i < 20; ++i) { const double x = a.getValue(); if (std::memcmp(&x, &first[i], sizeof x)) reseed = false; }
                Random::Gaussian g1(lo, hi - lo), g2(lo, hi - lo); g1.setSeed(seed); g2.setSeed(seed);
                for (int i = 0; i < n / 4; ++i) { const double x = g1.getValue(), y = g2.getValue(); if (std::memcmp(&x, &y, sizeof x)) same = false; }
                fprintf(out, "{\"mode\":\"range\",\"inRange\":%d,\"intRange\":%d,\"same\":%d,\"reseed\":%d}\n", inRange, intRange, same, reseed);
                continue;
            }
            std::vector<std::unique_ptr<Instance>> inst;
            for (auto& d : p["instances"].arr()) inst.emplace_back(make(d));
            std::vector<int> cnt(inst.size(), 0);
            const int nseg = p["nseg"].num();
            fprintf(out, "{\"e\":\"Reset\",\"i\":0,\"k\":%d,\"h\":[]}\n", nseg);
            if (mode == "solo") {
                for (size_t i = 0; i < inst.size(); ++i)
                    for (int k = 1; k <= nseg; ++k)
                        fprintf(out, "{\"e\":\"Ref\",\"i\":%d,\"k\":%d,\"h\":%s}\n", (int)i + 1, k, inst[i]->segment(k, nseg).c_str());
            } else {
                for (auto& s : p["sched"].arr()) {
                    const int i = s.num() - 1; const int k = ++cnt[i];
                    fprintf(out, "{\"e\":\"Seg\",\"i\":%d,\"k\":%d,\"h\":%s}\n", i + 1, k, inst[i]->segment(k, nseg).c_str());
                }
            }
        } catch (const std::exception& e) {
            fprintf(out, "{\"e\":\"Error\",\"i\":0,\"k\":0,\"h\":[],\"exc\":%s}\n", mj::quote(string(e.what()).substr(0, 900)).c_str());
        }
        fflush(out);
    }
    fclose(out);
    return 0;
}
