// E11 / C36 harness: builds every mesh TLC reached in spec/Mesh/MeshTopo.tla with the real ContactGeometry::TriangleMesh
// (from arrays, from a PolygonalMesh, and from a PolygonalMesh loaded from OBJ text) and reports its vertex / edge / face adjacency.
// usage: replay_mesh <meshes.ndjson> <out.ndjson>
#include "SimTKcommon.h"
#include "simmath/internal/common.h"
#include "simmath/internal/ContactGeometry.h"
#include "mini_json.h"
#include <fstream>
#include <sstream>
using namespace SimTK;
using std::string;

static Vec3 place(int i, int n) {      // distinct points on the unit sphere, no three faces coplanar by accident
    const double z = 1 - 2.0 * (i + 0.5) / n, r = std::sqrt(1 - z * z), a = 2.399963229728653 * i + 0.3;
    return Vec3(r * std::cos(a), r * std::sin(a), z);
}
static string topo(const ContactGeometry::TriangleMesh& m) {
    std::ostringstream o;
    o << "{\"nv\":" << m.getNumVertices() << ",\"nf\":" << m.getNumFaces() << ",\"ne\":" << m.getNumEdges() << ",\"faces\":[";
    for (int f = 0; f < m.getNumFaces(); ++f) o << (f ? "," : "") << "{\"v\":[" << m.getFaceVertex(f, 0) << "," << m.getFaceVertex(f, 1) << "," << m.getFaceVertex(f, 2)
        << "],\"e\":[" << m.getFaceEdge(f, 0) << "," << m.getFaceEdge(f, 1) << "," << m.getFaceEdge(f, 2) << "]}";
    o << "],\"edges\":[";
    for (int e = 0; e < m.getNumEdges(); ++e) o << (e ? "," : "") << "{\"v\":[" << m.getEdgeVertex(e, 0) << "," << m.getEdgeVertex(e, 1) << "],\"f\":[" << m.getEdgeFace(e, 0) << "," << m.getEdgeFace(e, 1) << "]}";
    o << "],\"vedges\":[";
    for (int v = 0; v < m.getNumVertices(); ++v) { Array_<int> es; m.findVertexEdges(v, es); o << (v ? "," : "") << "["; for (int k = 0; k < (int)es.size(); ++k) o << (k ? "," : "") << es[k]; o << "]"; }
    o << "]}";
    return o.str();
}

int main(int argc, char** argv) {
    if (argc < 3) return 2;
    std::ifstream in(argv[1]);
    FILE* out = fopen(argv[2], "w");
    string line; int lineno = 0;
    while (std::getline(in, line)) {
        ++lineno;
        mj::Value c = mj::parse(line.c_str());
        if (!c.isObject()) continue;
        std::ostringstream js; js << "{\"i\":" << lineno; string exc;
        try {
            const int nv = (int)c["nv"].num(); const int nf = (int)c["faces"].size();
            Array_<Vec3> verts; for (int i = 0; i < nv; ++i) verts.push_back(place(i, nv));
            Array_<int> idx; for (int f = 0; f < nf; ++f) for (int k = 0; k < 3; ++k) idx.push_back((int)c["faces"][f][k].num() - 1);
            ContactGeometry::TriangleMesh m1(verts, idx);
            js << ",\"arrays\":" << topo(m1);
            PolygonalMesh pm; for (int i = 0; i < nv; ++i) pm.addVertex(verts[i]);
            for (int f = 0; f < nf; ++f) { Array_<int> fv; for (int k = 0; k < 3; ++k) fv.push_back(idx[3 * f + k]); pm.addFace(fv); }
            ContactGeometry::TriangleMesh m2(pm);
            js << ",\"polygonal\":" << topo(m2);
            // the same mesh as OBJ text (1-based indices; every other face written with negative, i.e. relative, indices)
            std::ostringstream obj; obj.precision(17);
            for (int i = 0; i < nv; ++i) obj << "v " << verts[i][0] << " " << verts[i][1] << " " << verts[i][2] << "\n";
            for (int f = 0; f < nf; ++f) { obj << "f"; for (int k = 0; k < 3; ++k) { const int v = idx[3 * f + k]; if (f % 2) obj << " " << (v - nv); else obj << " " << (v + 1); } obj << "\n"; }
            std::istringstream is(obj.str()); PolygonalMesh pl; pl.loadObjFile(is);
            js << ",\"obj\":{\"nv\":" << pl.getNumVertices() << ",\"faces\":[";
            for (int f = 0; f < pl.getNumFaces(); ++f) { js << (f ? "," : "") << "["; for (int k = 0; k < pl.getNumVerticesForFace(f); ++k) js << (k ? "," : "") << pl.getFaceVertex(f, k); js << "]"; }
            js << "],\"vmaxdiff\":"; double dmax = 0; for (int i = 0; i < std::min(nv, pl.getNumVertices()); ++i) dmax = std::max(dmax, (pl.getVertexPosition(i) - verts[i]).norm());
            char b[40]; snprintf(b, sizeof b, "%.3g", dmax); js << b << "}";
            ContactGeometry::TriangleMesh m3(pl);
            js << ",\"fromobj\":" << topo(m3);
        } catch (const std::exception& e) { exc = e.what(); }
        js << ",\"exc\":" << mj::quote(exc.substr(0, 200)) << "}";
        fprintf(out, "%s\n", js.str().c_str()); fflush(out);
    }
    fclose(out);
    return 0;
}
