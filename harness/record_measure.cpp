// E4/C23 harness: builds a set of Measures (expression trees given by the program), integrates with
// "return every internal step" so that every accepted trajectory point is seen, and records the
// value of every measure at every returned state (steps and interpolated reports).
//
// usage: record_measure <programs.ndjson> <out.ndjson> [skip]
#include "Simbody.h"
#include "mini_json.h"
#include <fstream>
#include <sstream>
#include <memory>
#include <csignal>
#include <unistd.h>

using namespace SimTK;
using std::string;
static FILE* out;
static string num(Real x) {
    if (std::isinf(x)) return x > 0 ? "\"inf\"" : "\"-inf\"";
    if (std::isnan(x)) return "\"nan\"";
    char b[40]; snprintf(b, sizeof b, "%.17g", x); return b;
}
static void onAlarm(int) {
    const char msg[] = "{\"e\":\"Timeout\"}\n";
    if (out) { fflush(out); (void)!write(fileno(out), msg, sizeof msg - 1); }
    _exit(3);
}
static Integrator* makeInteg(const string& n, const System& sys) {
    if (n == "ExplicitEuler") return new ExplicitEulerIntegrator(sys);
    if (n == "RK2") return new RungeKutta2Integrator(sys);
    if (n == "RK3") return new RungeKutta3Integrator(sys);
    if (n == "RKF") return new RungeKuttaFeldbergIntegrator(sys);
    if (n == "RKM") return new RungeKuttaMersonIntegrator(sys);
    if (n == "Verlet") return new VerletIntegrator(sys);
    if (n == "SEE") return new SemiExplicitEulerIntegrator(sys, 0.01);
    if (n == "SEE2") return new SemiExplicitEuler2Integrator(sys);
    if (n == "CPodes") return new CPodesIntegrator(sys);
    throw std::runtime_error("unknown integrator " + n);
}

int main(int argc, char** argv) {
    if (argc < 3) return 2;
    std::ifstream in(argv[1]);
    const int skip = argc > 3 ? atoi(argv[3]) : 0;
    out = fopen(argv[2], skip ? "a" : "w");
    signal(SIGALRM, onAlarm);
    string line; int lineno = 0;
    while (std::getline(in, line)) {
        ++lineno;
        if (lineno <= skip) continue;
        alarm(30);
        mj::Value p = mj::parse(line.c_str());
        if (!p.isObject()) continue;
        fprintf(out, "{\"e\":\"Reset\",\"prog\":%d}\n", lineno);
        try {
            MultibodySystem system; SimbodyMatterSubsystem matter(system); GeneralForceSubsystem forces(system);
            Body::Rigid body(MassProperties(1.0, Vec3(0), Inertia(1)));
            MobilizedBody::Pin pend(matter.Ground(), Transform(Vec3(0)), body, Transform(Vec3(0, 1, 0)));
            Force::Gravity(forces, matter, Vec3(0, -9.8, 0));
            pend.setDefaultAngle(0.5);
            Subsystem& sub = matter;
            std::vector<Measure> ms;
            for (auto& m : p["measures"].arr()) {
                const string op = m["op"].str();
                auto of = [&](const char* k) { return Measure_<Real>::getAs(ms.at(m[k].num())); };
                if (op == "time") ms.push_back(Measure::Time(sub));
                else if (op == "const") ms.push_back(Measure::Constant(sub, m["v"].dbl()));
                else if (op == "var") ms.push_back(Measure::Variable(sub, Stage::Position, m["v"].dbl()));
                else if (op == "sin") ms.push_back(Measure::Sinusoid(sub, m["a"].dbl(), m["w"].dbl(), m["p"].dbl()));
                else if (op == "plus") ms.push_back(Measure::Plus(sub, of("l"), of("r")));
                else if (op == "minus") ms.push_back(Measure::Minus(sub, of("l"), of("r")));
                else if (op == "scale") ms.push_back(Measure::Scale(sub, m["f"].dbl(), of("of")));
                else if (op == "integrate") ms.push_back(Measure::Integrate(sub, of("of"), Measure::Constant(sub, m.has("ic") ? m["ic"].dbl() : 0.)));
                else if (op == "diff") ms.push_back(Measure::Differentiate(sub, of("of")));
                else if (op == "max") ms.push_back(Measure::Maximum(sub, of("of")));
                else if (op == "min") ms.push_back(Measure::Minimum(sub, of("of")));
                else if (op == "maxabs") ms.push_back(Measure::MaxAbs(sub, of("of")));
                else if (op == "minabs") ms.push_back(Measure::MinAbs(sub, of("of")));
                else if (op == "delay") ms.push_back(Measure::Delay(sub, of("of"), m["d"].dbl()));
                else throw std::runtime_error("unknown measure op " + op);
            }
            system.realizeTopology();
            State s0 = system.getDefaultState();
            std::unique_ptr<Integrator> integ(makeInteg(p["integ"].str(), system));
            const mj::Value& o = p["opts"];
            integ->setReturnEveryInternalStep(true);
            if (o.has("fixed")) integ->setFixedStepSize(o["fixed"].dbl());
            if (o.has("maxStep")) integ->setMaximumStepSize(o["maxStep"].dbl());
            if (o.has("acc")) integ->setAccuracy(o["acc"].dbl());
            if (o.has("allowInterp")) integ->setAllowInterpolation(o["allowInterp"].boolean());
            integ->initialize(s0);
            for (auto& c : p["calls"].arr()) {
                const Real rep = c["rep"].dbl();
                int guard = 0;
                for (;;) {
                    string exc; int st = -1;
                    try { st = integ->stepTo(rep); } catch (const std::exception& e) { exc = e.what(); }
                    std::ostringstream js;
                    js << "{\"e\":\"Pt\",\"st\":" << st << ",\"t\":" << num(integ->getTime()) << ",\"tadv\":" << num(integ->getAdvancedTime())
                       << ",\"interp\":" << (integ->isStateInterpolated() ? 1 : 0) << ",\"vals\":[";
                    if (exc.empty()) {
                        const State& s = integ->getState();
                        try {
                            system.realize(s, Stage::Acceleration);
                            for (size_t i = 0; i < ms.size(); ++i)
                                js << (i ? "," : "") << num(Measure_<Real>::getAs(ms[i]).getValue(s));
                        } catch (const std::exception& e) { exc = e.what(); }
                    }
                    js << "],\"exc\":" << mj::quote(exc.substr(0, 200)) << "}";
                    fprintf(out, "%s\n", js.str().c_str());
                    if (!exc.empty() || st == Integrator::EndOfSimulation) goto done;
                    if (integ->getTime() >= rep || ++guard > 100000) break;
                }
            }
            done:;
        } catch (const std::exception& e) {
            fprintf(out, "{\"e\":\"Error\",\"exc\":%s}\n", mj::quote(string(e.what()).substr(0, 300)).c_str());
        }
        fflush(out);
    }
    fclose(out);
    return 0;
}
