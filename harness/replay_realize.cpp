// E3 harness: replays behaviours of spec/Realize/Realize.tla on a real MultibodySystem and, after
// every action, compares (a) the abstract projection (system stage, validity of every lazy entry)
// with what the spec predicted and (b) EVERY result readable at that point with the same result
// computed on a State freshly created from the default state and given the same variable values
// (the fresh-state oracle of C16).
//
// usage: replay_realize <program.ndjson> <out.ndjson>
#include "Simbody.h"
#include "mini_json.h"
#include <cstdio>
#include <cmath>
#include <map>
#include <string>
#include <vector>
#include <fstream>
#include <sstream>
#include <iostream>

using namespace SimTK;
using std::string;
typedef std::map<string, std::vector<double>> Obs;

// ---------------------------------------------------------------------------------------------
// custom elements
class PosOnlyCustom : public Force::Custom::Implementation {
public:
    PosOnlyCustom(const GeneralForceSubsystem& f, const MobilizedBody& a, const MobilizedBody& b)
    : forces(f), ma(a), mb(b) {}
    bool dependsOnlyOnPositions() const override { return true; }
    void realizeTopology(State& s) const override {
        ix = forces.allocateDiscreteVariable(s, Stage::Position, new Value<Real>(1.25));
    }
    Real getP(const State& s) const { return Value<Real>::downcast(forces.getDiscreteVariable(s, ix)); }
    void setP(State& s, Real p) const { Value<Real>::updDowncast(forces.updDiscreteVariable(s, ix)) = p; }
    void calcForce(const State& s, Vector_<SpatialVec>& bf, Vector_<Vec3>&, Vector& mf) const override {
        const Real p = getP(s);
        const Vec3 pa = ma.getBodyOriginLocation(s), pb = mb.getBodyOriginLocation(s);
        const Vec3 f = p * (pb - pa);
        ma.applyBodyForce(s, SpatialVec(Vec3(0.1 * p, 0, 0), f), bf);
        mb.applyBodyForce(s, SpatialVec(Vec3(0), -f), bf);
        ma.applyOneMobilityForce(s, 0, p * std::sin(ma.getOneQ(s, 0)), mf);
    }
    Real calcPotentialEnergy(const State& s) const override {
        const Vec3 d = mb.getBodyOriginLocation(s) - ma.getBodyOriginLocation(s);
        return -0.5 * getP(s) * d.normSqr();
    }
    const GeneralForceSubsystem& forces; MobilizedBody ma, mb;
    mutable DiscreteVariableIndex ix;
};

class VelCustom : public Force::Custom::Implementation {
public:
    VelCustom(const GeneralForceSubsystem& f, const MobilizedBody& a, const MobilizedBody& b)
    : forces(f), ma(a), mb(b) {}
    void realizeTopology(State& s) const override {
        ix = forces.allocateDiscreteVariable(s, Stage::Dynamics, new Value<Real>(0.75));
    }
    void realizeModel(State& s) const override { Vector z0(1); z0[0] = 0.25; zx = forces.allocateZ(s, z0); }
    Real getP(const State& s) const { return Value<Real>::downcast(forces.getDiscreteVariable(s, ix)); }
    void setP(State& s, Real p) const { Value<Real>::updDowncast(forces.updDiscreteVariable(s, ix)) = p; }
    void calcForce(const State& s, Vector_<SpatialVec>& bf, Vector_<Vec3>&, Vector& mf) const override {
        const Real z = forces.getZ(s)[zx], t = s.getTime(), p = getP(s);
        ma.applyOneMobilityForce(s, 0, p * (1 + t) + 3 * z - 0.5 * ma.getOneU(s, 0), mf);
        const Vec3 w = mb.getBodyAngularVelocity(s);
        mb.applyBodyTorque(s, -0.3 * p * w + Vec3(z, t, 0), bf);
    }
    Real calcPotentialEnergy(const State&) const override { return 0; }
    void realizeAcceleration(const State& s) const override {
        forces.updZDot(s)[zx] = -forces.getZ(s)[zx] + ma.getOneU(s, 0) + s.getTime();
    }
    const GeneralForceSubsystem& forces; MobilizedBody ma, mb;
    mutable DiscreteVariableIndex ix; mutable ZIndex zx;
};

// ---------------------------------------------------------------------------------------------
struct Sys {
    MultibodySystem system;
    SimbodyMatterSubsystem matter;
    GeneralForceSubsystem forces;
    MobilizedBody::Pin b1; MobilizedBody::Ball b2; MobilizedBody::Slider b3; MobilizedBody::Pin b4;
    MobilizedBody::Slider b5;
    Force::MobilityLinearSpring spring; Force::TwoPointLinearSpring tpls;
    Force::MobilityLinearDamper damper; Force::MobilityConstantForce mcf; Force::DiscreteForces df;
    Force::MobilityLinearStop stop; Force::MobilityDiscreteForce mdf; Force::Gravity grav;
    Force::LinearBushing bush; Force::ConstantForce cf; Force::ConstantTorque ct; Force::GlobalDamper gd;
    Force::TwoPointLinearDamper tpld; Force::TwoPointConstantForce tpcf;
    Force::Custom fpc, fvc; PosOnlyCustom* pc; VelCustom* vc;
    Constraint::Rod rod; Constraint::ConstantCoordinate ccoord; Constraint::ConstantSpeed cspeed;
    Constraint::ConstantAcceleration cacc; Constraint::PointInPlane pip;
    Motion::Steady steady;

    Sys() : matter(system), forces(system) {
        Body::Rigid body(MassProperties(1.5, Vec3(0.1, 0.2, 0.3), UnitInertia(1.2, 1.1, 1.3, 0.01, 0.02, 0.03).shiftFromCentroid(Vec3(0.1,0.2,0.3)) * 1.5));
        b1 = MobilizedBody::Pin(matter.Ground(), Transform(Vec3(0, 0, 0)), body, Transform(Vec3(0, 1, 0)));
        b2 = MobilizedBody::Ball(b1, Transform(Vec3(0.5, 0, 0)), body, Transform(Vec3(0, 0.5, 0)));
        b3 = MobilizedBody::Slider(matter.Ground(), Transform(Vec3(1, 0, 0)), body, Transform(Vec3(0)));
        b4 = MobilizedBody::Pin(b3, Transform(Rotation(0.3, YAxis), Vec3(0, 0.2, 0)), body, Transform(Vec3(0.3, 0, 0)));
        b5 = MobilizedBody::Slider(b4, Transform(Vec3(0, 0, 0.4)), body, Transform(Vec3(0)));
        b1.setDefaultAngle(0.3); b3.setDefaultLength(0.1); b4.setDefaultAngle(-0.2); b5.setDefaultLength(0.05);
        b2.setDefaultRotation(Rotation(0.2, UnitVec3(1, 2, 3)));

        spring = Force::MobilityLinearSpring(forces, b1, MobilizerQIndex(0), 2.0, 0.1);
        tpls   = Force::TwoPointLinearSpring(forces, b1, Vec3(0.1, 0, 0), b3, Vec3(0, 0.1, 0), 3.0, 0.5);
        damper = Force::MobilityLinearDamper(forces, b1, MobilizerUIndex(0), 0.5);
        mcf    = Force::MobilityConstantForce(forces, b3, MobilizerUIndex(0), 0.7);
        df     = Force::DiscreteForces(forces, matter);
        stop   = Force::MobilityLinearStop(forces, b3, MobilizerQIndex(0), 50., 0.2, -0.5, 0.15);
        mdf    = Force::MobilityDiscreteForce(forces, b4, MobilizerUIndex(0), 0.2);
        grav   = Force::Gravity(forces, matter, UnitVec3(0, -1, 0), 9.8, 0.);
        bush   = Force::LinearBushing(forces, b1, Transform(Vec3(0.1, 0, 0)), b2, Transform(Vec3(0, 0.1, 0)),
                                      Vec6(1, 2, 3, 4, 5, 6), Vec6(.1, .2, .3, .4, .5, .6));
        cf     = Force::ConstantForce(forces, b2, Vec3(0.1, 0.2, 0.3), Vec3(1, 2, 3));
        ct     = Force::ConstantTorque(forces, b4, Vec3(.3, .2, .1));
        gd     = Force::GlobalDamper(forces, matter, 0.05);
        tpld   = Force::TwoPointLinearDamper(forces, b2, Vec3(0), b4, Vec3(0.1), 0.4);
        tpcf   = Force::TwoPointConstantForce(forces, b2, Vec3(0), b5, Vec3(0.1), 0.6);
        pc = new PosOnlyCustom(forces, b1, b3); fpc = Force::Custom(forces, pc);
        vc = new VelCustom(forces, b1, b2);     fvc = Force::Custom(forces, vc);

        rod = Constraint::Rod(b2, Vec3(0), b3, Vec3(0), 1.3); rod.setDisabledByDefault(true);
        pip = Constraint::PointInPlane(matter.Ground(), UnitVec3(0, 1, 0), 0.2, b5, Vec3(0.1)); pip.setDisabledByDefault(true);
        ccoord = Constraint::ConstantCoordinate(b3, MobilizerQIndex(0), 0.12);
        cspeed = Constraint::ConstantSpeed(b4, MobilizerUIndex(0), 0.3);
        cacc   = Constraint::ConstantAcceleration(b2, MobilizerUIndex(1), 0.4);
        steady = Motion::Steady(b5, 0.25); steady.setDisabledByDefault(true);
        system.realizeTopology();
    }
};

static Sys* S;
static std::map<string, string> bindv;
static string B(const string& x, const string& dflt) { auto it = bindv.find(x); return it == bindv.end() ? dflt : it->second; }

// apply abstract value v of variable x to state s through the bound concrete setter
static void applyVar(State& s, const string& x, int v) {
    Sys& y = *S;
    const string b = B(x, "");
    if (x == "t") { if (b == "upd") s.updTime() = 0.5 * v; else s.setTime(0.5 * v); }
    else if (x == "q") {
        if (b == "slider") y.b3.setOneQ(s, 0, 0.1 + 0.2 * v);
        else if (b == "ball") y.b2.setQToFitRotation(s, Rotation(0.2 + 0.5 * v, UnitVec3(1, 2, 3)));
        else if (b == "vec") { Vector q = s.getQ(); q[0] = 0.3 + 0.4 * v; s.updQ() = q; }
        else if (b == "sub") y.matter.updQ(s)[0] = 0.3 + 0.4 * v;
        else if (b == "fit") y.b1.setQToFitRotation(s, Rotation(0.3 + 0.4 * v, ZAxis));
        else if (b == "pin4") y.b4.setOneQ(s, 0, -0.2 + 0.3 * v);
        else y.b1.setOneQ(s, 0, 0.3 + 0.4 * v);
    } else if (x == "u") {
        if (b == "ball") y.b2.setUToFitAngularVelocity(s, Vec3(0.3 * v, -0.2 * v, 0.1 * v));
        else if (b == "vec") { Vector u = s.getU(); u[0] = 0.7 * v; s.updU() = u; }
        else if (b == "slider") y.b3.setOneU(s, 0, 0.4 * v);
        else if (b == "sub") y.matter.updU(s)[0] = 0.7 * v;
        else y.b1.setOneU(s, 0, 0.7 * v);
    } else if (x == "z") {
        // the custom velocity-dependent element owns this z (LinearBushing owns another one)
        if (b == "sub") y.forces.updZ(s)[y.vc->zx] = 0.25 + 0.5 * v;
        else { Vector z = y.forces.getZ(s); z[y.vc->zx] = 0.25 + 0.5 * v; y.forces.updZ(s) = z; }
    }
    else if (x == "quat") y.matter.setUseEulerAngles(s, v == 1);
    else if (x == "disP") {
        const Force& f = b == "custom" ? (const Force&)y.fpc : b == "cf" ? (const Force&)y.cf : (const Force&)y.tpls;
        if (b == "sub") y.forces.setForceIsDisabled(s, y.tpcf.getForceIndex(), v == 1);
        else if (v == 1) f.disable(s); else f.enable(s);
    } else if (x == "disV") {
        const Force& f = b == "spring" ? (const Force&)y.spring : b == "bush" ? (const Force&)y.bush
                       : b == "gd" ? (const Force&)y.gd : (const Force&)y.damper;
        if (v == 1) f.disable(s); else f.enable(s);
    } else if (x == "disG") { if (v == 1) y.grav.disable(s); else y.grav.enable(s); }
    else if (x == "lock") {
        const MobilizedBody& m = b == "ball" ? (const MobilizedBody&)y.b2 : b == "slider" ? (const MobilizedBody&)y.b3
                               : (const MobilizedBody&)y.b1;
        // position-level locks also CHANGE q and u (documented); they belong to C10, not here
        if (v == 1) { if (b == "vel") m.lock(s, Motion::Velocity); else m.lock(s, Motion::Acceleration); }
        else if (v == 2 && b == "acc") {      // a third value: the acceleration prescribed to a NON-ZERO value
            Vector a(m.getNumU(s)); for (int i = 0; i < a.size(); ++i) a[i] = 2.5 - i;
            m.lockAt(s, a, Motion::Acceleration);
        }
        else m.unlock(s);
    } else if (x == "con") {
        const Constraint& c = b == "pip" ? (const Constraint&)y.pip : b == "ccoord" ? (const Constraint&)y.ccoord
                            : b == "cspeed" ? (const Constraint&)y.cspeed : b == "cacc" ? (const Constraint&)y.cacc
                            : (const Constraint&)y.rod;
        const bool dflt = (b == "ccoord" || b == "cspeed" || b == "cacc");   // these are enabled by default
        const bool wantEnabled = dflt ? (v == 0) : (v == 1);
        if (wantEnabled) c.enable(s); else c.disable(s);
    } else if (x == "mot") { if (v == 1) y.steady.enable(s); else y.steady.disable(s); }
    else if (x == "bk") {
        if (b == "damp") y.bush.setDamping(s, Vec6(.1, .2, .3, .4, .5, .6) * (1 + v));
        else y.bush.setStiffness(s, Vec6(1, 2, 3, 4, 5, 6) * (1 + v));
    } else if (x == "k") {
        if (b == "qzero") y.spring.setQZero(s, 0.1 + 0.3 * v); else y.spring.setStiffness(s, 2.0 + 3.0 * v);
    } else if (x == "cp") y.pc->setP(s, 1.25 + v);
    else if (x == "c") {
        if (b == "mcf") y.mcf.setForce(s, 0.7 + v);
        else if (b == "dfb") y.df.setOneBodyForce(s, y.b2, SpatialVec(Vec3(0.1 * v, 0, 0), Vec3(0, 0.5 * v, 0)));
        else if (b == "dfm") y.df.setOneMobilityForce(s, y.b3, MobilizerUIndex(0), 0.9 * v);
        else if (b == "stop") y.stop.setBounds(s, -0.5, 0.15 - 0.1 * v);
        else if (b == "mdf") y.mdf.setMobilityForce(s, 0.2 + 0.6 * v);
        else if (b == "custom") y.vc->setP(s, 0.75 + v);
        else y.damper.setDamping(s, 0.5 + v);
    } else if (x == "g") {
        if (b == "dir") y.grav.setDownDirection(s, v == 0 ? UnitVec3(0, -1, 0) : v == 1 ? UnitVec3(1, -1, 0) : UnitVec3(0, -1, 1));
        else if (b == "zero") y.grav.setZeroHeight(s, 0.4 * v);
        else if (b == "excl") { y.grav.setBodyIsExcluded(s, y.b2.getMobilizedBodyIndex(), v == 1);
                                y.grav.setBodyIsExcluded(s, y.b3.getMobilizedBodyIndex(), v == 2); }
        else if (b == "vecdir") y.grav.setGravityVector(s, v == 0 ? Vec3(0, -9.8, 0) : v == 1 ? Vec3(9.8, 0, 0) : Vec3(0, 9.8, 0));
        else if (b == "vec") y.grav.setGravityVector(s, v == 0 ? Vec3(0, -9.8, 0) : Vec3(1.0 * v, -9.8, 0.5));
        else if (b == "off") y.grav.setMagnitude(s, v == 0 ? 9.8 : v == 1 ? 0. : 4.9);
        else y.grav.setMagnitude(s, 9.8 + 2.0 * v);
    }
    else if (x == "cpos") y.ccoord.setPosition(s, 0.12 + 0.1 * v);
    else if (x == "cspd") y.cspeed.setSpeed(s, 0.3 + 0.2 * v);
    else if (x == "cacc") y.cacc.setAcceleration(s, 0.4 + 0.3 * v);
    else throw std::runtime_error("unknown variable " + x);
}

static void push(std::vector<double>& o, const Vec3& v) { for (int i = 0; i < 3; ++i) o.push_back(v[i]); }
static void push(std::vector<double>& o, const SpatialVec& v) { push(o, v[0]); push(o, v[1]); }
static void push(std::vector<double>& o, const Vector& v) { for (int i = 0; i < v.size(); ++i) o.push_back(v[i]); }
static void push(std::vector<double>& o, const Mat33& m) { for (int i = 0; i < 3; ++i) for (int j = 0; j < 3; ++j) o.push_back(m(i, j)); }
static void push(std::vector<double>& o, const Transform& X) { push(o, X.R().asMat33()); push(o, X.p()); }

struct Validity { bool pk, vk, cbi, abi, abv, grav; };
static Validity validity(const State& s) {
    Sys& y = *S; Validity v;
    v.pk = y.matter.isPositionKinematicsRealized(s); v.vk = y.matter.isVelocityKinematicsRealized(s);
    v.cbi = y.matter.isCompositeBodyInertiasRealized(s); v.abi = y.matter.isArticulatedBodyInertiasRealized(s);
    v.abv = y.matter.isArticulatedBodyVelocityRealized(s); v.grav = y.grav.isForceCacheValid(s);
    return v;
}

// everything readable (without side effect) in state s
static bool gravDisabled = false;
static Obs observe(const State& s, const Validity& v) {
    Sys& y = *S; Obs o;
    const int stage = s.getSystemStage();
    const int nb = y.matter.getNumBodies();
    o["t"].push_back(s.getTime());
    if (stage >= Stage::Model) { push(o["q"], s.getQ()); push(o["u"], s.getU()); push(o["z"], s.getZ()); }
    if (v.pk) for (MobilizedBodyIndex b(0); b < nb; ++b) push(o["X_GB"], y.matter.getMobilizedBody(b).getBodyTransform(s));
    if (v.pk) for (MobilizedBodyIndex b(1); b < nb; ++b) push(o["X_FM"], y.matter.getMobilizedBody(b).getMobilizerTransform(s));
    if (v.vk) for (MobilizedBodyIndex b(0); b < nb; ++b) push(o["V_GB"], y.matter.getMobilizedBody(b).getBodyVelocity(s));
    if (v.cbi) for (MobilizedBodyIndex b(1); b < nb; ++b) {
        const SpatialInertia& ci = y.matter.getCompositeBodyInertia(s, b);
        o["cbi"].push_back(ci.getMass()); push(o["cbi"], ci.getMassCenter()); push(o["cbi"], ci.getUnitInertia().toMat33());
    }
    if (v.abi) for (MobilizedBodyIndex b(1); b < nb; ++b) {
        const SpatialMat m = y.matter.getArticulatedBodyInertia(s, b).toSpatialMat();
        for (int i = 0; i < 2; ++i) for (int j = 0; j < 2; ++j) push(o["abi"], m(i, j));
    }
    if (v.grav && stage >= Stage::Position) {
        const Vector_<SpatialVec>& f = y.grav.getBodyForces(s);
        for (int i = 0; i < f.size(); ++i) push(o["gravF"], f[i]);
        o["gravPE"].push_back(y.grav.getPotentialEnergy(s));
    }
    if (stage >= Stage::Position) { push(o["qerr"], s.getQErr()); }
    if (stage >= Stage::Velocity) { push(o["uerr"], s.getUErr()); push(o["qdot"], s.getQDot());
        o["ke"].push_back(y.system.calcKineticEnergy(s)); }
    if (stage >= Stage::Dynamics) {
        const Vector_<SpatialVec>& f = y.system.getRigidBodyForces(s, Stage::Dynamics);
        for (int i = 0; i < f.size(); ++i) push(o["bodyF"], f[i]);
        push(o["mobF"], y.system.getMobilityForces(s, Stage::Dynamics));
        // Gravity's potential energy fills its lazy cache: only read it when that has no side effect
        if (v.grav || gravDisabled) o["pe"].push_back(y.system.calcPotentialEnergy(s));
    }
    if (stage >= Stage::Acceleration) {
        push(o["udot"], s.getUDot()); push(o["zdot"], s.getZDot()); push(o["qdotdot"], s.getQDotDot());
        push(o["lambda"], s.getMultipliers()); push(o["udoterr"], s.getUDotErr());
        for (MobilizedBodyIndex b(0); b < nb; ++b) push(o["A_GB"], y.matter.getMobilizedBody(b).getBodyAcceleration(s));
        Vector_<SpatialVec> r; y.matter.calcMobilizerReactionForces(s, r);
        for (int i = 0; i < r.size(); ++i) push(o["react"], r[i]);
        push(o["tau"], y.matter.getMotionMultipliers(s));
    }
    return o;
}

static bool close(double a, double b) {
    if (std::isnan(a) || std::isnan(b)) return std::isnan(a) && std::isnan(b);
    if (std::isinf(a) || std::isinf(b)) return a == b;
    return std::fabs(a - b) <= 1e-9 * std::max(1.0, std::max(std::fabs(a), std::fabs(b)));
}

static const char* ORDER[] = {"quat", "disP", "disV", "disG", "lock", "con", "mot", "bk", "k", "cp", "c", "g",
                              "cpos", "cspd", "cacc", "t", "q", "u", "z"};

// A State freshly created from the default state, given the values val, realized like s
static State freshLike(const std::map<string, int>& val, const State& s, const Validity& v) {
    Sys& y = *S;
    State f = y.system.getDefaultState();
    for (const char* x : ORDER) {
        auto it = val.find(x);
        if (it == val.end() || it->second == 0) continue;      // value 0 is the default
        if ((string(x) == "q" || string(x) == "u" || string(x) == "z") && f.getSystemStage() < Stage::Model)
            y.system.realizeModel(f);
        applyVar(f, x, it->second);
        if (string(x) == "quat") y.system.realizeModel(f);
    }
    const Stage g = s.getSystemStage();
    if (g >= Stage::Model) y.system.realize(f, g);
    if (v.pk)  y.matter.realizePositionKinematics(f);
    if (v.vk)  y.matter.realizeVelocityKinematics(f);
    if (v.cbi) y.matter.realizeCompositeBodyInertias(f);
    if (v.abi) y.matter.realizeArticulatedBodyInertias(f);
    if (v.abv) y.matter.realizeArticulatedBodyVelocity(f);
    if (v.grav && g >= Stage::Position) y.grav.getBodyForces(f);
    return f;
}

int main(int argc, char** argv) {
    if (argc < 3) { fprintf(stderr, "usage: replay_realize prog out\n"); return 2; }
    std::ifstream in(argv[1]);
    FILE* out = fopen(argv[2], "w");
    S = new Sys();
    State s = S->system.getDefaultState();
    string line; int lineno = 0; bool broken = false;
    while (std::getline(in, line)) {
        ++lineno;
        mj::Value a = mj::parse(line.c_str());
        const string op = a["a"].str();
        string exc;
        if (op == "Reset") {
            broken = false;
            bindv.clear();
            for (auto& kv : a["bind"].o) bindv[kv.first] = kv.second.str();
            s = S->system.getDefaultState();
            // the spec starts at Topology stage: values are the defaults, nothing realized
            s.invalidateAll(Stage::Model);
            fprintf(out, "{\"i\":%d,\"a\":\"Reset\"}\n", lineno); fflush(out);
            continue;
        }
        if (broken) {   // the real State left the spec's behaviour earlier in this program
            fprintf(out, "{\"i\":%d,\"a\":%s,\"skip\":1}\n", lineno, mj::quote(op).c_str()); fflush(out);
            continue;
        }
        try {
            Sys& y = *S;
            if (op == "Realize") {
                if (s.getSystemStage() < Stage::Model) y.system.realizeModel(s);
                if (a["g"].num() > Stage::Model) y.system.realize(s, Stage(a["g"].num()));
            }
            else if (op == "Set") applyVar(s, a["x"].str(), a["v"].num());
            else if (op == "RealizeLazy") {
                const string e = a["e"].str();
                if (e == "pk") y.matter.realizePositionKinematics(s);
                else if (e == "vk") y.matter.realizeVelocityKinematics(s);
                else if (e == "cbi") y.matter.realizeCompositeBodyInertias(s);
                else if (e == "abi") y.matter.realizeArticulatedBodyInertias(s);
                else if (e == "abv") y.matter.realizeArticulatedBodyVelocity(s);
                else if (e == "grav") { if (B("gq", "bf") == "pe") y.grav.getPotentialEnergy(s); else y.grav.getBodyForces(s); }
            } else if (op == "InvalidateLazy") {
                const string e = a["e"].str();
                if (e == "pk") y.matter.invalidatePositionKinematics(s);
                else if (e == "vk") y.matter.invalidateVelocityKinematics(s);
                else if (e == "cbi") y.matter.invalidateCompositeBodyInertias(s);
                else if (e == "abi") y.matter.invalidateArticulatedBodyInertias(s);
                else if (e == "abv") y.matter.invalidateArticulatedBodyVelocity(s);
                else if (e == "grav") y.grav.invalidateForceCache(s);
            } else if (op == "Copy") {
                if (B("copy", "construct") == "assign") { State c; c = s; s = c; }
                else { State c(s); s = c; }
            } else if (op == "InvalidateAll") s.invalidateAllCacheAtOrAbove(Stage(a["g"].num()));
            else throw std::runtime_error("unknown action " + op);
        } catch (const std::exception& e) { exc = e.what(); }

        // projection
        std::ostringstream js;
        js << "{\"i\":" << lineno << ",\"a\":" << mj::quote(op);
        Validity v{};
        std::vector<string> diff;
        try {
            v = validity(s);
            js << ",\"stage\":" << (int)s.getSystemStage()
               << ",\"valid\":{\"pk\":" << v.pk << ",\"vk\":" << v.vk << ",\"cbi\":" << v.cbi << ",\"abi\":" << v.abi
               << ",\"abv\":" << v.abv << ",\"grav\":" << (v.grav && s.getSystemStage() >= Stage::Position) << "}";
            // fresh-state oracle on the values the spec says the variables now have
            std::map<string, int> val;
            for (auto& kv : a["exp"]["val"].o) val[kv.first] = kv.second.num();
            gravDisabled = val.count("disG") && val["disG"] == 1;
            Obs mine = observe(s, v);
            State f = freshLike(val, s, v);
            Validity vf = validity(f);
            (void)vf; Obs ref = observe(f, v);
            for (auto& kv : mine) {
                auto it = ref.find(kv.first);
                bool same = it != ref.end() && it->second.size() == kv.second.size();
                double worst = 0; int wi = -1;
                if (same) for (size_t i = 0; i < kv.second.size(); ++i)
                    if (!close(kv.second[i], it->second[i])) { same = false; wi = (int)i; worst = kv.second[i] - it->second[i]; break; }
                if (!same) { char buf[160]; snprintf(buf, sizeof buf, "%s[%d] got %.12g want %.12g", kv.first.c_str(), wi,
                                 wi >= 0 ? kv.second[wi] : 0., wi >= 0 ? it->second[wi] : 0.); diff.push_back(buf); (void)worst; }
            }
        } catch (const std::exception& e) { if (exc.empty()) exc = string("observe: ") + e.what(); }
        if (!exc.empty() || (a["exp"].isObject() && (int)s.getSystemStage() < a["exp"]["stage"].num())) broken = true;
        js << ",\"diff\":[";
        for (size_t i = 0; i < diff.size(); ++i) js << (i ? "," : "") << mj::quote(diff[i]);
        js << "],\"exc\":" << mj::quote(exc.substr(0, 300)) << "}";
        fprintf(out, "%s\n", js.str().c_str()); fflush(out);
    }
    fclose(out);
    return 0;
}
