// E6/C26 harness (pointer wrappers): interprets behaviours of spec/Data/PtrModel.tla on real
// ClonePtr / CloneOnWritePtr / ReferencePtr / ResetOnCopy / ReinitOnCopy objects and reports the
// projection of the three handles after every action.
#include "SimTKcommon.h"
#include "mini_json.h"
#include <fstream>
#include <sstream>
#include <memory>
#include <deque>
using namespace SimTK;
using std::string;

struct Obj { int v; explicit Obj(int v = 0) : v(v) {} Obj* clone() const { return new Obj(v); } };
static std::deque<Obj> gArena;        // targets for ReferencePtr (not owned by the pointer)

template <class P> struct PtrOps {
    std::unique_ptr<P> h[3];
    PtrOps() { for (auto& x : h) x.reset(new P()); }
};

static string projPtr(bool null, int v, long uc) {
    std::ostringstream o; o << "{\"null\":" << (null ? "true" : "false") << ",\"v\":" << v << ",\"uc\":" << uc << "}"; return o.str();
}

int main(int argc, char** argv) {
    if (argc < 3) return 2;
    std::ifstream in(argv[1]);
    FILE* out = fopen(argv[2], "w");
    string line; int lineno = 0;
    while (std::getline(in, line)) {
        ++lineno;
        mj::Value p = mj::parse(line.c_str());
        if (!p.isObject()) continue;
        const string kind = p["kind"].str();
        PtrOps<ClonePtr<Obj>> cp; PtrOps<CloneOnWritePtr<Obj>> cw; PtrOps<ReferencePtr<Obj>> rp;
        std::unique_ptr<ResetOnCopy<int>> rs[3]; std::unique_ptr<ReinitOnCopy<int>> ri[3];
        for (int k = 0; k < 3; ++k) { rs[k].reset(new ResetOnCopy<int>()); ri[k].reset(new ReinitOnCopy<int>(k + 1)); }
        int step = 0;
        for (auto& st : p["prog"].arr()) {
            ++step;
            const mj::Value& a = st["act"];
            const string op = a["op"].str();
            const int h = a["h"].num() - 1, g = a.has("g") ? a["g"].num() - 1 : 0, v = a["v"].num();
            string exc;
            try {
                if (kind == "ClonePtr") {
                    auto& H = cp.h;
                    if (op == "make") H[h]->reset(new Obj(v));
                    else if (op == "copyAssign") *H[h] = *H[g];
                    else if (op == "copyConstruct") H[h].reset(new ClonePtr<Obj>(*H[g]));
                    else if (op == "write") H[h]->upd()->v = v;
                    else if (op == "reset") H[h]->reset();
                    else if (op == "move") *H[h] = std::move(*H[g]);
                } else if (kind == "CloneOnWritePtr") {
                    auto& H = cw.h;
                    if (op == "make") H[h]->reset(new Obj(v));
                    else if (op == "copyAssign") *H[h] = *H[g];
                    else if (op == "copyConstruct") H[h].reset(new CloneOnWritePtr<Obj>(*H[g]));
                    else if (op == "write") H[h]->upd()->v = v;
                    else if (op == "reset") H[h]->reset();
                    else if (op == "move") *H[h] = std::move(*H[g]);
                } else if (kind == "ReferencePtr") {
                    auto& H = rp.h;
                    if (op == "make") { gArena.emplace_back(v); H[h]->reset(&gArena.back()); }
                    else if (op == "copyAssign") *H[h] = *H[g];
                    else if (op == "copyConstruct") H[h].reset(new ReferencePtr<Obj>(*H[g]));
                    else if (op == "write") H[h]->get()->v = v;
                    else if (op == "reset") H[h]->reset();
                } else if (kind == "ResetOnCopy") {
                    if (op == "copyAssign") *rs[h] = *rs[g];
                    else if (op == "copyConstruct") rs[h].reset(new ResetOnCopy<int>(*rs[g]));
                    else if (op == "write") *rs[h] = v;
                } else if (kind == "ReinitOnCopy") {
                    if (op == "copyAssign") *ri[h] = *ri[g];
                    else if (op == "copyConstruct") {
                        // a copy-constructed wrapper takes over the SOURCE's initial value; the model's
                        // handles keep their own, so construct-then-assign keeps handle h's identity
                        ReinitOnCopy<int> tmp(*ri[g]); (void)tmp; *ri[h] = *ri[g];
                    }
                    else if (op == "write") *ri[h] = v;
                }
            } catch (const std::exception& e) { exc = e.what(); }
            std::ostringstream js;
            js << "{\"prog\":" << lineno << ",\"step\":" << step << ",\"proj\":[";
            for (int k = 0; k < 3; ++k) {
                js << (k ? "," : "");
                if (kind == "ClonePtr") js << projPtr(cp.h[k]->empty(), cp.h[k]->empty() ? -1 : cp.h[k]->get()->v, 0);
                else if (kind == "CloneOnWritePtr") js << projPtr(cw.h[k]->empty(), cw.h[k]->empty() ? -1 : cw.h[k]->get()->v, cw.h[k]->use_count());
                else if (kind == "ReferencePtr") js << projPtr(rp.h[k]->empty(), rp.h[k]->empty() ? -1 : rp.h[k]->get()->v, 0);
                else if (kind == "ResetOnCopy") js << projPtr(false, (int)*rs[k], 0);
                else js << projPtr(false, (int)*ri[k], 0);
            }
            js << "],\"exc\":" << mj::quote(exc.substr(0, 150)) << "}";
            fprintf(out, "%s\n", js.str().c_str());
        }
    }
    fclose(out);
    return 0;
}
