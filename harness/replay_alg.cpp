// E7b / C27, C29 harness: evaluates with the real Rotation / Quaternion / Transform / Inertia / MassProperties /
// SpatialInertia classes (in double and in float) the cases TLC evaluated exactly from spec/Lattice/LatticeAlg.tla.
// usage: replay_alg <cases.ndjson> <out.ndjson>
#include "SimTKcommon.h"
#include "mini_json.h"
#include <fstream>
#include <sstream>
using namespace SimTK;
using std::string;

static string num(double x) { if (x != x) return "NaN"; if (x > 1e308) return "Infinity"; if (x < -1e308) return "-Infinity"; char b[40]; snprintf(b, sizeof b, "%.17g", x); return b; }
template <class P> static string jv(const Vec<3, P>& v) { return "[" + num(v[0]) + "," + num(v[1]) + "," + num(v[2]) + "]"; }
template <class M> static string jm(const M& m) { std::ostringstream o; o << "["; for (int i = 0; i < 3; ++i) { o << (i ? "," : "") << "["; for (int j = 0; j < 3; ++j) o << (j ? "," : "") << num(m[i][j]); o << "]"; } o << "]"; return o.str(); }

template <class P> struct Alg {
    typedef Rotation_<P> Rot; typedef Vec<3, P> V3; typedef Transform_<P> Xf;
    static P theta() { return (P)std::atan2(4.0, 3.0); }
    static P angle(const mj::Value& a) { return (P)(a["k"].num() * (Pi / 2) + a["m"].num() * std::atan2(4.0, 3.0)); }
    static CoordinateAxis axis(const string& s) { return s == "x" ? CoordinateAxis(0) : s == "y" ? CoordinateAxis(1) : CoordinateAxis(2); }
    static V3 vec(const mj::Value& v) { return V3((P)v[0].dbl(), (P)v[1].dbl(), (P)v[2].dbl()); }
    static Rot seq(const mj::Value& r) {
        const BodyOrSpaceType bs = r["bs"].num() ? SpaceRotationSequence : BodyRotationSequence; const int n = (int)r["ax"].size();
        if (n == 0) return Rot();
        if (n == 1) return Rot(angle(r["ang"][0]), axis(r["ax"][0].str()));
        if (n == 2) return Rot(bs, angle(r["ang"][0]), axis(r["ax"][0].str()), angle(r["ang"][1]), axis(r["ax"][1].str()));
        return Rot(bs, angle(r["ang"][0]), axis(r["ax"][0].str()), angle(r["ang"][1]), axis(r["ax"][1].str()), angle(r["ang"][2]), axis(r["ax"][2].str()));
    }
    static Rot roundTrip(const mj::Value& r, const Rot& R) {
        const BodyOrSpaceType bs = r["bs"].num() ? SpaceRotationSequence : BodyRotationSequence; const int n = (int)r["ax"].size();
        if (n == 0) return R;
        if (n == 1) return Rot(R.convertOneAxisRotationToOneAngle(axis(r["ax"][0].str())), axis(r["ax"][0].str()));
        if (n == 2) { const Vec<2, P> a = R.convertTwoAxesRotationToTwoAngles(bs, axis(r["ax"][0].str()), axis(r["ax"][1].str()));
                      return Rot(bs, a[0], axis(r["ax"][0].str()), a[1], axis(r["ax"][1].str())); }
        const V3 a = R.convertThreeAxesRotationToThreeAngles(bs, axis(r["ax"][0].str()), axis(r["ax"][1].str()), axis(r["ax"][2].str()));
        return Rot(bs, a[0], axis(r["ax"][0].str()), a[1], axis(r["ax"][1].str()), a[2], axis(r["ax"][2].str()));
    }
    static double ortho(const Rot& R) { Mat<3, 3, P> E = R.asMat33() * ~R.asMat33() - Mat<3, 3, P>(1); double e = 0; for (int i = 0; i < 3; ++i) for (int j = 0; j < 3; ++j) e = std::max(e, (double)std::abs(E(i, j))); return std::max(e, (double)std::abs(det(R.asMat33()) - 1)); }
    static string general(const Rot& R) {     // the representation-independent round trips of any rotation
        std::ostringstream js;
        const Quaternion_<P> q = R.convertRotationToQuaternion(); const Rot Rq(q);
        const Vec<4, P> aa = R.convertRotationToAngleAxis(); const Rot Raa = aa[0] == 0 ? Rot() : Rot(aa[0], V3(aa[1], aa[2], aa[3]));
        const V3 b = R.convertRotationToBodyFixedXYZ(); const Rot Rb(BodyRotationSequence, b[0], XAxis, b[1], YAxis, b[2], ZAxis);
        js << ",\"Rq\":" << jm(Rq) << ",\"Raa\":" << jm(Raa) << ",\"Rb\":" << jm(Rb) << ",\"qnorm\":" << num(q.asVec4().norm())
           << ",\"ortho\":" << num(std::max(std::max(ortho(R), ortho(Rq)), std::max(ortho(Raa), ortho(Rb))));
        return js.str();
    }
    static string run(const mj::Value& c) {
        std::ostringstream js; const string kind = c["kind"].str();
        if (kind == "seq") { const Rot R = seq(c["r"]); js << "\"R\":" << jm(R) << ",\"Rrt\":" << jm(roundTrip(c["r"], R)) << general(R); }
        else if (kind == "quat") { const Quaternion_<P> q(Vec<4, P>((P)(c["q"][0]["k"].dbl() / std::pow(5.0, c["q"][0]["m"].dbl())), (P)(c["q"][1]["k"].dbl() / std::pow(5.0, c["q"][1]["m"].dbl())),
                                                             (P)(c["q"][2]["k"].dbl() / std::pow(5.0, c["q"][2]["m"].dbl())), (P)(c["q"][3]["k"].dbl() / std::pow(5.0, c["q"][3]["m"].dbl()))));
                             const Rot R(q); js << "\"R\":" << jm(R) << ",\"Rrt\":" << jm(Rot(R.convertRotationToQuaternion())) << general(R); }
        else if (kind == "angleaxis") { const double sc = std::pow(5.0, c["axis"]["e"].dbl()); const V3 a((P)(c["axis"]["n"][0].dbl() / sc), (P)(c["axis"]["n"][1].dbl() / sc), (P)(c["axis"]["n"][2].dbl() / sc));
                             const Rot R(angle(c["ang"]), UnitVec<P, 1>(a)), R2(angle(c["ang"]), V3(a * (P)7));
                             js << "\"R\":" << jm(R) << ",\"Rrt\":" << jm(R2) << general(R); }
        else if (kind == "twoaxes") { const V3 u = vec(c["uvec"]), v = vec(c["vvec"]);
                             const Rot R(UnitVec<P, 1>(u), axis(c["ai"].str()), v, axis(c["aj"].str())); js << "\"R\":" << jm(R) << ",\"Rrt\":" << jm(R) << general(R); }
        else if (kind == "compose") {
            const Rot R1 = seq(c["r1"]), R2 = seq(c["r2"]); const V3 p1 = vec(c["p1"]), p2 = vec(c["p2"]), v = vec(c["v"]);
            const Xf X1(R1, p1), X2(R2, p2); const Xf X12 = X1 * X2; const Xf Xi(~X1);
            js << "\"R12\":" << jm(Rot(R1 * R2)) << ",\"Ri12\":" << jm(Rot(~R1 * R2)) << ",\"R1i2\":" << jm(Rot(R1 * ~R2))
               << ",\"R1v\":" << jv<P>(R1 * v) << ",\"Ri1v\":" << jv<P>(~R1 * v)
               << ",\"X12R\":" << jm(X12.R()) << ",\"X12p\":" << jv<P>(X12.p()) << ",\"XiR\":" << jm(Xi.R()) << ",\"Xip\":" << jv<P>(Xi.p())
               << ",\"X1v\":" << jv<P>(X1 * v) << ",\"Xi1v\":" << jv<P>(~X1 * v) << ",\"ortho\":" << num(std::max(ortho(Rot(R1 * R2)), ortho(X12.R())));
        }
        else if (kind == "inertia") {
            const Rot R = seq(c["r"]); const P m = (P)c["mass"].dbl(); const V3 com = vec(c["com"]), w = vec(c["w"]), v = vec(c["v"]), s = vec(c["s"]);
            const Inertia_<P> Ic((P)c["ic"][0].dbl(), (P)c["ic"][1].dbl(), (P)c["ic"][2].dbl());
            const Inertia_<P> Io = Ic.shiftFromMassCenter(com, m);
            const Inertia_<P> Icb = Io.shiftToMassCenter(com, m);
            const MassProperties_<P> mp(m, com, Io);
            const MassProperties_<P> mpG = mp.reexpress(~R);              // from B to G: R_BG = ~R_GB
            const MassProperties_<P> mps = mp.calcShiftedMassProps(s);
            const SpatialInertia_<P> SI(m, com, UnitInertia_<P>(Io / m));
            const Vec<2, V3> MV = SI * Vec<2, V3>(w, v);
            const SpatialInertia_<P> SIs = SI.shift(s), SIG = SI.reexpress(~R);
            const P ke2 = dot(w, MV[0]) + dot(v, MV[1]);
            // kinetic energy is invariant when inertia and velocity are shifted together: velocity of the new origin v + w x s
            const Vec<2, V3> Vs(w, v + w % s); const Vec<2, V3> MVs = SIs * Vs; const P ke2s = dot(Vs[0], MVs[0]) + dot(Vs[1], MVs[1]);
            js << "\"Io\":" << jm(Io.toMat33()) << ",\"Ic\":" << jm(Icb.toMat33()) << ",\"Ic2\":" << jm(mp.calcCentralInertia().toMat33())
               << ",\"IoG\":" << jm(mpG.getInertia().toMat33()) << ",\"IoG2\":" << jm((SIG.getMass() * SIG.getUnitInertia()).toMat33()) << ",\"comG\":" << jv<P>(mpG.getMassCenter())
               << ",\"IcG\":" << jm(Ic.reexpress(~R).toMat33())
               << ",\"Mw\":" << jv<P>(MV[0]) << ",\"Mv\":" << jv<P>(MV[1]) << ",\"ke2\":" << num(ke2) << ",\"ke2s\":" << num(ke2s)
               << ",\"Ios\":" << jm(mps.getInertia().toMat33()) << ",\"Ios2\":" << jm((SIs.getMass() * SIs.getUnitInertia()).toMat33())
               << ",\"coms\":" << jv<P>(mps.getMassCenter()) << ",\"coms2\":" << jv<P>(SIs.getMassCenter())
               << ",\"valid\":" << (Inertia_<P>::isValidInertiaMatrix(Io.asSymMat33()) ? 1 : 0);
        }
        else if (kind == "nxyz") {
            const V3 q(angle(c["q"][0]), angle(c["q"][1]), angle(c["q"][2])), qd = vec(c["qd"]);
            const V3 wB = vec(c["wB"]), wBd = vec(c["wBd"]), wP = vec(c["wP"]), wPd = vec(c["wPd"]), probe((P)1, (P)-2, (P)3);
            const Vec<2, P> cxy(std::cos(q[0]), std::cos(q[1])), sxy(std::sin(q[0]), std::sin(q[1])); const P ooc = 1 / cxy[1];
            js << "\"NB\":" << jm(Rot::calcNForBodyXYZInBodyFrame(q)) << ",\"NP\":" << jm(Rot::calcNForBodyXYZInParentFrame(q))
               << ",\"NinvB\":" << jm(Rot::calcNInvForBodyXYZInBodyFrame(q)) << ",\"NinvP\":" << jm(Rot::calcNInvForBodyXYZInParentFrame(q))
               << ",\"NdotB\":" << jm(Rot::calcNDotForBodyXYZInBodyFrame(q, qd)) << ",\"NdotP\":" << jm(Rot::calcNDotForBodyXYZInParentFrame(q, qd))
               << ",\"wB\":" << jv<P>(Rot::convertBodyXYZDotToAngVelInBodyFrame(q, qd))
               << ",\"qdB\":" << jv<P>(Rot::convertAngVelInBodyFrameToBodyXYZDot(q, wB))
               << ",\"qddB\":" << jv<P>(Rot::convertAngVelDotInBodyFrameToBodyXYZDotDot(q, wB, wBd))
               << ",\"qdP\":" << jv<P>(Rot::convertAngVelInParentToBodyXYZDot(cxy, sxy, ooc, wP))
               << ",\"qddP\":" << jv<P>(Rot::convertAngAccInParentToBodyXYZDotDot(cxy, sxy, ooc, qd, wPd))
               << ",\"mN\":" << jv<P>(Rot::multiplyByBodyXYZ_N_P(cxy, sxy, ooc, probe)) << ",\"mNT\":" << jv<P>(Rot::multiplyByBodyXYZ_NT_P(cxy, sxy, ooc, probe))
               << ",\"mNinv\":" << jv<P>(Rot::multiplyByBodyXYZ_NInv_P(cxy, sxy, probe)) << ",\"mNinvT\":" << jv<P>(Rot::multiplyByBodyXYZ_NInvT_P(cxy, sxy, probe));
        }
        else if (kind == "nquat") {
            Vec<4, P> q; for (int i = 0; i < 4; ++i) q[i] = (P)(c["q"][i]["k"].dbl() / std::pow(5.0, c["q"][i]["m"].dbl()));
            const V3 w = vec(c["w"]), wd = vec(c["wd"]); Vec<4, P> qdot; for (int i = 0; i < 4; ++i) qdot[i] = (P)c["qdot"][i].dbl();
            const Mat<4, 3, P> N = Rot::calcUnnormalizedNForQuaternion(q), Nd = Rot::calcUnnormalizedNDotForQuaternion(qdot); const Mat<3, 4, P> Ni = Rot::calcUnnormalizedNInvForQuaternion(q);
            const Vec<4, P> qd = Rot::convertAngVelToQuaternionDot(q, w), qdd = Rot::convertAngVelDotToQuaternionDotDot(q, w, wd), Ndw = Nd * w;
            const Mat<3, 3, P> NiN = Ni * N; const Vec<4, P> q2 = q * (P)2;
            const Mat<3, 3, P> NiN2 = Rot::calcUnnormalizedNInvForQuaternion(q2) * Rot::calcUnnormalizedNForQuaternion(q2);
            js << "\"qd\":[" << num(qd[0]) << "," << num(qd[1]) << "," << num(qd[2]) << "," << num(qd[3]) << "]"
               << ",\"qdd\":[" << num(qdd[0]) << "," << num(qdd[1]) << "," << num(qdd[2]) << "," << num(qdd[3]) << "]"
               << ",\"Ndw\":[" << num(Ndw[0]) << "," << num(Ndw[1]) << "," << num(Ndw[2]) << "," << num(Ndw[3]) << "]"
               << ",\"wback\":" << jv<P>(Rot::convertQuaternionDotToAngVel(q, qdot)) << ",\"NiN\":" << jm(NiN) << ",\"NiN2\":" << jm(NiN2);
        }
        else if (kind == "valid") {
            const SymMat<3, P> M((P)c["d"][0].dbl(), (P)c["p"][0].dbl(), (P)c["d"][1].dbl(), (P)c["p"][1].dbl(), (P)c["p"][2].dbl(), (P)c["d"][2].dbl());
            js << "\"ok\":" << (Inertia_<P>::isValidInertiaMatrix(M) ? 1 : 0);
        }
        return js.str();
    }
};

int main(int argc, char** argv) {
    if (argc < 3) return 2;
    std::ifstream in(argv[1]);
    FILE* out = fopen(argv[2], "w");
    string line; int lineno = 0;
    while (std::getline(in, line)) {
        ++lineno;
        mj::Value c = mj::parse(line.c_str());
        if (!c.isObject()) continue;
        for (int prec = 0; prec < 2; ++prec) {
            string body, exc;
            try { body = prec ? Alg<float>::run(c) : Alg<double>::run(c); } catch (const std::exception& e) { exc = e.what(); }
            fprintf(out, "{\"i\":%d,\"prec\":\"%s\",%s%s\"exc\":%s}\n", lineno, prec ? "float" : "double", body.c_str(), body.empty() ? "" : ",", mj::quote(exc.substr(0, 200)).c_str());
        }
    }
    fclose(out);
    return 0;
}
