// E5/C32 harness.
//  mode "lit":  every string TLC enumerated from spec/Func/Literal.tla is fed to
//               String::tryConvertTo<T> for T in {int,double,float,bool}; accept/reject and the class
//               of the value are reported.
//  mode "rt":   every structure TLC enumerated from spec/Func/RoundTrip.tla (kind + value tokens from
//               the boundary-value table below) is built, written as text, read back and compared
//               bit-for-bit.
// usage: replay_text <in.ndjson> <out.ndjson>
#include "SimTKcommon.h"
#include "mini_json.h"
#include <fstream>
#include <sstream>
#include <cstring>
#include <cfloat>

using namespace SimTK;
using std::string;

static const double TABLE[] = { 0.0, -0.0, 1.0, -1.5, 1e-310, DBL_MAX, DBL_MIN, NaN, Infinity, -Infinity,
                                0.1, 1.0/3.0, 123456789.123456789, 5e-324, -2.2250738585072011e-308, 6.02214076e23 };
static const int NTAB = sizeof(TABLE)/sizeof(TABLE[0]);
static const char* STRS[] = { "plain", "a<b", "x & y", "\"quoted\"", "it's", "  padded  ", "tab\there", "", "caf\xc3\xa9", "1 < 2 > 0 &amp;",
                              "say \"it's\"", "\"' y='1", "'single' and \"double\" & <both>", "a\nb" };
static const int NSTR = sizeof(STRS)/sizeof(STRS[0]);

template <class T> static bool sameBits(const T& a, const T& b) { return std::memcmp(&a, &b, sizeof(T)) == 0; }
static bool same(double a, double b) { return (std::isnan(a) && std::isnan(b)) || sameBits(a, b); }
static bool same(float a, float b) { return (std::isnan(a) && std::isnan(b)) || sameBits(a, b); }

static string cls(double v) { return std::isnan(v) ? "nan" : std::isinf(v) ? (v > 0 ? "+inf" : "-inf") : "finite"; }

int main(int argc, char** argv) {
    if (argc < 3) return 2;
    std::ifstream in(argv[1]);
    FILE* out = fopen(argv[2], "w");
    string line; int lineno = 0;
    while (std::getline(in, line)) {
        ++lineno;
        mj::Value p = mj::parse(line.c_str());
        if (!p.isObject()) continue;
        std::ostringstream js;
        js << "{\"i\":" << lineno;
        try {
            if (p["mode"].str() == "lit") {
                const String s(p["s"].str());
                int iv = 0; double dv = 0; float fv = 0; bool bv = false;
                const bool ai = s.tryConvertTo<int>(iv), ad = s.tryConvertTo<double>(dv), af = s.tryConvertTo<float>(fv), ab = s.tryConvertTo<bool>(bv);
                js << ",\"acc\":{\"int\":" << ai << ",\"double\":" << ad << ",\"float\":" << af << ",\"bool\":" << ab << "}"
                   << ",\"cls\":" << mj::quote(ad ? cls(dv) : "") << ",\"fcls\":" << mj::quote(af ? cls(fv) : "");
            } else {
                const string kind = p["kind"].str();
                std::vector<double> v; for (auto& t : p["tok"].arr()) v.push_back(TABLE[t.num() % NTAB]);
                bool ok = true; string text, why;
                if (kind == "double") { String s(v[0]); text = s; double r = s.convertTo<double>(); ok = same(v[0], r); }
                else if (kind == "float") { float f = (float)v[0]; String s(f); text = s; float r = s.convertTo<float>(); ok = same(f, r); }
                else if (kind == "int") { int x = (int)(p["tok"][0].num() * 715827883LL % 2147483647) * (p["tok"][0].num() % 2 ? -1 : 1);
                                          String s(x); text = s; ok = s.convertTo<int>() == x; }
                else if (kind == "bool") { bool b = p["tok"][0].num() % 2; String s(b); text = s; ok = s.convertTo<bool>() == b; }
                else if (kind == "complex") { std::complex<double> c(v[0], v[1]); std::ostringstream o; writeUnformatted(o, c); text = o.str();
                                              std::complex<double> r; std::istringstream i(text); ok = readUnformatted(i, r) && same(c.real(), r.real()) && same(c.imag(), r.imag()); }
                else if (kind == "Vec3") { Vec3 a(v[0], v[1], v[2]); std::ostringstream o; writeUnformatted(o, a); text = o.str();
                                           Vec3 r; std::istringstream i(text); ok = readUnformatted(i, r); for (int k = 0; ok && k < 3; ++k) ok = same(a[k], r[k]);
                                           // and through String
                                           String s(a, SimTK::LosslessNumDigitsReal); Vec3 r2; if (!s.tryConvertTo(r2)) { ok = false; why = "String->Vec3 failed: " + s; } else for (int k = 0; ok && k < 3; ++k) ok = same(a[k], r2[k]); }
                else if (kind == "Mat22") { Mat22 a(v[0], v[1], v[2], v[3]); std::ostringstream o; writeUnformatted(o, a); text = o.str();
                                            Mat22 r; std::istringstream i(text); ok = readUnformatted(i, r);
                                            for (int k = 0; ok && k < 2; ++k) for (int l = 0; ok && l < 2; ++l) ok = same(a(k, l), r(k, l)); }
                else if (kind == "Vector") { Vector a((int)v.size()); for (size_t k = 0; k < v.size(); ++k) a[(int)k] = v[k];
                                             std::ostringstream o; writeUnformatted(o, a); text = o.str();
                                             Vector r; std::istringstream i(text); ok = readUnformatted(i, r) && r.size() == a.size();
                                             for (int k = 0; ok && k < a.size(); ++k) ok = same(a[k], r[k]); }
                else if (kind == "Array") { Array_<float> a; for (double x : v) a.push_back((float)x);
                                            std::ostringstream o; writeUnformatted(o, a); text = o.str();
                                            Array_<float> r; std::istringstream i(text); ok = readUnformatted(i, r) && r.size() == a.size();
                                            for (unsigned k = 0; ok && k < a.size(); ++k) ok = same(a[k], r[k]); }
                else if (kind == "Xml") {
                    // tokens: text of the root's children (strings from STRS), attribute values, one comment
                    Xml::Document doc; doc.setRootTag("root");
                    Xml::Element root = doc.getRootElement();
                    std::vector<string> want;
                    int k = 0;
                    for (auto& t : p["tok"].arr()) {
                        const string sv = STRS[t.num() % NSTR];
                        Xml::Element e("item" + String(k), sv);
                        e.setAttributeValue("a", sv);
                        e.setAttributeValue("n", String(TABLE[t.num() % NTAB]));
                        if (k == 1) root.insertNodeAfter(root.node_end(), Xml::Comment("c <!> " + sv));
                        root.insertNodeAfter(root.node_end(), e);
                        want.push_back(sv); ++k;
                    }
                    String written; doc.writeToString(written); text = written;
                    Xml::Document back; back.readFromString(written);
                    Xml::Element r2 = back.getRootElement();
                    Array_<Xml::Element> kids = r2.getAllElements();
                    ok = (int)kids.size() == (int)want.size() && r2.getElementTag() == "root";
                    for (unsigned j = 0; ok && j < kids.size(); ++j) {
                        // element text is trimmed of leading/trailing white space by the reader (documented)
                        const String wv = String(want[j]).trimWhiteSpace();
                        if (kids[j].getValue() != wv) { ok = false; why = "element text '" + string(kids[j].getValue()) + "' != '" + string(wv) + "'"; }
                        else if (kids[j].getRequiredAttributeValue("a") != want[j]) { ok = false; why = "attribute"; }
                        else { double d = kids[j].getRequiredAttributeValueAs<double>("n");
                               if (!same(d, TABLE[p["tok"][j].num() % NTAB])) { ok = false; why = "numeric attribute"; } }
                    }
                }
                else throw std::runtime_error("unknown kind " + kind);
                js << ",\"ok\":" << (ok ? 1 : 0) << ",\"text\":" << mj::quote(text.substr(0, 200)) << ",\"why\":" << mj::quote(why);
            }
            js << ",\"exc\":\"\"}";
        } catch (const std::exception& e) { js << ",\"exc\":" << mj::quote(string(e.what()).substr(0, 200)) << "}"; }
        fprintf(out, "%s\n", js.str().c_str());
    }
    fclose(out);
    return 0;
}
