// E6/C26 harness: interprets behaviours of spec/Data/ArrayModel.tla on real Array_<T> objects for
// three element types (a counting type, int, a move-only type) and reports, after every action, the
// contents of both arrays, size, capacity and the number of live element objects.
// usage: replay_array <programs.ndjson> <out.ndjson>
#include "SimTKcommon.h"
#include "mini_json.h"
#include <fstream>
#include <sstream>
#include <memory>

using namespace SimTK;
using std::string;

static long gLive = 0, gCtor = 0, gDtor = 0;
struct Counted {
    int v; int* canary;
    Counted() : v(0), canary(new int(42)) { ++gLive; ++gCtor; }
    Counted(int v) : v(v), canary(new int(42)) { ++gLive; ++gCtor; }
    Counted(const Counted& o) : v(o.v), canary(new int(42)) { ++gLive; ++gCtor; }
    Counted(Counted&& o) noexcept : v(o.v), canary(new int(42)) { ++gLive; ++gCtor; }
    Counted& operator=(const Counted& o) { v = o.v; return *this; }
    Counted& operator=(Counted&& o) noexcept { v = o.v; return *this; }
    ~Counted() { if (!canary || *canary != 42) { fprintf(stderr, "double destruction\n"); abort(); } *canary = 0; delete canary; canary = nullptr; --gLive; ++gDtor; }
    operator int() const { return v; }
};
struct MoveOnly {
    std::unique_ptr<int> p;
    MoveOnly() : p(new int(0)) { ++gLive; }
    MoveOnly(int v) : p(new int(v)) { ++gLive; }
    MoveOnly(MoveOnly&& o) noexcept : p(std::move(o.p)) { ++gLive; }
    MoveOnly& operator=(MoveOnly&& o) noexcept { p = std::move(o.p); return *this; }
    MoveOnly(const MoveOnly&) = delete; MoveOnly& operator=(const MoveOnly&) = delete;
    ~MoveOnly() { --gLive; }
    operator int() const { return p ? *p : -99; }
};

template <class T> static string dump(const Array_<T>& a) {
    std::ostringstream o; o << "[";
    for (unsigned i = 0; i < a.size(); ++i) o << (i ? "," : "") << (int)a[i];
    o << "]"; return o.str();
}

// copyable element types: the whole alphabet
template <class T> static bool applyCopyable(const mj::Value& a, Array_<T>& x, Array_<T>& o, string& note) {
    const string op = a["op"].str();
    const int i = a["i"].num(), j = a["j"].num(), k = a["k"].num(), n = a["n"].num(), v = a["v"].num();
    if (op == "push_back") x.push_back(T(v));
    else if (op == "emplace_back") x.emplace_back(v);
    else if (op == "pop_back") x.pop_back();
    else if (op == "insert") x.insert(x.begin() + i, T(v));
    else if (op == "insertN") x.insert(x.begin() + i, n, T(v));
    else if (op == "insertRange") x.insert(x.begin() + i, o.cbegin() + j, o.cbegin() + k);
    else if (op == "erase") x.erase(x.begin() + i);
    else if (op == "eraseRange") x.erase(x.begin() + i, x.begin() + j);
    else if (op == "eraseFast") x.eraseFast(x.begin() + i);
    else if (op == "resize") x.resize(n);
    else if (op == "resizeV") x.resize(n, T(v));
    else if (op == "reserve") { x.reserve(n); if ((int)x.capacity() < n) note = "capacity below the reserved amount"; }
    else if (op == "shrink_to_fit") x.shrink_to_fit();
    else if (op == "assignN") x.assign(n, T(v));
    else if (op == "assignRange") x.assign(o.cbegin() + j, o.cbegin() + k);
    else if (op == "clear") x.clear();
    else if (op == "swap") x.swap(o);
    else if (op == "copyAssign") x = o;
    else if (op == "copyConstruct") { Array_<T> c(o); x.swap(c); }
    else if (op == "moveAssign") { x = std::move(o); o.clear(); }   // the moved-from array is valid but unspecified: normalise
    else if (op == "setElt") x[i] = T(v);
    else if (op == "viewFill") { x(i, n).fill(T(v)); }
    else if (op == "viewAssign") { x(i, n) = o(j, n); }
    else if (op == "handle") {
        // a non-owner handle onto x[i, i+n): optional writes through it, then dropped in one of several ways
        T* first = x.begin() + i;
        Array_<T> h(first, first + n, DontCopy());
        if (h.isOwner() && n > 0) note = "a DontCopy handle claims ownership";
        if (j) for (unsigned e = 0; e < h.size(); ++e) h[e] = T(v);
        if (k == 1) h.deallocate();
        else if (k == 2) h.shareData(o.begin(), o.end());
        else if (k == 3) { Array_<T> g(std::move(h)); }
        else if (k == 4) { Array_<T> g; g.swap(h); }
    }
    else return false;
    return true;
}
template <class T> static bool applyMoveOnly(const mj::Value& a, Array_<T>& x, Array_<T>& o, string& note) {
    const string op = a["op"].str();
    const int i = a["i"].num(), j = a["j"].num(), k = a["k"].num(), n = a["n"].num(), v = a["v"].num();
    if (op == "push_back") x.push_back(T(v));
    else if (op == "emplace_back") x.emplace_back(v);
    else if (op == "pop_back") x.pop_back();
    else if (op == "erase") x.erase(x.begin() + i);
    else if (op == "eraseRange") x.erase(x.begin() + i, x.begin() + j);
    else if (op == "eraseFast") x.eraseFast(x.begin() + i);
    else if (op == "reserve") x.reserve(n);
    else if (op == "shrink_to_fit") x.shrink_to_fit();
    else if (op == "clear") x.clear();
    else if (op == "swap") x.swap(o);
    else if (op == "moveAssign") { x = std::move(o); o.clear(); }   // the moved-from array is valid but unspecified: normalise
    else if (op == "handle") {
        // a non-owner handle onto x[i, i+n): optional writes through it, then dropped in one of several ways
        T* first = x.begin() + i;
        Array_<T> h(first, first + n, DontCopy());
        if (h.isOwner() && n > 0) note = "a DontCopy handle claims ownership";
        if (j) for (unsigned e = 0; e < h.size(); ++e) h[e] = T(v);
        if (k == 1) h.deallocate();
        else if (k == 2) h.shareData(o.begin(), o.end());
        else if (k == 3) { Array_<T> g(std::move(h)); }
        else if (k == 4) { Array_<T> g; g.swap(h); }
    }
    else if (op == "setElt") x[i] = T(v);
    else return false;
    return true;
}

template <class T, bool Copyable> static void runProgram(const mj::Value& prog, FILE* out, const char* tname, int lineno) {
    const long base = gLive;
    {
        Array_<T> A, B;
        int step = 0;
        for (auto& st : prog.arr()) {
            ++step;
            const mj::Value& a = st["act"];
            Array_<T>& x = (a["x"].str() == "b") ? B : A;
            Array_<T>& o = (a["x"].str() == "b") ? A : B;
            string note, exc; bool done = false;
            try { if constexpr (Copyable) done = applyCopyable(a, x, o, note); else done = applyMoveOnly(a, x, o, note); }
            catch (const std::exception& e) { exc = e.what(); }
            if (!done && exc.empty()) break;       // operation not available for this element type: stop this program
            fprintf(out, "{\"prog\":%d,\"type\":\"%s\",\"step\":%d,\"a\":%s,\"b\":%s,\"capOK\":%d,\"live\":%ld,\"note\":%s,\"exc\":%s}\n",
                    lineno, tname, step, dump(A).c_str(), dump(B).c_str(),
                    (A.capacity() >= A.size() && B.capacity() >= B.size()) ? 1 : 0, gLive - base,
                    mj::quote(note).c_str(), mj::quote(exc.substr(0, 150)).c_str());
            if (!exc.empty()) break;
        }
    }
    fprintf(out, "{\"prog\":%d,\"type\":\"%s\",\"step\":-1,\"a\":[],\"b\":[],\"capOK\":1,\"live\":%ld,\"note\":\"\",\"exc\":\"\"}\n", lineno, tname, gLive - base);
}

int main(int argc, char** argv) {
    if (argc < 3) return 2;
    std::ifstream in(argv[1]);
    FILE* out = fopen(argv[2], "w");
    string line; int lineno = 0;
    while (std::getline(in, line)) {
        ++lineno;
        mj::Value p = mj::parse(line.c_str());
        if (!p.isArray()) continue;
        runProgram<Counted, true>(p, out, "Counted", lineno);
        runProgram<int, true>(p, out, "int", lineno);
        runProgram<MoveOnly, false>(p, out, "MoveOnly", lineno);
    }
    fclose(out);
    return 0;
}
