// E5/C42 harness: runs the real MultibodyGraphMaker on every input enumerated by TLC
// (spec/Graph/GraphGen.tla) and records the whole result for TLC to judge (spec/Graph/GraphSpec.tla).
// usage: replay_graph <inputs.ndjson> <out.ndjson>
#include "SimTKmath.h"
#include "mini_json.h"
#include <fstream>
#include <sstream>
using namespace SimTK;
using std::string;

int main(int argc, char** argv) {
    if (argc < 3) return 2;
    std::ifstream in(argv[1]);
    FILE* out = fopen(argv[2], "w");
    string line;
    static int ids[64]; for (int i = 0; i < 64; ++i) ids[i] = i;
    while (std::getline(in, line)) {
        mj::Value p = mj::parse(line.c_str());
        if (!p.isObject()) continue;
        const int nb = p["nb"].num();
        std::ostringstream js;
        MultibodyGraphMaker g;
        string err;
        try {
            g.addJointType("pin", 1, true, nullptr);
            g.addJointType("cyl", 2, false, nullptr);
            g.addBody("ground", 0, false, &ids[0]);
            for (int b = 1; b <= nb; ++b)
                g.addBody("b" + std::to_string(b), p["mass"][b - 1].dbl(), p["base"][b - 1].boolean(), &ids[b]);
            int jn = 0;
            for (auto& j : p["joints"].arr()) {
                ++jn;
                auto nm = [](int b) { return b == 0 ? string("ground") : "b" + std::to_string(b); };
                g.addJoint("j" + std::to_string(jn), j["type"].str(), nm(j["p"].num()), nm(j["c"].num()), j["loop"].boolean(), &ids[32 + jn]);
            }
            g.generateGraph();
        } catch (const std::exception& e) { err = e.what(); }
        js << "{\"err\":" << (err.empty() ? "false" : "true") << ",\"msg\":" << mj::quote(err.substr(0, 160)) << ",\"mobs\":[";
        if (err.empty()) {
            auto bodyOf = [&](void* r) { return r ? *(int*)r : -1; };
            for (int k = 0; k < g.getNumMobilizers(); ++k) {
                const MultibodyGraphMaker::Mobilizer& m = g.getMobilizer(k);
                const int j = m.isAddedBaseMobilizer() ? 0 : (m.getJointRef() ? *(int*)m.getJointRef() - 32 : 0);
                int dof = 6;
                const string t = m.getJointTypeName();
                if (t == "weld") dof = 0; else if (t == "pin") dof = 1; else if (t == "cyl") dof = 2;
                js << (k ? "," : "") << "{\"j\":" << j << ",\"inb\":" << bodyOf(m.getInboardBodyRef())
                   << ",\"outb\":" << bodyOf(m.getOutboardMasterBodyRef()) << ",\"slave\":" << (m.isSlaveMobilizer() ? "true" : "false")
                   << ",\"rev\":" << (m.isReversedFromJoint() ? "true" : "false") << ",\"level\":" << m.getLevel()
                   << ",\"added\":" << (m.isAddedBaseMobilizer() ? "true" : "false") << ",\"dof\":" << dof
                   << ",\"type\":" << mj::quote(t) << "}";
            }
        }
        js << "],\"loops\":[";
        if (err.empty())
            for (int k = 0; k < g.getNumLoopConstraints(); ++k) {
                const MultibodyGraphMaker::LoopConstraint& c = g.getLoopConstraint(k);
                js << (k ? "," : "") << "{\"j\":" << (c.getJointRef() ? *(int*)c.getJointRef() - 32 : 0)
                   << ",\"p\":" << (c.getParentBodyRef() ? *(int*)c.getParentBodyRef() : -1)
                   << ",\"c\":" << (c.getChildBodyRef() ? *(int*)c.getChildBodyRef() : -1)
                   << ",\"type\":" << mj::quote(c.getJointTypeName()) << "}";
            }
        js << "],\"frags\":[";
        if (err.empty())
            for (int b = 1; b <= nb; ++b) js << (b > 1 ? "," : "") << g.getBody(g.getBodyNum("b" + std::to_string(b))).getNumFragments();
        js << "]}";
        fprintf(out, "%s\n", js.str().c_str());
    }
    fclose(out);
    return 0;
}
