// E7c / C24 harness: factors with the real FactorLU / FactorLLT / FactorQTZ / FactorSVD / Eigen classes the matrices
// TLC expanded exactly from spec/Lattice/LatticeLin.tla (matrices with a known decomposition), in double, float and
// complex<double>.
// usage: replay_lin <cases.ndjson> <out.ndjson>
#include "SimTKcommon.h"
#include "simmath/LinearAlgebra.h"
#include "mini_json.h"
#include <fstream>
#include <sstream>
#include <complex>
#include <functional>
using namespace SimTK;
using std::string;

static string num(double x) { if (x != x) return "NaN"; if (x > 1e308) return "Infinity"; if (x < -1e308) return "-Infinity"; char b[40]; snprintf(b, sizeof b, "%.17g", x); return b; }
static string cx(double x) { return "[" + num(x) + ",0]"; }
static string cx(float x) { return "[" + num(x) + ",0]"; }
static string cx(const std::complex<double>& x) { return "[" + num(x.real()) + "," + num(x.imag()) + "]"; }
static string cx(const std::complex<float>& x) { return "[" + num(x.real()) + "," + num(x.imag()) + "]"; }
template <class E> static string jm(const Matrix_<E>& M) { std::ostringstream o; o << "["; for (int i = 0; i < M.nrow(); ++i) { o << (i ? "," : "") << "["; for (int j = 0; j < M.ncol(); ++j) o << (j ? "," : "") << cx(M(i, j)); o << "]"; } o << "]"; return o.str(); }
template <class E> static string jv(const Vector_<E>& v) { std::ostringstream o; o << "["; for (int i = 0; i < v.size(); ++i) o << (i ? "," : "") << cx(v[i]); o << "]"; return o.str(); }

template <class E, class RealT> static void runFor(std::ostringstream& js, const mj::Value& c, const char* tag) {
    const int m = (int)c["A"].size(), n = (int)c["A"][0].size(); const int nrhs = (int)c["b"].size();
    Matrix_<E> A(m, n); for (int i = 0; i < m; ++i) for (int j = 0; j < n; ++j) A(i, j) = E((RealT)c["A"][i][j].dbl());
    Matrix_<E> B(m, nrhs); for (int k = 0; k < nrhs; ++k) for (int i = 0; i < m; ++i) B(i, k) = E((RealT)c["b"][k][i].dbl());
    Vector_<E> b0(m); for (int i = 0; i < m; ++i) b0[i] = B(i, 0);
    auto part = [&](const char* name, std::function<string()> f) {
        js << ",\"" << tag << "/" << name << "\":";
        string body; try { body = "{" + f() + "}"; } catch (const std::exception& e) { body = "{\"exc\":" + mj::quote(string(e.what()).substr(0, 300)) + "}"; }
        js << body;
    };
    if (m == n) part("LU", [&] { std::ostringstream o; FactorLU lu(A); o << "\"singular\":" << (lu.isSingular() ? 1 : 0);
        if (!lu.isSingular()) { Vector_<E> x; lu.solve(b0, x); Matrix_<E> X; lu.solve(B, X); Matrix_<E> inv; lu.inverse(inv); o << ",\"x\":" << jv(x) << ",\"X\":" << jm(X) << ",\"inv\":" << jm(inv);
            FactorLU lu2; lu2.factor(A); Vector_<E> x2; lu2.solve(b0, x2); o << ",\"x2\":" << jv(x2); }     // factor() on an existing object
        return o.str(); });
    if (m == n && c["spd"].num()) part("LLT", [&] { std::ostringstream o; FactorLLT llt(A); Vector_<E> x; llt.solve(b0, x); Matrix_<E> X; llt.solve(B, X); Matrix_<E> inv; llt.inverse(inv); Matrix_<E> L; llt.getL(L);
        o << "\"x\":" << jv(x) << ",\"X\":" << jm(X) << ",\"inv\":" << jm(inv) << ",\"L\":" << jm(L); return o.str(); });
    part("QTZ", [&] { std::ostringstream o; FactorQTZ qtz(A); Vector_<E> x; qtz.solve(b0, x); Matrix_<E> X; qtz.solve(B, X); o << "\"rank\":" << qtz.getRank() << ",\"x\":" << jv(x) << ",\"X\":" << jm(X);
        if (m == n) { Matrix_<E> inv; qtz.inverse(inv); o << ",\"inv\":" << jm(inv); }
        return o.str(); });
    part("SVD", [&] { std::ostringstream o; FactorSVD svd(A); Vector_<RealT> sv; svd.getSingularValues(sv); o << "\"rank\":" << svd.getRank() << ",\"sv\":" << jv(sv);
        Vector_<E> x; svd.solve(b0, x); Matrix_<E> X; svd.solve(B, X); o << ",\"x\":" << jv(x) << ",\"X\":" << jm(X);
        if (m == n) { Matrix_<E> inv; svd.inverse(inv); o << ",\"inv\":" << jm(inv); }      // (inverse() is for square matrices)
        Vector_<RealT> sv2; Matrix_<E> Um, Vt; svd.getSingularValuesAndVectors(sv2, Um, Vt); o << ",\"sv2\":" << jv(sv2) << ",\"U\":" << jm(Um) << ",\"Vt\":" << jm(Vt);
        return o.str(); });
    if (m == n && c["kind"].str() != "lin") part("Eigen", [&] { std::ostringstream o; Eigen es(A); Vector_<std::complex<RealT> > vals; Matrix_<std::complex<RealT> > vecs; es.getAllEigenValuesAndVectors(vals, vecs);
        o << "\"vals\":" << jv(vals) << ",\"vecs\":" << jm(vecs);
        Eigen es2(A); Vector_<std::complex<RealT> > v2; es2.getAllEigenValues(v2); o << ",\"vals2\":" << jv(v2); return o.str(); });
}

int main(int argc, char** argv) {
    if (argc < 3) return 2;
    std::ifstream in(argv[1]);
    FILE* out = fopen(argv[2], "w");
    string line; int lineno = 0;
    while (std::getline(in, line)) {
        ++lineno;
        mj::Value c = mj::parse(line.c_str());
        if (!c.isObject()) continue;
        std::ostringstream js; js << "\"i\":" << lineno;
        runFor<double, double>(js, c, "double");
        runFor<float, float>(js, c, "float");
        runFor<std::complex<double>, double>(js, c, "complex");
        fprintf(out, "{%s}\n", js.str().c_str());
        fflush(out);
    }
    fclose(out);
    return 0;
}
