// E4 harness: runs request programs against every integrator (directly, or through TimeStepper)
// and records, per call, what the public API reports.  The traces are validated by TLC against
// spec/Integ (StepTo: C19; Events/TimeStepper: C22; manifold flags: C21).
//
// usage: record_integ <programs.ndjson> <out.ndjson>
#include "Simbody.h"
#include "mini_json.h"
#include <fstream>
#include <sstream>
#include <cmath>
#include <memory>
#include <csignal>
#include <unistd.h>

using namespace SimTK;
using std::string;

static FILE* out;
static std::vector<string> gLog;      // events logged from inside handlers during one stepTo
static void logEv(const string& s) { gLog.push_back(s); }
// the force-free slider moves linearly between handler interventions: q = segQ + segU (t - segT)
static Real segT = 0, segQ = 0, segU = 1;
static string num(Real x) {
    if (std::isinf(x)) return x > 0 ? "\"inf\"" : "\"-inf\"";
    if (std::isnan(x)) return "\"nan\"";
    char b[40]; snprintf(b, sizeof b, "%.17g", x); return b;
}

// ---------------------------------------------------------------------------------------------
struct Model {
    MultibodySystem system; SimbodyMatterSubsystem matter; GeneralForceSubsystem forces;
    MobilizedBody::Slider slider; MobilizedBody::Pin pend; MobilizedBody::Pin link2; MobilizedBody::Ball ball;
    MobilizedBody::Slider driven; Motion::Steady steady;
    string kind;
    Model(const string& k) : matter(system), forces(system), kind(k) {
        Body::Rigid body(MassProperties(1.0, Vec3(0), Inertia(1)));
        // a force-free slider: q(t) = q0 + u0 t exactly, for every integration method
        slider = MobilizedBody::Slider(matter.Ground(), Transform(), body, Transform());
        slider.setDefaultLength(0);
        if (k != "free") {
            Force::Gravity(forces, matter, Vec3(0, -9.8, 0));
            pend = MobilizedBody::Pin(matter.Ground(), Transform(Vec3(0, 0, 1)), body, Transform(Vec3(0, 1, 0)));
            pend.setDefaultAngle(0.7);
        }
        if (k == "loop" || k == "loopmany") {
            link2 = MobilizedBody::Pin(pend, Transform(Vec3(0, 0, 0)), body, Transform(Vec3(0, 1, 0)));
            link2.setDefaultAngle(0.9);
            // closes a loop: point on link2 at fixed distance from a ground point
            Constraint::Rod(matter.Ground(), Vec3(1.2, -0.4, 1), link2, Vec3(0), 1.1);
            ball = MobilizedBody::Ball(matter.Ground(), Transform(Vec3(3, 0, 0)), body, Transform(Vec3(0, 0.3, 0)));
            driven = MobilizedBody::Slider(matter.Ground(), Transform(Vec3(0, 3, 0)), body, Transform());
            steady = Motion::Steady(driven, 0.75);
        }
        if (k == "loopmany") {
            // eight particles each held at its place by a Ball: 24 more constraint equations whose errors stay at zero, so that
            // the RMS norm of all errors is much smaller than the largest one (the two norms give different verdicts)
            for (int i = 0; i < 8; ++i) {
                const Vec3 p(5 + i, 0.5 * i, -1);
                MobilizedBody::Translation part(matter.Ground(), Transform(p), body, Transform());
                Constraint::Ball(matter.Ground(), p, part, Vec3(0));
            }
        }
    }
};

static void noteSegment(const Model& m, const State& s);
static int qOK(const Model& m, const State& s);
struct Witness : public TriggeredEventHandler {
    const Model& m; string kind; Real c; int id; string act;
    Witness(const Model& m, const string& kind, Real c, bool rise, bool fall, Real win, int id, const string& act)
    : TriggeredEventHandler(kind == "t" ? Stage::Time : Stage::Position), m(m), kind(kind), c(c), id(id), act(act) {
        getTriggerInfo().setTriggerOnRisingSignTransition(rise);
        getTriggerInfo().setTriggerOnFallingSignTransition(fall);
        getTriggerInfo().setRequiredLocalizationTimeWindow(win);
    }
    Real getValue(const State& s) const override {
        if (kind == "t") return s.getTime() - c;
        if (kind == "q") return m.slider.getOneQ(s, 0) - c;
        if (kind == "sinq") return std::sin(m.slider.getOneQ(s, 0) * c);
        if (kind == "pend") return m.pend.getOneQ(s, 0) - c;
        return 1;
    }
    void handleEvent(State& s, Real, bool& term) const override {
        std::ostringstream js;
        js << "{\"e\":\"H\",\"kind\":\"trig\",\"id\":" << id << ",\"t\":" << num(s.getTime())
           << ",\"val\":" << num(getValue(s)) << "}";
        logEv(js.str());
        if (act == "setu") m.slider.setOneU(s, 0, -m.slider.getOneU(s, 0));
        else if (act == "term") term = true;
        noteSegment(m, s);
    }
};

struct Sched : public ScheduledEventHandler {
    const Model& m; std::vector<Real> times; int id; string act;
    Sched(const Model& m, std::vector<Real> t, int id, const string& act) : m(m), times(t), id(id), act(act) {}
    Real getNextEventTime(const State& s, bool includeCurrent) const override {
        for (Real t : times) if (t > s.getTime() || (includeCurrent && t == s.getTime())) return t;
        return Infinity;
    }
    void handleEvent(State& s, Real, bool& term) const override {
        std::ostringstream js;
        js << "{\"e\":\"H\",\"kind\":\"sched\",\"id\":" << id << ",\"t\":" << num(s.getTime()) << "}";
        logEv(js.str());
        if (act == "setu") m.slider.setOneU(s, 0, m.slider.getOneU(s, 0) + 0.5);
        else if (act == "setq") m.slider.setOneQ(s, 0, m.slider.getOneQ(s, 0) + 0.25);
        else if (act == "term") term = true;
        noteSegment(m, s);
    }
};
struct Periodic : public PeriodicEventHandler {
    const Model& m; int id; string act;
    Periodic(const Model& m, Real dt, int id, const string& act) : PeriodicEventHandler(dt), m(m), id(id), act(act) {}
    void handleEvent(State& s, Real, bool& term) const override {
        std::ostringstream js;
        js << "{\"e\":\"H\",\"kind\":\"per\",\"id\":" << id << ",\"t\":" << num(s.getTime()) << "}";
        logEv(js.str());
        if (act == "setu") m.slider.setOneU(s, 0, m.slider.getOneU(s, 0) * 0.5);
        noteSegment(m, s);
    }
};
struct SchedRep : public ScheduledEventReporter {
    const Model& m; std::vector<Real> times; int id;
    SchedRep(const Model& m, std::vector<Real> t, int id) : m(m), times(t), id(id) {}
    Real getNextEventTime(const State& s, bool includeCurrent) const override {
        for (Real t : times) if (t > s.getTime() || (includeCurrent && t == s.getTime())) return t;
        return Infinity;
    }
    void handleEvent(const State& s) const override {
        std::ostringstream js;
        js << "{\"e\":\"H\",\"kind\":\"srep\",\"id\":" << id << ",\"t\":" << num(s.getTime())
           << ",\"q\":" << num(m.slider.getOneQ(s, 0)) << ",\"qok\":" << qOK(m, s) << "}";
        logEv(js.str());
    }
};
struct Reporter : public PeriodicEventReporter {
    const Model& m; int id;
    Reporter(const Model& m, Real dt, int id) : PeriodicEventReporter(dt), m(m), id(id) {}
    void handleEvent(const State& s) const override {
        std::ostringstream js;
        js << "{\"e\":\"H\",\"kind\":\"rep\",\"id\":" << id << ",\"t\":" << num(s.getTime())
           << ",\"q\":" << num(m.slider.getOneQ(s, 0)) << ",\"qok\":" << qOK(m, s) << "}";
        logEv(js.str());
    }
};

static void noteSegment(const Model& m, const State& s) {
    segT = s.getTime(); segQ = m.slider.getOneQ(s, 0); segU = m.slider.getOneU(s, 0);
}
static int qOK(const Model& m, const State& s) {
    const Real want = segQ + segU * (s.getTime() - segT);
    return std::fabs(m.slider.getOneQ(s, 0) - want) <= 1e-9 * std::max(1.0, std::fabs(want)) ? 1 : 0;
}

// A second subsystem with its own scheduled events (the System scans subsystems in index order
// when it computes the time of the next scheduled event).
class SchedSubGuts : public Subsystem::Guts {
public:
    std::vector<Real> times; mutable EventId eid; int id;
    SchedSubGuts(std::vector<Real> t, int id) : Subsystem::Guts("SchedSub", "0"), times(t), id(id) {}
    SchedSubGuts* cloneImpl() const override { return new SchedSubGuts(*this); }
    int realizeSubsystemTopologyImpl(State& s) const override { createScheduledEvent(s, eid); return 0; }
    void calcTimeOfNextScheduledEventImpl(const State& s, Real& tNext, Array_<EventId>& ids, bool incl) const override {
        tNext = Infinity;
        for (Real t : times) if (t > s.getTime() || (incl && t == s.getTime())) { tNext = t; break; }
        if (tNext < Infinity) ids.push_back(eid);
    }
    void handleEventsImpl(State& s, Event::Cause cause, const Array_<EventId>& ids, const HandleEventsOptions&,
                          HandleEventsResults& res) const override {
        if (cause != Event::Cause::Scheduled) return;
        for (auto e : ids) if (e == eid) {
            std::ostringstream js;
            js << "{\"e\":\"H\",\"kind\":\"sub\",\"id\":" << id << ",\"t\":" << num(s.getTime()) << "}";
            logEv(js.str());
        }
        res.setExitStatus(HandleEventsResults::Succeeded);
    }
};
class SchedSub : public Subsystem {
public:
    SchedSub(System& sys, std::vector<Real> t, int id) { adoptSubsystemGuts(new SchedSubGuts(t, id)); sys.adoptSubsystem(*this); }
};

static Integrator* makeInteg(const string& n, const System& sys) {
    if (n == "ExplicitEuler") return new ExplicitEulerIntegrator(sys);
    if (n == "RK2") return new RungeKutta2Integrator(sys);
    if (n == "RK3") return new RungeKutta3Integrator(sys);
    if (n == "RKF") return new RungeKuttaFeldbergIntegrator(sys);
    if (n == "RKM") return new RungeKuttaMersonIntegrator(sys);
    if (n == "Verlet") return new VerletIntegrator(sys);
    if (n == "SEE") return new SemiExplicitEulerIntegrator(sys, 0.01);
    if (n == "SEE2") return new SemiExplicitEuler2Integrator(sys);
    if (n == "CPodes") return new CPodesIntegrator(sys);
    throw std::runtime_error("unknown integrator " + n);
}

static Real rmsOrInf(const Vector& v, bool inf) {
    if (v.size() == 0) return 0;
    return inf ? v.normInf() : v.normRMS();
}

// manifold flags of a returned state
static string manifold(const Model& m, const Integrator& integ, const State& s) {
    m.system.realize(s, Stage::Velocity);
    const Real tol = integ.getConstraintToleranceInUse();
    const bool inf = integ.isInfinityNormInUse();
    const Real qe = rmsOrInf(s.getQErr(), inf), ue = rmsOrInf(s.getUErr(), inf);
    bool pres = true; Real quat = 0;
    if (m.kind == "loop" || m.kind == "loopmany") {
        pres = std::fabs(m.driven.getOneU(s, 0) - 0.75) <= 1e-12;
        if (!m.matter.getUseEulerAngles(s)) {
            Vec4 q = m.ball.getQ(s); quat = std::fabs(q.norm() - 1);
        }
    }
    std::ostringstream js;
    js << "{\"q\":" << (qe <= tol * 1.000001 ? 1 : 0) << ",\"u\":" << (ue <= tol * 1.000001 ? 1 : 0)
       << ",\"quat\":" << (quat <= tol * 1.000001 ? 1 : 0) << ",\"pres\":" << (pres ? 1 : 0)
       << ",\"qe\":" << num(qe) << ",\"ue\":" << num(ue) << ",\"tol\":" << num(tol) << "}";
    return js.str();
}

static void onAlarm(int) {
    // a call that never returns: report it and give up on this process (the driver restarts us
    // after the offending program)
    const char msg[] = "{\"e\":\"Timeout\"}\n";
    if (out) { fflush(out); (void)!write(fileno(out), msg, sizeof msg - 1); }
    _exit(3);
}

int main(int argc, char** argv) {
    if (argc < 3) return 2;
    std::ifstream in(argv[1]);
    const int skip = argc > 3 ? atoi(argv[3]) : 0;
    out = fopen(argv[2], skip ? "a" : "w");
    signal(SIGALRM, onAlarm);
    string line; int lineno = 0;
    while (std::getline(in, line)) {
        ++lineno;
        if (lineno <= skip) continue;
        alarm(30);
        mj::Value p = mj::parse(line.c_str());
        if (!p.isObject()) continue;
        fprintf(out, "{\"e\":\"Reset\",\"prog\":%d}\n", lineno);
        try {
            Model m(p["sys"].str());
            int hid = 0;
            for (auto& w : p["witness"].arr())
                m.system.addEventHandler(new Witness(m, w["kind"].str(), w["c"].dbl(), w["rise"].boolean(), w["fall"].boolean(),
                                                     w["win"].dbl(), hid++, w.has("act") ? w["act"].str() : "none"));
            for (auto& sc : p["sched"].arr()) {
                std::vector<Real> ts; for (auto& t : sc["times"].arr()) ts.push_back(t.dbl());
                m.system.addEventHandler(new Sched(m, ts, hid++, sc.has("act") ? sc["act"].str() : "none"));
            }
            for (auto& pe : p["periodic"].arr())
                m.system.addEventHandler(new Periodic(m, pe["dt"].dbl(), hid++, pe.has("act") ? pe["act"].str() : "none"));
            for (auto& r : p["reporters"].arr())
                m.system.addEventReporter(new Reporter(m, r["dt"].dbl(), hid++));
            for (auto& r : p["schedrep"].arr()) {
                std::vector<Real> ts; for (auto& t : r["times"].arr()) ts.push_back(t.dbl());
                m.system.addEventReporter(new SchedRep(m, ts, hid++));
            }
            std::vector<std::unique_ptr<SchedSub>> subs;
            for (auto& sb : p["subsched"].arr()) {
                std::vector<Real> ts; for (auto& t : sb["times"].arr()) ts.push_back(t.dbl());
                subs.emplace_back(new SchedSub(m.system, ts, hid++));
            }
            m.system.realizeTopology();
            State s0 = m.system.getDefaultState();
            if (p.has("euler") && p["euler"].boolean()) { m.matter.setUseEulerAngles(s0, true); m.system.realizeModel(s0); }
            m.slider.setOneU(s0, 0, p.has("u0") ? p["u0"].dbl() : 1.0);
            if (m.kind == "loop" || m.kind == "loopmany") m.ball.setUToFitAngularVelocity(s0, Vec3(1.5, -0.7, 0.9));
            segT = 0; segQ = 0; segU = p.has("u0") ? p["u0"].dbl() : 1.0;
            std::unique_ptr<Integrator> integ(makeInteg(p["integ"].str(), m.system));
            const mj::Value& o = p["opts"];
            if (o.has("final")) integ->setFinalTime(o["final"].dbl());
            if (o.has("allowInterp")) integ->setAllowInterpolation(o["allowInterp"].boolean());
            if (o.has("everyStep")) integ->setReturnEveryInternalStep(o["everyStep"].boolean());
            if (o.has("stepLimit")) integ->setInternalStepLimit(o["stepLimit"].num());
            if (o.has("fixed")) integ->setFixedStepSize(o["fixed"].dbl());
            if (o.has("maxStep")) integ->setMaximumStepSize(o["maxStep"].dbl());
            if (o.has("acc")) integ->setAccuracy(o["acc"].dbl());
            if (o.has("ctol")) integ->setConstraintTolerance(o["ctol"].dbl());
            if (o.has("projEvery")) integ->setProjectEveryStep(o["projEvery"].boolean());
            if (o.has("projInterp")) integ->setProjectInterpolatedStates(o["projInterp"].boolean());
            if (o.has("infNorm")) integ->setUseInfinityNorm(o["infNorm"].boolean());
            const bool wantMan = p.has("manifold") && p["manifold"].boolean();

            if (p["mode"].str() == "ts") {
                TimeStepper ts(m.system, *integ);
                if (p.has("allSig")) ts.setReportAllSignificantStates(p["allSig"].boolean());
                ts.initialize(s0);
                for (auto& c : p["calls"].arr()) {
                    gLog.clear();
                    string exc; int st = -1;
                    try { st = ts.stepTo(c["to"].dbl()); } catch (const std::exception& e) { exc = e.what(); }
                    for (auto& l : gLog) fprintf(out, "%s\n", l.c_str());
                    fprintf(out, "{\"e\":\"TSRet\",\"to\":%s,\"st\":%d,\"t\":%s,\"tadv\":%s,\"over\":%d,\"qok\":%d,\"q\":%s,\"u\":%s,\"exc\":%s}\n",
                            num(c["to"].dbl()).c_str(), st, num(integ->getTime()).c_str(), num(integ->getAdvancedTime()).c_str(),
                            integ->isSimulationOver() ? 1 : 0, qOK(m, integ->getState()), num(m.slider.getOneQ(integ->getState(), 0)).c_str(),
                            num(m.slider.getOneU(integ->getState(), 0)).c_str(), mj::quote(exc.substr(0, 200)).c_str());
                    if (!exc.empty()) break;
                }
            } else {
                integ->initialize(s0);
                for (auto& c : p["calls"].arr()) {
                    Real rep = c["rep"].kind == mj::Value::Str ? Infinity : c["rep"].dbl();
                    Real sch = (!c.has("sch") || c["sch"].kind == mj::Value::Str) ? Infinity : c["sch"].dbl();
                    // what every caller guarantees: no request in the past, no scheduled event
                    // earlier than the time already advanced to
                    rep = std::max(rep, integ->getTime());
                    sch = std::max(sch, std::max(integ->getTime(), integ->getAdvancedTime()));
                    const int n0 = integ->getNumStepsTaken();
                    fprintf(out, "{\"e\":\"Call\",\"rep\":%s,\"sch\":%s}\n", num(rep).c_str(), num(sch).c_str());
                    string exc; int st = -1;
                    try { st = integ->stepTo(rep, sch); } catch (const std::exception& e) { exc = e.what(); }
                    std::ostringstream js;
                    js << "{\"e\":\"Ret\",\"st\":" << st << ",\"t\":" << num(integ->getTime()) << ",\"tadv\":" << num(integ->getAdvancedTime())
                       << ",\"interp\":" << (integ->isStateInterpolated() ? 1 : 0) << ",\"over\":" << (integ->isSimulationOver() ? 1 : 0)
                       << ",\"n\":" << (integ->getNumStepsTaken() - n0);
                    if (st == Integrator::ReachedEventTrigger) {
                        Vec2 w = integ->getEventWindow();
                        js << ",\"lo\":" << num(w[0]) << ",\"hi\":" << num(w[1]) << ",\"ids\":[";
                        const Array_<EventId>& ids = integ->getTriggeredEvents();
                        for (int i = 0; i < (int)ids.size(); ++i) js << (i ? "," : "") << (int)ids[i];
                        js << "],\"est\":[";
                        const Array_<Real>& est = integ->getEstimatedEventTimes();
                        for (int i = 0; i < (int)est.size(); ++i) js << (i ? "," : "") << num(est[i]);
                        js << "],\"q\":" << num(m.slider.getOneQ(integ->getState(), 0))
                           << ",\"tscale\":" << num(m.system.getDefaultTimeScale())
                           << ",\"acc\":" << num(integ->getAccuracyInUse());
                    }
                    if (wantMan && exc.empty() && st != -1) js << ",\"man\":" << manifold(m, *integ, integ->getState());
                    js << ",\"exc\":" << mj::quote(exc.substr(0, 200)) << "}";
                    fprintf(out, "%s\n", js.str().c_str());
                    if (!exc.empty()) break;
                    // emulate what TimeStepper does after an event
                    if (c.has("reinit") && c["reinit"].num() > 0 &&
                        (st == Integrator::ReachedEventTrigger || st == Integrator::ReachedScheduledEvent ||
                         st == Integrator::TimeHasAdvanced)) {
                        const bool mod = c["reinit"].num() == 2;
                        if (mod) m.slider.setOneU(integ->updAdvancedState(), 0, m.slider.getOneU(integ->getAdvancedState(), 0) + 0.125);
                        integ->reinitialize(mod ? Stage::Velocity : Stage::Report, false);
                        fprintf(out, "{\"e\":\"Reinit\",\"mod\":%d}\n", mod ? 1 : 0);
                    }
                }
            }
        } catch (const std::exception& e) {
            fprintf(out, "{\"e\":\"Error\",\"exc\":%s}\n", mj::quote(string(e.what()).substr(0, 300)).c_str());
        }
        fflush(out);
    }
    fclose(out);
    return 0;
}
